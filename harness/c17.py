"""C17 next to other writers' files: reads on a missing or existing JSON resource whose directory
holds what a crashed or still-running writer leaves behind (the temporary file of an atomic save,
complete or cut off; backup-style siblings) must leave the WHOLE directory as it was: no file
created, none removed, renamed or rewritten (names, bytes, inode, mtime), and issue no mutating file operation at all (process-wide tracer:
open for writing, write, replace, rename, remove, truncate) — unbuffered and inside
both kinds of buffered context, in both threading modes and write modes of the class."""
import json
import os
import shutil
import tempfile
import uuid

import crash
import env

READS = ["len", "repr", "call", "iter", "contains", "eq", "get", "keys"]
CLASSES = [("JSONDict", True), ("JSONList", False), ("JSONAttrDict", True), ("BufferedJSONDict", True),
           ("BufferedJSONList", False), ("MemoryBufferedJSONDict", True), ("MemoryBufferedJSONList", False),
           ("BufferedJSONAttrDict", True)]


def _snapshot(d):
    out = {}
    for name in sorted(os.listdir(d)):
        p = os.path.join(d, name)
        st = os.stat(p)
        with open(p, "rb") as f:
            out[name] = [f.read().decode("latin-1"), st.st_ino, st.st_mtime_ns]
    return out


def _do_read(x, is_dict, r):
    if r == "len":
        len(x)
    elif r == "repr":
        repr(x)
        str(x)
    elif r == "call":
        x()
    elif r == "iter":
        list(iter(x))
    elif r == "contains":
        _ = ("a" in x)
    elif r == "eq":
        _ = (x == ({"zz": 1} if is_dict else [9]))
        if not is_dict:
            _ = (x < [1])
    elif r == "get":
        if is_dict:
            x.get("a")
            try:
                x["a"]
            except KeyError:
                pass
        else:
            try:
                x[0]
            except IndexError:
                pass
            x.count(1)
    elif r == "keys":
        if is_dict:
            list(x.keys()), list(x.values()), list(x.items())
        else:
            try:
                x.index(1)
            except ValueError:
                pass


def run_case(ns, cname, is_dict, threads, wc, exists, leftover, ctx, model_ops=()):
    """returns a list of messages (violations)"""
    d = tempfile.mkdtemp(prefix="scverif_c17_")
    out = os.path.join(d + "_out.json")
    try:
        name = "data.json"
        p = os.path.join(d, name)
        content = {"a": 1, "n": {"k": [1, 2]}} if is_dict else [1, {"k": [1, 2]}]
        other = {"a": 2, "w": "other writer"} if is_dict else [7, "other writer"]
        if exists:
            with open(p, "wb") as f:
                f.write(json.dumps(content).encode())
        full = json.dumps(other).encode()
        tmpname = "._%s_%s" % (uuid.UUID(int=0x1234567890abcdef1234567890abcdef, version=4), name)
        if leftover == "tmp-complete":
            files = {tmpname: full}
        elif leftover == "tmp-partial":
            files = {tmpname: full[: len(full) // 2]}
        elif leftover == "siblings":
            files = {name + "~": full, name + ".bak": full, name + ".tmp": full, "." + name + ".swp": full}
        else:
            files = {}
        for n, b in files.items():
            with open(os.path.join(d, n), "wb") as f:
                f.write(b)

        def child():
            J = ns.json_mod
            cls = getattr(J, cname)
            if not threads:
                cls.disable_multithreading()
            msgs = []
            kw = dict(filename=p)
            if wc:
                kw["write_concern"] = True
            x = cls(**kw)
            before = _snapshot(d)
            tr = crash.Tracer()
            tr.install()

            def judge(what):
                muts = [l for l in crash.canonical(tr.events, [p])[0] if l != "encode"]
                if muts != list(model_ops) and not msgs:
                    msgs.append("%s(filename=<dir>/data.json%s), threading %s, file %s, directory also holds %s: %s issued mutating file "
                                "operations %s (0 = data.json, 100+ = other paths); the model's load program (FS.loadProgram) issues %s" % (
                                    cname, ", write_concern=True" if wc else "", "on" if threads else "off",
                                    "exists" if exists else "missing", sorted(files) or "nothing", what, muts[:6], list(model_ops)))
                now = _snapshot(d)
                if now != before and not msgs:
                    created = sorted(set(now) - set(before))
                    removed = sorted(set(before) - set(now))
                    changed = sorted(k for k in now if k in before and now[k] != before[k])
                    msgs.append("%s(filename=<dir>/data.json%s), threading %s, file %s, directory also holds %s: %s changed the directory "
                                "(created %s, removed %s, rewritten %s)" % (
                                    cname, ", write_concern=True" if wc else "", "on" if threads else "off",
                                    "exists" if exists else "missing", sorted(files) or "nothing", what, created, removed, changed))

            def reads(tag):
                for r in READS:
                    try:
                        _do_read(x, is_dict, r)
                    except Exception as e:  # noqa: BLE001
                        judge("read %s%s raising %s" % (r, tag, type(e).__name__))
                        continue
                    judge("read %s%s" % (r, tag))

            if ctx == "none":
                reads("")
            elif ctx == "obj":
                with x.buffered:
                    reads(" inside obj.buffered")
                judge("leaving obj.buffered after reads only")
            else:
                with cls.buffer_backend():
                    reads(" inside buffer_backend()")
                judge("leaving buffer_backend() after reads only")
            tr.active = False
            tr.uninstall()
            with open(out, "w") as f:
                json.dump(msgs, f)
        code = crash.run_child(child)
        if code != 0:
            return ["child exit %s" % code], True
        return json.load(open(out)), False
    finally:
        shutil.rmtree(d, ignore_errors=True)
        if os.path.exists(out):
            os.unlink(out)


def cases():
    out = []
    for cname, is_dict in CLASSES:
        buffered = "Buffered" in cname
        for threads in (True, False):
            for wc in (False, True):
                for exists in (False, True):
                    for leftover in ("tmp-complete", "tmp-partial", "siblings", "none"):
                        for ctx in (("none", "obj", "backend") if buffered else ("none",)):
                            out.append((cname, is_dict, threads, wc, exists, leftover, ctx))
    return out


def model_load_ops(ns):
    """what the Lean model says a load does to the file system (`fs load` query = FS.loadProgram)"""
    import drive
    md = drive.ModelDriver(ns)
    line = md.query("fs load 0")
    assert line.startswith("ops:"), line
    return [x for x in line[4:].strip().split("; ") if x]


def unit_c17_leftovers(args):
    part, parts, seed = args
    ns = env.load()
    mops = model_load_ops(ns)
    res = dict(kind="oracle", fam=0, seed=seed, profile="c17/leftovers", steps=0, stats={"cases": 0, "reads": 0}, violations=[])
    cs = cases()
    for i, c in enumerate(cs):
        if i % parts != part:
            continue
        msgs, crashed = run_case(ns, *c, model_ops=mops)
        res["stats"]["cases"] += 1
        res["stats"]["reads"] += len(READS)
        res["steps"] += len(READS)
        if crashed:
            res["crash"] = "c17 case %r: %s" % (c, msgs[0])
            return res
        for m in msgs:
            res["violations"].append(dict(props=["C17"], msg=m, fam="json", kind="c17l", ops=None, sig="C17:leftovers",
                                          extra=dict(case=list(c))))
    return res


def replay(prop, path, payload, ns):
    c = payload["extra"]["case"]
    msgs, crashed = run_case(ns, *c, model_ops=model_load_ops(ns))
    for m in msgs:
        print("VIOLATION property=%s replay=%s" % (prop, path))
        print("  " + m[:600])
    if not msgs:
        print("replay: no violation of %s on the current tree" % prop)
    return 1 if msgs else 0
