"""Per-property configuration of the check: which work units run, how many, which
violation tags count, how results are aggregated and replayed."""
import collections
import json
import os
import re

N_FAM = 9

SEQ_ASSUME = [
    "the executable Lean model (SC/Seq.lean etc.) is tied to the code by differential correspondence on generated programs, not by proof",
    "backend content is compared as parsed data (the JSON text layer json.dumps/json.loads, BSON and the numcodecs codec are standard library / third party, exercised by value)",
    "Redis, MongoDB and Zarr are exercised through in-process fakes (a byte store, a deep-copying document store with BSON's string-key rule, a JSON round-tripping one-element array)",
]

# property -> configuration
PROPS = {}


def seq_prop(pid, corr_profiles, oracle_profiles, rule, extra_assume=(), quick=(80, 120), thorough=(1200, 2000), steps=28):
    PROPS[pid] = dict(
        suites=[("unit_seq_corr", corr_profiles, quick[0], thorough[0], steps),
                ("unit_seq_oracle", oracle_profiles, quick[1], thorough[1], steps + 6)],
        rule=rule, assumptions=SEQ_ASSUME + list(extra_assume))


seq_prop("C01", ["single", "multi"], ["single", "multi", "fresh"],
         "seeded online-generated programs (every public mutator and read, handles at any depth, 1-3 objects per resource) on all 9 backend families; "
         "a program is non-trivial if it performs >= 5 mutating calls; distinct = distinct op-name sequences")
seq_prop("C02", ["ext", "multi"], ["ext", "multi"],
         "programs interleaving operations on 1-3 objects and their retained child handles with outside rewrites of the resource that mutate the current content at a random position into a random other JSON value; distinct = distinct op-name sequences with >= 1 outside write or second object")
seq_prop("C03", ["single", "errors"], ["single", "errors", "fresh"],
         "programs over the full MutableMapping/MutableSequence surface incl. slices, negative/out-of-range indices, missing keys, comparisons; the 'errors' stream aims 60% of keys/indices at absent positions; three-way: real class vs Lean model vs built-in dict/list replay")
seq_prop("C04", ["multi", "ext", "multi_faulty"], ["multi", "ext", "multi_faulty"],
         "sequential histories over 2-3 objects bound to one resource and retained child handles of each (including stale ones), every mutator incl. clear/reset on nested children; the 'multi_faulty' stream makes 15% of the arguments invalid and 25% of keys/indices absent so that histories contain operations that raised")
seq_prop("C11", ["invalid"], ["invalid"],
         "programs in which 35% of the values passed to mutating entry points carry exactly one planted forbidden item (non-string key, non-JSON leaf, dotted key for attr families) at a random depth 0-3; targets are roots, nested dicts and nested lists")
seq_prop("C12", ["single", "fresh"], ["single", "fresh", "ext"],
         "values drawn from a scalar alphabet chosen to collide under == (0, False, 0.0, 1, True, 1.0, '', None, big ints, boundary floats, escape-heavy and astral strings) nested to depth 3, stored through every entry point and read back through a fresh object with strict leaf types")
seq_prop("C17", ["single", "ext"], ["single", "ext"],
         "programs with 35-45% read operations on existing and on missing resources; after every read the resource is re-read independently and must be byte-for-byte what it was (content and existence)")


def tasks(prop, tier, seed, oracle_only=False):
    conf = PROPS[prop]
    out = []
    for unit, profiles, nq, nt, steps in conf["suites"]:
        if oracle_only and "corr" in unit:
            continue
        n = nq if tier == "quick" else nt
        for fam in range(N_FAM):
            for profile in profiles:
                for i in range(n):
                    out.append((unit, (fam, seed * 100003 + i, profile, steps)))
    return out


def aggregate(prop, results):
    agg = dict(programs=0, corr_programs=0, steps=0, diffs=[], violations=[], crashes=[], samples=[],
               distribution={}, distinct=0)
    hist = collections.Counter()
    stats = collections.Counter()
    shapes = set()
    per_fam = collections.Counter()
    errs = 0
    for r in results:
        if r is None:
            continue
        if r.get("crash"):
            agg["crashes"].append(r["crash"])
            continue
        agg["programs"] += 1
        agg["steps"] += r.get("steps", 0)
        per_fam[r.get("fam")] += 1
        if r["kind"] == "corr":
            agg["corr_programs"] += 1
            hist.update(r.get("hist", {}))
            errs += r.get("errors", 0)
            shapes.add(json.dumps(sorted(r.get("hist", {}).items())) + str(r.get("steps")))
            if r.get("diff"):
                d = r["diff"]
                agg["diffs"].append(dict(suite="unit_seq_corr/" + r["profile"], fam=r["fam"], seed=r["seed"],
                                         line=d["line"], real=d["real"], model=d["model"], ops=d["ops"]))
            if r.get("sample") and len(agg["samples"]) < 6:
                agg["samples"].append(dict(kind="correspondence", family=r["fam"], profile=r["profile"],
                                           first_lines=r["sample"]))
        elif r["kind"] == "oracle":
            stats.update(r.get("stats", {}))
            shapes.add("o%d/%d/%s/%s" % (r["fam"], r["seed"], r["profile"], sorted(r.get("stats", {}).items())))
            for v in r.get("violations", []):
                if prop in v["props"]:
                    v = dict(v)
                    v["kind"] = "shadow"
                    agg["violations"].append(v)
    agg["distinct"] = len(shapes)
    agg["distribution"] = dict(op_histogram=dict(hist), error_results=errs, oracle_stats=dict(stats),
                               programs_per_family=dict(per_fam))
    if not agg["samples"]:
        agg["samples"].append(dict(kind="none", note="no sample recorded"))
    return agg


def signature(prop, v):
    """failure signature used to match known findings: property, operation, failure kind"""
    msg = v.get("msg", "")
    m = re.match(r"(?:after |operation |read |rejected )?(\w+)", msg)
    return "%s:%s:%s" % (prop, v.get("kind", "shadow"), m.group(1) if m else "?")


def broken_theorems(log):
    """names of the theorems in which `lake build` reported errors"""
    verif = os.path.dirname(os.path.dirname(os.path.abspath(__file__)))
    out = []
    for path, line in sorted(set(re.findall(r"error: (SC/[\w/]+\.lean):(\d+):\d+", log))):
        try:
            src = open(os.path.join(verif, "lean", path)).read().split("\n")
        except OSError:
            continue
        name = None
        for i in range(int(line) - 1, -1, -1):
            m = re.match(r"\s*(?:private\s+)?(?:theorem|def|example|instance)\s+([\w.']+)", src[i] if i < len(src) else "")
            if m:
                name = m.group(1)
                break
        out.append("%s:%s (%s)" % (path, line, name))
    return out


def replay(prop, path):
    """re-execute a replay file on the implementation under the property's oracle"""
    import env
    import suites
    from fakes import MISSING  # noqa: F401
    from proto import Other  # noqa: F401
    payload = json.load(open(path))
    if payload.get("kind") == "broken-tie":
        print("replay: no concrete input; the following no longer check:")
        for p in payload["problems"]:
            print("  [%s] %s" % (p["kind"], p["what"][:600]))
        return 1
    ns = env.load()
    fam = [f for f in ns.families if f.short == payload["family"]][0]
    ops = eval(payload["ops"], {"Other": Other, "MISSING": MISSING, "slice": slice})
    if payload.get("kind") == "shadow":
        sh, _ = suites.run_shadow(ns, fam, ops)
        bad = [v for v in sh.violations if prop in v[0]]
        for v in bad:
            print("VIOLATION property=%s replay=%s" % (prop, path))
            print("  " + v[1][:600])
        if not bad:
            print("replay: no violation of %s on the current tree" % prop)
        return 1 if bad else 0
    print("replay: unknown replay kind", payload.get("kind"))
    return 2
