"""Per-property configuration of the check: which work units run, how many, which
violation tags count, how results are aggregated and replayed."""
import collections
import json
import os
import re

N_FAM = 9

SEQ_ASSUME = [
    "the executable Lean model (SC/Seq.lean etc.) is tied to the code by differential correspondence on generated programs, not by proof",
    "backend content is compared as parsed data (the JSON text layer json.dumps/json.loads, BSON and the numcodecs codec are standard library / third party, exercised by value)",
    "Redis, MongoDB and Zarr are exercised through in-process fakes (a byte store, a deep-copying document store with BSON's string-key rule, a JSON round-tripping one-element array)",
]

# property -> configuration
PROPS = {}


WEAKHASH_RULE = ("; change detection: on the five buffered JSON classes x both context kinds, a value is replaced inside the context by one whose encoding collides with it "
                 "under the fingerprints a cheaper change detection would use (length, byte sum / xor, Adler-32 / Fletcher, equal ends) - 24 ordered pairs; the file after the exit "
                 "and a fresh object must show the new value (the model assumes the hash of the buffered bytes is collision-free)")


def seq_prop(pid, corr_profiles, oracle_profiles, rule, extra_assume=(), quick=(80, 120), thorough=(1200, 2000), steps=28):
    PROPS[pid] = dict(
        suites=[("unit_seq_corr", corr_profiles, quick[0], thorough[0], steps),
                ("unit_seq_oracle", oracle_profiles, quick[1], thorough[1], steps + 6)],
        rule=rule, assumptions=SEQ_ASSUME + list(extra_assume))


seq_prop("C01", ["single", "multi", "plainfile"], ["single", "multi", "fresh", "plainfile"],
         "seeded online-generated programs (every public mutator and read, handles at any depth, 1-3 objects per resource) on all 9 backend families; "
         "a program is non-trivial if it performs >= 5 mutating calls; distinct = distinct op-name sequences")
seq_prop("C02", ["ext", "multi"], ["ext", "multi"],
         "programs interleaving operations on 1-3 objects and their retained child handles with outside rewrites of the resource that mutate the current content at a random position into a random other JSON value; distinct = distinct op-name sequences with >= 1 outside write or second object")
seq_prop("C03", ["single", "errors"], ["single", "errors", "fresh"],
         "programs over the full MutableMapping/MutableSequence surface incl. slices, negative/out-of-range indices, missing keys, comparisons; the 'errors' stream aims 60% of keys/indices at absent positions; three-way: real class vs Lean model vs built-in dict/list replay")
seq_prop("C04", ["multi", "ext", "multi_faulty"], ["multi", "ext", "multi_faulty"],
         "sequential histories over 2-3 objects bound to one resource and retained child handles of each (including stale ones), every mutator incl. clear/reset on nested children; the 'multi_faulty' stream makes 15% of the arguments invalid and 25% of keys/indices absent so that histories contain operations that raised")
seq_prop("C11", ["invalid"], ["invalid"],
         "programs in which 35% of the values passed to mutating entry points carry exactly one planted forbidden item (non-string key, non-JSON leaf, dotted key for attr families) at a random depth 0-3; targets are roots, nested dicts and nested lists")
seq_prop("C12", ["single", "fresh", "multi"], ["single", "fresh", "ext", "multi"],
         "values drawn from a scalar alphabet chosen to collide under == (0, False, 0.0, 1, True, 1.0, '', None, big ints, boundary floats, escape-heavy and astral strings) nested to depth 3, stored through every entry point and read back through a fresh object with strict leaf types")
seq_prop("C17", ["single", "ext"], ["single", "ext"],
         "programs with 35-45% read operations on existing and on missing resources; after every read the resource is re-read independently and must be byte-for-byte what it was (content and existence)")
PROPS["C12"]["suites"] = list(PROPS["C12"]["suites"]) + [dict(unit="unit_c08_unserialisable", special="awkward")]
# C17 also inside buffered contexts: a buffered copy that was only read is never written, whatever
# outside writers do meanwhile (the conflict scenarios of C07, judged for their read-only files)
PROPS["C17"]["suites"] = list(PROPS["C17"]["suites"]) + [dict(unit="unit_c07_scenarios", special="c07")]
PROPS["C11"]["suites"] = list(PROPS["C11"]["suites"]) + [dict(unit="unit_c11_foreign", special="c11f")]
PROPS["C12"]["suites"] = list(PROPS["C12"]["suites"]) + [dict(unit="unit_weak_hash", special="weakhash")]
PROPS["C12"]["rule"] += WEAKHASH_RULE


BUF_FAMS = [1, 2, 4, 5]
BUF_ASSUME = [
    "the executable Lean model of the buffer state machine (SC/Buffer.lean) is tied to the code by differential correspondence on generated programs, not by proof",
    "conflict detection is by (st_size, st_mtime_ns): an outside write that preserves both is invisible to the code and to the model alike; the harness's outside writer bumps mtime explicitly",
    "json.dumps length is modelled for the value alphabet the generator emits (float repr lengths are supplied by the harness)",
    "JSON files only (the buffered classes exist for the JSON backend only)",
]


def buf_prop(pid, corr_profiles, twin_profiles, rule, c07=False, extra_assume=(), quick=(60, 40), thorough=(900, 600), steps=30,
             seq=None):
    suites = [dict(unit="unit_buf_corr", profiles=corr_profiles, nq=quick[0], nt=thorough[0], steps=steps, fams=BUF_FAMS),
              dict(unit="unit_buf_twin", profiles=twin_profiles, nq=quick[1], nt=thorough[1], steps=steps, fams=BUF_FAMS)]
    if c07:
        suites.append(dict(unit="unit_c07_scenarios", special="c07"))
        suites.append(dict(unit="unit_buf_conflict", profiles=["conflict"], nq=120, nt=1500, steps=steps, fams=BUF_FAMS))
    if pid in ("C15", "C07"):
        suites.append(dict(unit="unit_buf_io_faults", special="iofault"))
    if pid == "C06":
        suites.append(dict(unit="unit_c06_handles", special="c06h"))
        suites.append(dict(unit="unit_c06_sessions", special="c06s"))
    if pid in ("C05", "C06"):
        suites.append(dict(unit="unit_weak_hash", special="weakhash"))
        rule += WEAKHASH_RULE
    if seq:
        suites += seq
    PROPS[pid] = dict(suites=suites, rule=rule, assumptions=BUF_ASSUME + list(extra_assume))


buf_prop("C05", ["basic", "caps", "joint"], ["basic", "caps", "joint"],
         "programs of dict/list operations (every mutator and read, child handles) interleaved with well-nested enter/exit of obj.buffered and Class.buffer_backend(cap) to depth 4 on the four buffered families x {dict, list}; correspondence with the Lean buffer machine (result, disk content, size, capacity, buffered files after every step) and a twin oracle executing the same program on the unbuffered class; distinct = distinct (op-name sequence, context structure)")
buf_prop("C06", ["joint", "basic"], ["joint", "jointcaps"],
         "programs with two objects per file that enter and leave their buffered contexts together (or share backend-wide contexts), reads and writes assigned to the objects at random, flush order fixed by first-touch order; twin oracle: every result equals the unbuffered execution, the file after the common exit equals the unbuffered file")
buf_prop("C07", ["conflict", "caps", "faults"], ["basic"], c07=True,
         rule="exhaustive scenarios over 1-2 files (quick) / 1-3 files (thorough): each file gets a role in {modified, read-only, untouched} x an outside write {before first buffered access, after it, never}, every first-touch order, both context kinds, dict and list, both strategies; plus generated programs with outside writes during buffered contexts in correspondence with the Lean machine (which models metadata stamps)")
buf_prop("C15", ["caps", "basic", "conflict", "faults"], ["caps", "jointcaps", "basic"],
         "programs with capacity changes (set_buffer_capacity, buffer_backend(cap), capacities from 0 / smaller than one document to large) over 1-3 files; after every step the reported size and capacity are compared with the Lean machine and, independently, with the encoded length of the twin's files (serialized) / bounds from the files that differ from disk (shared memory)")


def _c07_tasks(tier, seed):
    out = []
    for fam in BUF_FAMS:
        for is_dict in (True, False):
            for ctx_kind in ("class", "object"):
                out.append(("unit_c07_scenarios", (fam, is_dict, ctx_kind, 1, 0, 1, seed)))
                parts = 8
                picks = range(parts) if tier == "thorough" else [seed % parts, (seed + 3) % parts]
                for part in picks:
                    out.append(("unit_c07_scenarios", (fam, is_dict, ctx_kind, 2, part, parts, seed)))
                if tier == "thorough":
                    parts3 = 24
                    for part in range(parts3):
                        if (part + seed) % 3 == 0:
                            out.append(("unit_c07_scenarios", (fam, is_dict, ctx_kind, 3, part, parts3, seed)))
    return out


PROPS["C17"]["suites"] += [
    dict(unit="unit_buf_corr", profiles=["readonly"], nq=40, nt=600, steps=30, fams=BUF_FAMS),
    dict(unit="unit_buf_twin", profiles=["readonly", "basic"], nq=30, nt=400, steps=30, fams=BUF_FAMS)]
PROPS["C17"]["assumptions"] = PROPS["C17"]["assumptions"] + BUF_ASSUME[:2]


def _c17l_tasks(tier, seed):
    return [("unit_c17_leftovers", (part, 16, seed)) for part in range(16)]


def _weakhash_tasks(tier, seed):
    return [("unit_weak_hash", (ci, seed)) for ci in range(5)]


SPECIAL_C17L = _c17l_tasks
PROPS["C17"]["suites"] += [dict(unit="unit_c17_leftovers", special="c17l")]
PROPS["C17"]["rule"] += ("; directory audit: on 8 JSON classes x threading on/off x write_concern on/off x file missing/existing x what another writer left in the "
                        "directory (complete / cut-off temporary file of an atomic save, backup-style siblings, nothing) x {unbuffered, obj.buffered, buffer_backend()}: "
                        "after each of 8 kinds of read and after leaving the context, names, bytes, inode and mtime of EVERY file in the directory are unchanged, and the mutating file operations seen by the process-wide tracer are exactly those of the model's FS.loadProgram (none)")


def _iofault_tasks(tier, seed):
    return [("unit_buf_io_faults", (fam, isd, mode, seed)) for fam in BUF_FAMS for isd in (True, False)
            for mode in ("exit", "object", "forced")]


def tasks(prop, tier, seed, oracle_only=False):
    conf = PROPS[prop]
    out = []
    for su in conf["suites"]:
        if isinstance(su, tuple):
            su = dict(unit=su[0], profiles=su[1], nq=su[2], nt=su[3], steps=su[4], fams=range(N_FAM))
        if oracle_only and "corr" in su["unit"]:
            continue
        if su.get("special") == "c07":
            out += _c07_tasks(tier, seed)
            continue
        if su.get("special"):
            out += SPECIAL[su["special"]](tier, seed)
            continue
        n = su["nq"] if tier == "quick" else su["nt"]
        for fam in su["fams"]:
            for profile in su["profiles"]:
                for i in range(n):
                    out.append((su["unit"], (fam, seed * 100003 + i, profile, su["steps"])))
    return out


def _c06h_tasks(tier, seed):
    return [("unit_c06_handles", (fam, seed)) for fam in BUF_FAMS]


def _c06s_tasks(tier, seed):
    n_units, n = (4, 60) if tier == "quick" else (16, 400)
    return [("unit_c06_sessions", (fam, seed * 977 + i, n)) for fam in BUF_FAMS for i in range(n_units)]


def _awkward_tasks(tier, seed):
    """valid JSON data that encoders trip over (unpaired surrogates, control characters), saved in every
    write mode: must be accepted and read back exactly"""
    return [("unit_c08_unserialisable", (mode, seed)) for mode in ("atomic+awkward", "write_concern+awkward", "plain+awkward")]


def _c11f_tasks(tier, seed):
    return [("unit_c11_foreign", (fam, seed)) for fam in range(6)]


SPECIAL = {"c17l": SPECIAL_C17L, "weakhash": _weakhash_tasks, "iofault": _iofault_tasks, "c06h": _c06h_tasks, "c06s": _c06s_tasks, "awkward": _awkward_tasks, "c11f": _c11f_tasks}

C08_SCENARIOS = ["dict_default", "dict_default_fresh", "dict_default_shorter", "dict_write_concern_nothreads",
                 "attrdict_default", "dict_plain_nothreads", "dict_threads_enabled_after_construction",
                 "dict_threads_disabled_after_construction", "dict_same_length", "dict_same_length_write_concern_nothreads", "list_two_saves", "buffered_backend", "buffered_objects",
                 "buffered_forced", "membuffered_backend", "membuffered_forced", "membuffered_objects"]


def _c08_tasks(tier, seed):
    out = []
    for name in C08_SCENARIOS:
        out.append(("unit_c08_trace", (name, seed)))
        parts = 2
        for part in range(parts):
            out.append(("unit_c08_crash", (name, part, parts, seed, tier == "thorough")))
    # a save that cannot create its temporary file (crash enumeration only: there is no successful
    # save to compare with the model's step list)
    out.append(("unit_c08_crash", ("dict_default_longname", 0, 1, seed, tier == "thorough")))
    for mode in ("atomic", "write_concern", "plain", "atomic+awkward", "write_concern+awkward", "plain+awkward"):
        out.append(("unit_c08_unserialisable", (mode, seed)))
    return out


SPECIAL["c08"] = _c08_tasks

CONC_ASSUME = [
    "schedules are explored at the granularity of lock operations, file reads/writes, suspend-counter changes and merges (event level, preemption-bounded, systematic) and of executed lines of library code (random sampling); instructions inside one such step are assumed not to interact otherwise",
    "threads run under a cooperative scheduler that replaces the library's RLocks (rebinding module globals, no source hooks); the GIL-atomicity of single container operations is assumed",
    "JSON-file backend (the only one with thread locks usable here); Windows is out of scope (_supports_threading is False there)",
]


def _conc_tasks(profiles_fams, quick, thorough):
    def mk(tier, seed):
        out = []
        n, bound, budget, nrand = quick if tier == "quick" else thorough
        for profile, fams in profiles_fams:
            for fam in fams:
                for i in range(n):
                    out.append(("unit_conc", (fam, seed * 100003 + i, profile, bound, budget, nrand)))
        return out
    return mk


def _c10_tasks(tier, seed):
    out = []
    for fam in (0, 1, 2, 3, 4, 5):
        for is_dict in (True, False):
            for nested in (False, True):
                for buf in (("no",) if fam in (0, 3) else ("no", "ctx", "cap0")):
                    out.append(("unit_c10_faults", (fam, is_dict, nested, buf, seed)))
        out.append(("unit_c10_filename", (fam, seed)))
    out += _conc_tasks([("bufctx", [1, 2]), ("buffered", [1, 2]), ("writers", [0, 1]), ("rebind", [0, 1, 2, 3])],
                       (10, 1, 120, 4), (60, 2, 1500, 30))(tier, seed)
    # mirror-image writes with synced operands: a deadlock needs two preemptions (after the
    # validation of the operand, before the second lock), the programs have two operations
    out += _conc_tasks([("cross", [0, 1, 2, 3])], (6, 2, 400, 0), (30, 3, 3000, 10))(tier, seed)
    return out


def _c16_tasks(tier, seed):
    out = []
    n = 3 if tier == "quick" else 40
    for fam in range(N_FAM):
        for i in range(n):
            out.append(("unit_c16", (fam, seed * 1009 + i, False)))
            if fam in BUF_FAMS:
                out.append(("unit_c16", (fam, seed * 1009 + i, True)))
    return out


def _c18_tasks(tier, seed):
    out = []
    n = 2 if tier == "quick" else 25
    for fam in range(N_FAM):
        for i in range(n):
            out.append(("unit_c18_family", (fam, seed * 1013 + i)))
            out.append(("unit_c18_attr", (fam, seed * 1013 + i)))
        out.append(("unit_c18_routes", (fam, seed)))
    return out


def _c19_tasks(tier, seed):
    out = []
    n_units, n_hist = (6, 5) if tier == "quick" else (40, 12)
    for i in range(n_units):
        out.append(("unit_c19", (seed * 1019 + i, i % 2 == 0, n_hist)))
        out.append(("unit_c19_model", (seed * 1019 + i, i % 2 == 0)))
    return out


SPECIAL["c19"] = _c19_tasks
PROPS["C19"] = dict(
    suites=[dict(unit="c19", special="c19")],
    rule="a pool of 28 values of diverse types (built-ins, str/dict/list/tuple subclasses, UserDict/UserList/OrderedDict, user-defined Mapping and Sequence classes, "
         "classes that are both or neither, namedtuple, range, bytes, values with a dotted key / a non-JSON leaf at depth) - plus 8 numpy values (0-d/1-d/2-d ndarray, 0-d/1-d "
         "instances of an ndarray SUBCLASS, scalars) when the numpy stand-in is installed - is fed in seeded random orders (histories of 1-6 values) through all four "
         "validators and six collection entry points of a fresh interpreter; then 12 probes per pool value (validators, is_base_type, setitem/append/update/reset with the "
         "stored form and the child class) are executed in shuffled order and compared with a fresh interpreter without history; model correspondence: a fresh copy of each "
         "of the 7 module-level resolvers is run over a 14-value history and its answers compared with SC/Resolver.lean runHistory",
    assumptions=["isinstance(obj, ABC) depends only on type(obj) and the ABC registrations in force (registering a class with an ABC after a resolver has seen it is outside the claim)",
                 "numpy is absent in this sandbox: the numpy-dependent predicates are exercised with a stand-in module (ndarray with ndim/tolist/item, a subclass, number, bool_, iscomplexobj)",
                 "the AST classification of resolver predicates by harness/extract.py (isinstance-only vs numpy helpers) is trusted"])
SPECIAL["c18"] = _c18_tasks
PROPS["C18"] = dict(
    suites=[("unit_seq_corr", ["single", "ext"], 30, 500, 28), dict(unit="c18", special="c18")],
    rule="family closure: on all 9 families, after every kind of entry point - including assigning synced dicts/lists/children of ANOTHER family - and after reloads that change "
         "container kinds, every container below the root must be an instance of the root family's dict/list class and a mutation at the deepest node must reach the backend; "
         "attribute routing on the six attribute-access dict classes at depth 0-2: keys drawn from every protected name, public method names, dunders, non-identifiers and "
         "ordinary keys x {get,set,del} x {attribute, item} syntax against a twin driven through item syntax; route correspondence of every key x {get,set,del} with SC/Attr.lean",
    assumptions=SEQ_ASSUME + ["Python's attribute lookup order (instance dict / class attributes before __getattr__) is modelled, not verified"])
SPECIAL["c16"] = _c16_tasks
PROPS["C16"] = dict(
    suites=[("unit_seq_corr", ["single", "multi"], 40, 600, 28), dict(unit="c16", special="c16")],
    rule="identity audit on the real classes: for every entry point (constructor data, __setitem__ incl. slices, setdefault, update in its three call forms, "
         "reset, append, extend, insert, +=) x target {root, nested child} x all 9 families (buffered families also inside buffer_backend()): after the call no "
         "container reachable from the argument is (by id()) one the collection holds internally, no plain container is stored inside, mutating every container "
         "of the argument afterwards changes neither the collection nor the backend; (), values(), items() return exact built-in types all the way down, disjoint "
         "from the internals, and mutating them changes nothing; values removed by pop/popitem/del and synced nodes assigned into other positions/collections are "
         "independent.  Correspondence: handle identities of returned children (numbered by first appearance) agree between model and code.",
    assumptions=SEQ_ASSUME + ["identity is a modelled notion: node ids in the model, id() of the built-in containers in the implementation"])
SPECIAL["c09"] = _conc_tasks([("writers", [0, 3, 1, 2])], (14, 1, 160, 6), (80, 2, 2500, 40))
SPECIAL["c13"] = _conc_tasks([("buffered", [1, 2, 4, 5])], (24, 1, 160, 6), (70, 2, 2500, 40))
_c14_a = _conc_tasks([("readers", [0, 3, 1, 2])], (14, 1, 160, 6), (80, 2, 2500, 40))
_c14_b = _conc_tasks([("bufreaders", [1, 2, 4, 5])], (64, 1, 200, 6), (120, 2, 2500, 40))
SPECIAL["c14"] = lambda tier, seed: _c14_a(tier, seed) + _c14_b(tier, seed)
SPECIAL["c10"] = _c10_tasks
CONC_RULE = ("generated programs of 2-3 threads x 1-2 operations (every public mutator incl. clear/reset/pop/reverse, on the root, on a second "
             "object bound to the same file and on child handles navigated before the threads start); for each program all serial orders are "
             "executed on the real code to obtain the admissible (results, final content) outcomes; then every schedule with at most `bound` "
             "forced preemptions at event level is executed on the real code under the deterministic scheduler, plus seeded random line-level "
             "schedules; an outcome outside the serial set, a deadlock, a leaked lock or a dying thread is a violation; distinct = distinct programs")
PROPS["C09"] = dict(suites=[dict(unit="conc", special="c09")], rule=CONC_RULE, assumptions=CONC_ASSUME)
PROPS["C13"] = dict(suites=[dict(unit="conc", special="c13")], rule=CONC_RULE + "; the threads run inside Class.buffer_backend(cap) with cap in {default, 0, 1, 2, 30, 60} over 1-2 files; after the context exits the reported size must be 0", assumptions=CONC_ASSUME)
PROPS["C14"] = dict(suites=[dict(unit="conc", special="c14")], rule=CONC_RULE + "; at least one thread only reads (getitem/get/len/iter/()/==/in/count, navigation); a read must return a value it returns in some serial order, the final content must be a serial outcome of the writers", assumptions=CONC_ASSUME)
PROPS["C10"] = dict(suites=[dict(unit="conc", special="c10")],
                    rule="fault injection: every mutator and read x {unparsable file, wrong container kind, rejected value, missing key/index, OSError in the save, serialisation error} x {root, nested child} x {unbuffered, inside buffer_backend(), capacity 0} on all six JSON families with instrumented locks: afterwards no lock may be owned and a second object must complete a write; filename rebinding scenario; deadlock / leaked-lock detection by the scheduler on buffered programs incl. contexts entered and left by a concurrent thread",
                    assumptions=CONC_ASSUME)

PROPS["C08"] = dict(
    suites=[dict(unit="c08", special="c08")],
    rule="15 save scenarios (plain save with threading on/off and write_concern, dict/list/attr, two consecutive saves, "
         "multi-file flushes of both buffer strategies at backend-wide exit, per-object exit and capacity-forced): (i) the traced "
         "sequence of mutating file operations (process-wide hooks on open/io.open/os.open/os.write/os.replace/os.rename/...) must "
         "equal the model's saveSteps for the same targets and lengths, serialisation first, temp file in the target's directory and "
         "never reused; (ii) the process is killed at every mutating file operation and, inside each write, after 0, 1, half and "
         "len-1 bytes; after each kill every file must be wholly old or wholly new, a fresh object must open it, and a complete "
         "later save (shorter / longer document) must install exactly its content; (iii) unserialisable content in all three write modes",
    assumptions=[
        "os.replace is atomic (POSIX rename within one directory); a process crash loses no bytes already handed to the OS (the code does not fsync: OS/power failure is outside the claim)",
        "uuid4 temporary names do not collide with a collection file or with each other",
        "a crash inside Python's write() leaves a prefix of the bytes (any prefix is tried via an explicit flush of that prefix)",
        "the theorems are about the operation sequences of SC/FS.lean; the real code is tied to them by trace equality on every run"])


def aggregate(prop, results):
    agg = dict(programs=0, corr_programs=0, steps=0, diffs=[], violations=[], crashes=[], samples=[],
               distribution={}, distinct=0)
    hist = collections.Counter()
    stats = collections.Counter()
    shapes = set()
    per_fam = collections.Counter()
    errs = 0
    for r in results:
        if r is None:
            continue
        if r.get("crash"):
            agg["crashes"].append(r["crash"])
            continue
        agg["programs"] += 1
        agg["steps"] += r.get("steps", 0)
        per_fam[r.get("fam")] += 1
        if r["kind"] == "corr":
            agg["corr_programs"] += 1
            hist.update(r.get("hist", {}))
            errs += r.get("errors", 0)
            shapes.add(json.dumps(sorted(r.get("hist", {}).items())) + str(r.get("steps")))
            if r.get("diff"):
                d = r["diff"]
                agg["diffs"].append(dict(suite=r.get("suite", "unit_seq_corr") + "/" + r["profile"], fam=r["fam"], seed=r["seed"],
                                         line=d["line"], real=d["real"], model=d["model"], ops=d["ops"]))
            if r.get("sample") and len(agg["samples"]) < 6:
                agg["samples"].append(dict(kind="correspondence", family=r["fam"], profile=r["profile"],
                                           first_lines=r["sample"]))
        elif r["kind"] == "oracle":
            stats.update(r.get("stats", {}))
            if r.get("tie_problem"):
                agg["diffs"].append(dict(suite="bracket", fam=r.get("fam"), seed=r.get("seed"), line=r.get("profile"),
                                         real=r["tie_problem"], model="SC/Conc.lean Bracket.trace", ops=None))
            shapes.add("o%d/%d/%s/%s" % (r["fam"], r["seed"], r["profile"], sorted(r.get("stats", {}).items())))
            for v in r.get("violations", []):
                if prop in v["props"]:
                    v = dict(v)
                    v.setdefault("kind", "shadow")
                    agg["violations"].append(v)
    agg["distinct"] = len(shapes)
    agg["distribution"] = dict(op_histogram=dict(hist), error_results=errs, oracle_stats=dict(stats),
                               programs_per_family=dict(per_fam))
    if not agg["samples"]:
        agg["samples"].append(dict(kind="none", note="no sample recorded"))
    return agg


def signature(prop, v):
    """failure signature used to match known findings: property, operation, failure kind"""
    if v.get("sig"):
        return v["sig"]
    msg = v.get("msg", "")
    m = re.match(r"(?:after |operation |read |rejected )?(\w+)", msg)
    return "%s:%s:%s" % (prop, v.get("kind", "shadow"), m.group(1) if m else "?")


def oracle_replay(prop, d):
    """run the operation list on which model and code disagree under the direct oracles of the
    property; returns violations (with the list as replay input) that concern `prop`"""
    import env
    import suites
    ns = env.load()
    fam = ns.families[d["fam"]]
    ops = [tuple(o) for o in d["ops"]]
    out = []
    if d["suite"].startswith("unit_seq_corr"):
        sh, _ = suites.run_shadow(ns, fam, ops, plain=d["suite"].endswith("plainfile"))
        for props, msg in sh.violations[:1]:
            if prop in props:
                out.append(dict(props=list(props), msg=msg, ops=ops, fam=fam.short, kind="shadow",
                                extra=dict(plain=d["suite"].endswith("plainfile"), from_disagreement=True)))
    elif d["suite"].startswith("unit_buf_corr"):
        import boracles
        try:
            viol, _, _ = boracles.run_twin(ns, fam, ops, 0, "jointcaps")
            for props, msg in viol[:1]:
                if prop in props:
                    out.append(dict(props=list(props), msg=msg, ops=ops, fam=fam.short, kind="twin",
                                    extra=dict(profile="jointcaps", seed=0, from_disagreement=True)))
        except boracles.InvalidProgram:
            pass
        except Exception:  # noqa: BLE001
            pass
        if not out:
            try:
                viol, _, _ = boracles.run_conflict(ns, fam, ops, 0)
                for props, msg in viol[:1]:
                    if prop in props:
                        out.append(dict(props=list(props), msg=msg, ops=ops, fam=fam.short, kind="conflict",
                                        extra=dict(seed=0, from_disagreement=True)))
            except Exception:  # noqa: BLE001
                pass
    return out


def broken_theorems(log):
    """names of the theorems in which `lake build` reported errors"""
    verif = os.path.dirname(os.path.dirname(os.path.abspath(__file__)))
    out = []
    for path, line in sorted(set(re.findall(r"error: (SC/[\w/]+\.lean):(\d+):\d+", log))):
        try:
            src = open(os.path.join(verif, "lean", path)).read().split("\n")
        except OSError:
            continue
        name = None
        for i in range(int(line) - 1, -1, -1):
            m = re.match(r"\s*(?:private\s+)?(?:theorem|def|example|instance)\s+([\w.']+)", src[i] if i < len(src) else "")
            if m:
                name = m.group(1)
                break
        out.append("%s:%s (%s)" % (path, line, name))
    return out


def replay(prop, path):
    """re-execute a replay file on the implementation under the property's oracle"""
    import env
    import suites
    from fakes import MISSING  # noqa: F401
    from proto import Other  # noqa: F401
    payload = json.load(open(path))
    if payload.get("kind") == "broken-tie":
        print("replay: no concrete input; the following no longer check:")
        for p in payload["problems"]:
            print("  [%s] %s" % (p["kind"], p["what"][:600]))
        return 1
    ns = env.load()
    fams = [f for f in ns.families if f.short == payload.get("family")]
    fam = fams[0] if fams else ns.families[0]
    from proto import Synced
    ops = eval(payload["ops"], {"Other": Other, "MISSING": MISSING, "slice": slice, "Synced": Synced}) if payload.get("ops") else None
    if payload.get("kind") == "shadow":
        sh, _ = suites.run_shadow(ns, fam, ops, plain=bool((payload.get("extra") or {}).get("plain")))
        bad = [v for v in sh.violations if prop in v[0]]
        for v in bad:
            print("VIOLATION property=%s replay=%s" % (prop, path))
            print("  " + v[1][:600])
        if not bad:
            print("replay: no violation of %s on the current tree" % prop)
        return 1 if bad else 0
    if payload.get("kind") == "twin":
        import boracles
        ex = payload.get("extra") or {}
        viol, _, _ = boracles.run_twin(ns, fam, ops, ex.get("seed", 0), ex.get("profile", "basic"))
        bad = [v for v in viol if prop in v[0]]
        for v in bad:
            print("VIOLATION property=%s replay=%s" % (prop, path))
            print("  " + v[1][:600])
        if not bad:
            print("replay: no violation of %s on the current tree" % prop)
        return 1 if bad else 0
    if payload.get("kind") == "iofault":
        import boracles
        ex = payload["extra"]
        r = boracles.unit_buf_io_faults((ex["fam_index"], ex["is_dict"], ex["mode"], 0))
        for v in r.get("violations", []):
            print("VIOLATION property=%s replay=%s" % (prop, path))
            print("  " + v["msg"][:600])
        return 1 if r.get("violations") else 0
    if payload.get("kind") == "c06h":
        import boracles
        ex = payload["extra"]
        fam = ns.families[ex["fam_index"]]
        v = boracles.run_c06_handle(ns, fam, tuple(ex["case"]))
        for m, _k in v:
            print("VIOLATION property=%s replay=%s" % (prop, path))
            print("  " + m[:600])
        if not v:
            print("replay: no violation of %s on the current tree" % prop)
        return 1 if v else 0
    if payload.get("kind") == "conflict":
        import boracles
        viol, _, _ = boracles.run_conflict(ns, fam, ops, (payload.get("extra") or {}).get("seed", 0))
        bad = [v for v in viol if prop in v[0]]
        for v in bad:
            print("VIOLATION property=%s replay=%s" % (prop, path))
            print("  " + v[1][:600])
        if not bad:
            print("replay: no violation of %s on the current tree" % prop)
        return 1 if bad else 0
    if payload.get("kind") == "c07":
        import boracles
        ex = payload["extra"]
        viol = boracles.run_c07(ns, fam, ex["is_dict"], ex["ctx_kind"], [tuple(a) for a in ex["assignment"]],
                                tuple(ex["order"]), None)
        bad = [v for v in viol if prop in v[0]]
        for v in bad:
            print("VIOLATION property=%s replay=%s" % (prop, path))
            print("  " + v[1][:600])
        if not bad:
            print("replay: no violation of %s on the current tree" % prop)
        return 1 if bad else 0
    if payload.get("kind") == "c08":
        import c08
        import crash as crash_mod
        ex = payload["extra"]
        sc = crash_mod.scenarios(ns)[ex["scenario"]]
        import tempfile, shutil
        d0 = tempfile.mkdtemp(prefix="scverif_c08_")
        try:
            t0 = crash_mod.trace_scenario(ns, ex["scenario"], sc, d0)
            v = c08.run_crash_case(ns, ex["scenario"], sc, ex["event"], ex["prefix"], t0, ex["followup"], ex.get("eager", True))
        finally:
            shutil.rmtree(d0, ignore_errors=True)
        for m in v:
            print("VIOLATION property=%s replay=%s" % (prop, path))
            print("  " + m[:600])
        if not v:
            print("replay: no violation of %s on the current tree" % prop)
        return 1 if v else 0
    if payload.get("kind") == "c08u":
        import c08
        r = c08.unit_c08_unserialisable((payload["extra"]["mode"], 0))
        for v in r.get("violations", []):
            print("VIOLATION property=%s replay=%s" % (prop, path))
            print("  " + v["msg"][:600])
        return 1 if r.get("violations") else 0
    if payload.get("kind") in ("conc", "conc-line"):
        import conc
        import sched as S
        import random as _r
        from conc import Program  # noqa: F401
        ex = payload["extra"]
        fam = ns.families[ex["fam_index"]]
        prog = eval(ex["prog"], {"Program": conc.Program, "MISSING": MISSING})
        prog.strategy = fam.buffered
        prog._ctx = (ns, fam)
        serial = [conc.run_serial(ns, fam, prog, o) for o in conc.serial_orders(prog)]
        if payload["kind"] == "conc":
            run = conc.replay_conc(ns, fam, prog, [tuple(x) for x in ex["switches"]], ex["start"])
        else:
            r2 = _r.Random(ex["seed"] * 977 + ex["rand_index"])
            run = conc.run_scheduled(ns, fam, prog, S.RandomSwitch(r2, ex["npts"], r2.choice([1, 1, 2, 3])), line_level=True)
        bad = [(pr, k, m) for pr, k, m in conc.judge(prog, serial, run, "") if prop in pr]
        for pr, k, m in bad:
            print("VIOLATION property=%s replay=%s" % (prop, path))
            print("  " + m[:600])
        if not bad:
            print("replay: no violation of %s on the current tree" % prop)
        return 1 if bad else 0
    if payload.get("kind") == "c19":
        import c19
        ex = payload["extra"]
        base = c19.run_child(dict(numpy=ex["numpy"], repo=env.REPO, history=[], probes=ex["probes"] and sorted(ex["probes"])))
        got = c19.run_child(dict(numpy=ex["numpy"], repo=env.REPO, history=ex["history"], probes=ex["probes"], order_seed=ex.get("order_seed")))
        a, b = base.get(ex["value"], {}).get(ex["probe"]), got.get(ex["value"], {}).get(ex["probe"])
        if ex.get("analog"):
            # a class created on the fly against the equivalent long-lived class, in the SAME run
            a, b = c19._strip(got.get(ex["analog"], {}).get(ex["probe"])), c19._strip(b)
        if a != b:
            print("VIOLATION property=%s replay=%s" % (prop, path))
            print("  %s on %s: fresh %r, after %s: %r" % (ex["probe"], ex["value"], a, ex["history"], b))
            return 1
        print("replay: no violation of %s on the current tree" % prop)
        return 0
    if payload.get("kind") == "c18":
        import c18
        ex = payload["extra"]
        fn = c18.unit_c18_family if ex.get("unit") == "family" else c18.unit_c18_attr
        r = fn((ex["fam_index"], ex["seed"]))
        bad = r.get("violations", [])
        for v in bad:
            print("VIOLATION property=%s replay=%s" % (prop, path))
            print("  " + v["msg"][:600])
        return 1 if bad else 0
    if payload.get("kind") == "c16":
        import c16
        ex = payload["extra"]
        r = c16.unit_c16((ex["fam_index"], ex["seed"], ex["buffered"]))
        for v in r.get("violations", []):
            print("VIOLATION property=%s replay=%s" % (prop, path))
            print("  " + v["msg"][:600])
        return 1 if r.get("violations") else 0
    if payload.get("kind") == "c10":
        import c10
        ex = payload["extra"]
        r = c10.unit_c10_faults((ex["fam_index"], ex["is_dict"], ex["nested"], ex["buffered"], 0))
        for v in r.get("violations", []):
            print("VIOLATION property=%s replay=%s" % (prop, path))
            print("  " + v["msg"][:600])
        return 1 if r.get("violations") else 0
    if payload.get("kind") == "c10f":
        import c10
        r = c10.unit_c10_filename((payload["extra"]["fam_index"], 0))
        for v in r.get("violations", []):
            print("VIOLATION property=%s replay=%s" % (prop, path))
            print("  " + v["msg"][:600])
        return 1 if r.get("violations") else 0
    handler = REPLAYERS.get(payload.get("kind"))
    if handler:
        return handler(prop, path, payload, ns)
    print("replay: unknown replay kind", payload.get("kind"))
    return 2


REPLAYERS = {}


def _replay_c17l(prop, path, payload, ns):
    import c17
    return c17.replay(prop, path, payload, ns)


REPLAYERS["c17l"] = _replay_c17l


def _replay_weakhash(prop, path, payload, ns):
    import weakhash
    return weakhash.replay(prop, path, payload, ns)


REPLAYERS["weakhash"] = _replay_weakhash
