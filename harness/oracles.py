"""Direct property oracles on the implementation (no Lean model involved).

`Shadow` keeps, per resource, one plain built-in structure and replays every
operation on it with real `dict`/`list` semantics at the position the handle
is attached to.  It decides C01 (backend == logical content), C02 (reads reflect
the backend, handles stay attached), C03 (same results / errors as built-ins),
C04 (no clobbering through stale handles), C11 (forbidden data rejected, nothing
changes) and C12 (strict-type round trip) on concrete runs.
"""
import copy

from fakes import MISSING
from proto import CMP, Other


def to_plain(ns, v):
    """result / argument -> plain built-in data (tuples and bytes become lists)"""
    if isinstance(v, ns.SyncedCollection):
        return v._to_base()
    if type(v).__name__ == "Synced" and hasattr(v, "plain"):
        import copy
        return copy.deepcopy(v.plain)      # a live synced argument counts as its content
    if isinstance(v, (list, tuple)):
        return [to_plain(ns, x) for x in v]
    if isinstance(v, (bytes, bytearray)):
        return list(v)
    if isinstance(v, dict):
        return {k: to_plain(ns, x) for k, x in v.items()}
    return v


def strict_eq(a, b):
    """equality with identical JSON type at every leaf; dicts unordered"""
    if type(a) is not type(b):
        return False
    if isinstance(a, dict):
        return a.keys() == b.keys() and all(strict_eq(a[k], b[k]) for k in a)
    if isinstance(a, list):
        return len(a) == len(b) and all(strict_eq(x, y) for x, y in zip(a, b))
    if isinstance(a, float):
        return a == b
    return a == b


def unordered_eq(a, b):
    """same multiset of elements, elements compared with strict_eq (dict key order ignored)"""
    if len(a) != len(b):
        return False
    rest = list(b)
    for x in a:
        for j, y in enumerate(rest):
            if strict_eq(x, y):
                del rest[j]
                break
        else:
            return False
    return True


def find_forbidden(v, nodot, path=()):
    """first forbidden item in plain data: non-string key, non-JSON leaf, dotted key"""
    if isinstance(v, dict):
        for k, x in v.items():
            if not isinstance(k, str):
                return ("nonstr-key", path + (k,))
            if nodot and "." in k:
                return ("dotted-key", path + (k,))
            r = find_forbidden(x, nodot, path + (k,))
            if r:
                return r
        return None
    if isinstance(v, (list, tuple)):
        for i, x in enumerate(v):
            r = find_forbidden(x, nodot, path + (i,))
            if r:
                return r
        return None
    if v is None or isinstance(v, (bool, int, float, str)):
        return None
    return ("non-json-leaf", path)


def is_clean(v, nodot):
    return find_forbidden(v, nodot) is None


def fam_forbidden(fam, v):
    """what the family forbids: Zarr only restricts keys (leaves depend on the codec)"""
    r = find_forbidden(v, fam.attr)
    if r and fam.store == "zarr" and r[0] == "non-json-leaf":
        return None
    return r


MUTATORS = {"dsetitem", "ddelitem", "dpop", "dpopitem", "dclear", "dupdate", "dsetdefault", "dreset",
            "lsetitem", "ldelitem", "linsert", "lappend", "lextend", "liadd", "lremove", "lclear", "lpop",
            "lreverse", "lreset"}
# outputs whose order is unspecified for dicts (documented deviation)
UNORDERED = {"diter", "dkeys", "dvalues", "ditems", "drepr", "dcall"}
SINGLE_ELEMENT = {"dsetitem", "dsetdefault", "lsetitem", "linsert", "lappend"}


def builtin_apply(c, name, args):
    """The operation on a built-in dict / list `c` (in place); returns the result."""
    if name == "dsetitem":
        c[args[0]] = args[1]
        return None
    if name == "ddelitem":
        del c[args[0]]
        return None
    if name == "dpop":
        return c.pop(args[0], args[1])       # documented deviation: default is returned
    if name in ("dclear", "lclear"):
        c.clear()
        return None
    if name == "dupdate":
        other, kw = args
        if other is None:
            c.update(**kw)
        else:
            c.update(other, **kw)
        return None
    if name == "dsetdefault":
        return c.setdefault(args[0], args[1])
    if name == "dreset":
        if not isinstance(args[0], dict):
            raise ValueError
        c.clear()
        c.update(args[0])
        return None
    if name == "lreset":
        if not isinstance(args[0], list):
            raise ValueError
        c[:] = args[0]
        return None
    if name == "dgetitem":
        return c[args[0]]
    if name == "dcontains":
        return args[0] in c
    if name in ("dlen", "llen"):
        return len(c)
    if name in ("diter", "dkeys"):
        return list(c)
    if name in ("dcall", "lcall", "drepr", "lrepr"):
        return copy.deepcopy(c)
    if name == "dvalues":
        return list(c.values())
    if name == "ditems":
        return [[k, v] for k, v in c.items()]
    if name in ("deq", "leq"):
        return c == args[0]
    if name in ("dne", "lne"):
        return c != args[0]
    if name == "dget":
        return c.get(args[0], args[1])
    if name == "lsetitem":
        c[args[0]] = args[1]
        return None
    if name == "ldelitem":
        del c[args[0]]
        return None
    if name == "linsert":
        c.insert(args[0], args[1])
        return None
    if name == "lappend":
        c.append(args[0])
        return None
    if name in ("lextend", "liadd"):
        c.extend(args[0])
        return None
    if name == "lremove":
        c.remove(args[0])
        return None
    if name == "lpop":
        return c.pop(args[0])
    if name == "lreverse":
        c.reverse()
        return None
    if name == "lgetitem":
        return c[args[0]]
    if name == "lcontains":
        return args[0] in c
    if name == "liter":
        return list(c)
    if name == "lreversed":
        return list(reversed(c))
    if name == "lindex":
        if args[2] is None:
            return c.index(args[0], args[1])
        return c.index(args[0], args[1], args[2])
    if name == "lcount":
        return c.count(args[0])
    if name == "lcmp":
        return CMP[args[0]](c, args[1])
    raise ValueError(name)


def err_class(e):
    """the built-in class an exception belongs to, for comparison with built-ins"""
    for cls in (KeyError, IndexError, AttributeError, ValueError, TypeError):
        if isinstance(e, cls):
            return cls.__name__
    return type(e).__name__


def _attr_call(obj, name, args):
    """was this call issued in attribute syntax (proto.apply_call's deterministic choice)?"""
    import proto
    try:
        return name in ("dgetitem", "dsetitem", "ddelitem") and proto._attr_form(obj, args[0]) and proto._form(list(args), 3) == 0
    except Exception:  # noqa: BLE001
        return False


class Shadow:
    """Replays a structured program on the real classes and on plain shadows."""

    def __init__(self, ns, world, fam):
        import proto as _proto
        _proto.RUNNER[0] = self          # resolves live synced arguments (proto.Synced)
        self.ns = ns
        self.world = world
        self.fam = fam
        self.objs = []        # (obj, res)
        self.handles = []
        self.hid = {}
        self.shadow = {}      # res -> plain data | MISSING
        self.virtual = {}     # res -> constructor data of an object whose resource is missing
        self.unjudged = set() # resources removed from outside and not re-established yet
        self.badroot = set()  # resources whose document has the wrong container kind at the root
        self.violations = []  # (property, message)
        self.stats = {"ops": 0, "mutators": 0, "deep": 0, "errors": 0, "detached": 0, "rejected": 0}

    # ---- helpers
    def root_objs(self):
        return [o for o, _ in self.objs]

    def target(self, h):
        return self.objs[int(h[1:])][0] if h[0] == "o" else self.handles[int(h[1:])]

    def _register(self, v):
        if isinstance(v, self.ns.SyncedCollection) and id(v) not in self.hid:
            if not any(v is o for o, _ in self.objs):
                self.hid[id(v)] = len(self.handles)
                self.handles.append(v)

    def root_of(self, obj):
        r = obj._root if obj._root is not None else obj
        for i, (o, res) in enumerate(self.objs):
            if o is r:
                return i, res
        return None, None

    def locate(self, obj):
        """path of `obj` in its root's in-memory tree (identity walk), or None"""
        from gen import attached_path
        return attached_path(self.ns, obj)

    def shadow_at(self, res, mem_root, path):
        """the shadow container the handle is attached to after a reload, or None when
        the reload detaches it (some container on the path changes kind / disappears)"""
        cur = self.shadow.get(res, MISSING)
        if cur is MISSING:
            cur = self.virtual.get(res, MISSING)
            if cur is MISSING:
                return None
        mem = mem_root
        for k in path:
            if type(cur) is not type(mem):
                return None
            try:
                cur = cur[k]
                mem = mem[k]
            except (KeyError, IndexError, TypeError):
                return None
        if type(cur) is not type(mem) or not isinstance(cur, (dict, list)):
            return None
        return cur

    def v(self, props, msg):
        if isinstance(props, str):
            props = (props,)
        self.violations.append((tuple(props), msg))

    # ---- steps
    def exec(self, op):
        kind = op[0]
        ns = self.ns
        if kind == "open":
            _, is_dict, res, data = op[:4]
            try:
                o = self.world.open(is_dict, res, data)
            except Exception as e:  # noqa: BLE001
                if data is not MISSING and fam_forbidden(self.fam, to_plain(ns, data)):
                    if not isinstance(e, (TypeError, ValueError)):
                        self.v("C11", "constructor rejected invalid data with %s" % type(e).__name__)
                    return
                self.v("C12", "constructor raised %s for valid data %r" % (type(e).__name__, data))
                return
            if data is not MISSING and fam_forbidden(self.fam, to_plain(ns, data)):
                self.v("C11", "constructor accepted forbidden data %r" % (data,))
            self.objs.append((o, res))
            self.shadow.setdefault(res, self.world.read(res))
            if data is not MISSING and self.shadow[res] is MISSING:
                self.virtual[res] = copy.deepcopy(to_plain(ns, data))
            return
        if kind == "ext":
            self.world.write(op[1], op[2])
            self.shadow[op[1]] = copy.deepcopy(op[2])
            self.virtual.pop(op[1], None)
            self.unjudged.discard(op[1])
            # a document whose ROOT is of the other container kind cannot be merged: every loading
            # operation through the objects of this resource raises until a mergeable document is
            # back (outside write, or a root-level clear()/reset(), which do not load).  Results are
            # not judged meanwhile (reads must still not write); afterwards everything is judged again.
            kinds = {isinstance(o, self.ns.SyncedDict) for o, r in self.objs if r == op[1]}
            if kinds and isinstance(op[2], dict) not in kinds:
                self.badroot.add(op[1])
            else:
                self.badroot.discard(op[1])
            return
        if kind == "extdel":
            # An outside writer removes the resource.  The library treats a missing resource as "no
            # data": every object keeps the memory it has, and the next mutator re-creates the
            # resource from the memory of the object it goes through.  The properties do not say
            # which object's view that should be, so the oracle does not judge this resource until
            # its content is re-established (by the library or by an outside write); the C17 check
            # (reads never write) and the model correspondence keep applying.
            self.world.delete(op[1])
            self.shadow[op[1]] = MISSING
            self.unjudged.add(op[1])
            self.badroot.discard(op[1])
            self.virtual.pop(op[1], None)
            return
        assert kind == "call"
        _, h, name, *args = op
        obj = self.target(h)
        ri, res = self.root_of(obj)
        root = self.objs[ri][0]
        is_mut = name in MUTATORS
        self.stats["ops"] += 1
        if is_mut:
            self.stats["mutators"] += 1
        if res in self.badroot:
            before_file = self.world.read(res)
            try:
                from proto import apply_call
                real = apply_call(obj, name, args)
            except Exception:  # noqa: BLE001
                real = None
            if isinstance(real, (list, tuple)):
                for x in real:
                    self._register(x)
            self._register(real)
            after_file = self.world.read(res)
            if not is_mut and not strict_eq(before_file, after_file):
                self.v("C17", "read %s changed the backend" % name)
            if after_file is not MISSING and isinstance(after_file, dict) == isinstance(root, self.ns.SyncedDict):
                self.shadow[res] = copy.deepcopy(after_file)
                self.badroot.discard(res)
            return
        if res in self.unjudged:
            before_file = self.world.read(res)
            try:
                from proto import apply_call
                real = apply_call(obj, name, args)
            except Exception:  # noqa: BLE001
                real = None
            if isinstance(real, (list, tuple)):
                for x in real:
                    self._register(x)
            self._register(real)
            after_file = self.world.read(res)
            if not is_mut and ((before_file is MISSING) != (after_file is MISSING) or
                               (before_file is not MISSING and not strict_eq(before_file, after_file))):
                self.v("C17", "read %s changed the backend" % name)
            if after_file is not MISSING:
                self.shadow[res] = copy.deepcopy(after_file)
                self.unjudged.discard(res)
            return
        path = self.locate(obj)
        mem_root = root._to_base()
        tgt = None if path is None else self.shadow_at(res, mem_root, path)
        root_overwrite = obj is root and name in ("dclear", "lclear", "dreset", "lreset")
        if root_overwrite and tgt is None:
            # the root replaces everything: it applies to an empty container if the resource is missing
            tgt = {} if isinstance(mem_root, dict) else []
            self.shadow[res] = tgt
        if tgt is None and obj is root:
            # missing resource: the object's own memory is the logical content
            tgt = copy.deepcopy(mem_root)
            if is_mut:
                self.shadow[res] = tgt
        if path is not None and len(path) >= 2:
            self.stats["deep"] += 1
        if res in self.virtual and self.shadow.get(res, MISSING) is MISSING and is_mut and obj is not root and tgt is not None:
            self.shadow[res] = self.virtual[res]
        plain_args = [to_plain(ns, a) if not isinstance(a, slice) else a for a in args]
        clean_args = all(isinstance(a, slice) or fam_forbidden(self.fam, a) is None for a in plain_args)
        if name == "dsetdefault":
            holder = tgt if tgt is not None else obj._to_base()
            try:
                if plain_args[0] in holder:     # the default is not used
                    clean_args = fam_forbidden(self.fam, plain_args[0]) is None
            except TypeError:
                pass
        if name == "dupdate":
            eff = {**(plain_args[0] or {}), **plain_args[1]}
            clean_args = fam_forbidden(self.fam, eff) is None
        before_file = self.world.read(res)
        # --- the real call
        try:
            from proto import apply_call, ProgramInvalid
            real = apply_call(obj, name, args)
            real_err = None
        except ProgramInvalid:
            raise
        except Exception as e:  # noqa: BLE001
            real, real_err = None, e
        after_file = self.world.read(res)
        if isinstance(real, (list, tuple)):
            for x in real:
                self._register(x)
        self._register(real)
        # --- forbidden data (C11)
        if is_mut and not clean_args:
            self.stats["rejected"] += 1
            if real_err is None:
                self.v("C11", "%s accepted forbidden data %r" % (name, plain_args))
            elif not isinstance(real_err, (TypeError, ValueError)):
                self.v("C11", "%s rejected forbidden data with %s" % (name, type(real_err).__name__))
            for where, data in (("backend", after_file), ("memory", root._to_base())):
                if data is not MISSING:
                    bad = fam_forbidden(self.fam, data)
                    if bad:
                        self.v("C11", "forbidden item %s reached %s via %s" % (bad, where, name))
            if name in SINGLE_ELEMENT and tgt is not None:
                if after_file is not MISSING and self.shadow.get(res, MISSING) is not MISSING and \
                        not strict_eq(after_file, self.shadow[res]):
                    self.v("C11", "rejected %s changed the backend" % name)
            # bulk operations may keep a valid prefix: resynchronise the shadow
            if after_file is not MISSING:
                self.shadow[res] = copy.deepcopy(after_file)
            return
        if tgt is None:
            # detached handle: nothing it does may reach the backend content
            self.stats["detached"] += 1
            sh = self.shadow.get(res, MISSING)
            if sh is not MISSING and after_file is not MISSING and not strict_eq(after_file, sh):
                self.v(("C04", "C01"), "operation %s through a detached handle changed the backend: %r != %r"
                       % (name, after_file, sh))
            return
        # --- the same operation on the shadow
        try:
            if name == "dpopitem":
                if real_err is None:
                    k, val = real
                    if k not in tgt:
                        self.v("C03", "popitem returned key %r not in the dict" % (k,))
                        exp = None
                    else:
                        exp = [k, tgt.pop(k)]
                        if not strict_eq(to_plain(ns, val), exp[1]):
                            self.v("C03", "popitem value %r != %r" % (to_plain(ns, val), exp[1]))
                    exp_err = None
                else:
                    exp = builtin_apply(tgt, "dpopitem_", [])  # never reached
            else:
                exp = builtin_apply(tgt, name, copy.deepcopy(plain_args))
            exp_err = None
        except Exception as e:  # noqa: BLE001
            exp, exp_err = None, e
        if name == "dpopitem" and real_err is not None:
            exp_err = KeyError() if not tgt else None
        # --- compare errors
        if (real_err is None) != (exp_err is None) or (real_err is not None and err_class(real_err) != err_class(exp_err)):
            if not clean_args and real_err is not None and isinstance(real_err, (TypeError, ValueError)):
                pass  # rejection of forbidden data in a read argument is fine
            else:
                tags = ("C03",)
                if is_mut and clean_args and real_err is not None and exp_err is None:
                    tags = ("C03", "C12")      # a valid value was rejected
                self.v(tags, "%s%r: real %s, built-in %s" % (
                    name, tuple(plain_args),
                    "ok" if real_err is None else type(real_err).__name__,
                    "ok" if exp_err is None else type(exp_err).__name__))
        if real_err is not None:
            self.stats["errors"] += 1
        # --- compare results
        if real_err is None and exp_err is None and name != "dpopitem":
            rp = to_plain(ns, real)
            if name in UNORDERED and isinstance(rp, list):
                same = unordered_eq(rp, exp)
            else:
                same = strict_eq(rp, exp) if not isinstance(exp, bool) else rp is exp
            if not same:
                multi = obj is not root or len(self.objs) > 1
                prop = (("C02", "C03") + (("C04",) if multi else ())) if not is_mut else ("C03",)
                if not is_mut and rp == exp:
                    prop = prop + ("C12",)
                if _attr_call(obj, name, args):
                    prop = prop + ("C18",)      # the call was made as `obj.key`: it must be `obj[key]`
                self.v(prop, "%s%r returned %r, expected %r" % (name, tuple(plain_args), rp, exp))
        # --- backend content
        sh = self.shadow.get(res, MISSING)
        if is_mut and real_err is None:
            if after_file is MISSING:
                self.v("C01", "%s returned but the resource does not exist" % name)
            elif sh is MISSING or not strict_eq(after_file, sh):
                prop = ("C01", "C03") + (("C04",) if (obj is not root or len(self.objs) > 1) else ())
                if _attr_call(obj, name, args):
                    prop = prop + ("C18",)
                if sh is not MISSING and (after_file == sh or name in ("dreset", "lreset")):
                    # (reset: the accepted value IS the whole content - it is not what is stored)
                    prop = prop + ("C12",)
                self.v(prop, "after %s%r backend holds %r, expected %r" % (name, tuple(plain_args), after_file, sh))
        elif is_mut and real_err is not None:
            if sh is not MISSING and after_file is not MISSING and not strict_eq(after_file, sh):
                self.v("C03", "%s raised %s but the backend changed: %r != %r"
                       % (name, type(real_err).__name__, after_file, sh))
        else:
            # reads never write
            if (before_file is MISSING) != (after_file is MISSING) or \
                    (before_file is not MISSING and not strict_eq(before_file, after_file)):
                self.v("C17", "read %s changed the backend" % name)

    def final_roundtrip(self):
        """C12: a fresh object bound to each resource reads back the shadow with strict types"""
        for res, sh in self.shadow.items():
            if sh is MISSING:
                continue
            fresh = self.world.open(isinstance(sh, dict), res)
            got = fresh()
            if not strict_eq(got, sh):
                self.v(("C12", "C01", "C02"), "fresh object on r%d reads %r, stored %r" % (res, got, sh))
