"""C16: values are copied in and out - identity audit and mutation test on the real classes."""
import copy
import random
import traceback

import drive
import env
from fakes import MISSING, World
from gen import ValueGen
from oracles import strict_eq

SENTINEL = "<<mutated-by-user>>"


def containers(v, acc=None):
    """all built-in containers reachable from plain data (by identity)"""
    acc = [] if acc is None else acc
    if isinstance(v, dict):
        acc.append(v)
        for x in v.values():
            containers(x, acc)
    elif isinstance(v, (list, tuple)):
        if isinstance(v, list):
            acc.append(v)
        for x in v:
            containers(x, acc)
    return acc


def internals(ns, obj, acc=None, problems=None):
    """ids of every container the collection holds internally; reports plain containers found
    inside (they would be shared with whoever else holds them)"""
    acc = [] if acc is None else acc
    data = obj._data
    acc.append(data)
    items = data.values() if isinstance(data, dict) else data
    for x in items:
        if isinstance(x, ns.SyncedCollection):
            internals(ns, x, acc, problems)
        elif isinstance(x, (dict, list, tuple)) and problems is not None:
            problems.append("a plain %s is stored inside the collection" % type(x).__name__)
    return acc


def mutate_all(conts):
    for c in conts:
        if isinstance(c, dict):
            c[SENTINEL] = SENTINEL
        else:
            c.append(SENTINEL)


def has_sentinel(v):
    if isinstance(v, dict):
        return SENTINEL in v or any(has_sentinel(x) for x in v.values())
    if isinstance(v, (list, tuple)):
        return SENTINEL in [x for x in v if isinstance(x, str)] or any(has_sentinel(x) for x in v)
    return False


def all_plain(v):
    """is `v` built-in data all the way down (exact types dict / list / scalars)?"""
    if type(v) is dict:
        return all(all_plain(x) for x in v.values())
    if type(v) in (list, tuple):
        return all(all_plain(x) for x in v)
    return v is None or type(v) in (bool, int, float, str)


ENTRY_D = ["ctor", "dsetitem", "dsetdefault", "dupdate_map", "dupdate_kw", "dupdate_pairs", "dreset"]
ENTRY_L = ["ctor", "lsetitem", "lsetslice", "lappend", "lextend", "linsert", "liadd", "lreset"]


def apply_entry(world, root, tgt, is_dict, entry, arg, res):
    """perform the entry point with `arg` (a container); returns the object that received it"""
    if entry == "ctor":
        return world.open(is_dict, res + 50, arg)
    if entry == "dsetitem":
        tgt["new"] = arg
    elif entry == "dsetdefault":
        tgt.setdefault("new2", arg)
    elif entry == "dupdate_map":
        tgt.update(arg if isinstance(arg, dict) else {"u": arg})
    elif entry == "dupdate_kw":
        tgt.update(**(arg if isinstance(arg, dict) else {"u": arg}))
    elif entry == "dupdate_pairs":
        tgt.update(list((arg if isinstance(arg, dict) else {"u": arg}).items()))
    elif entry == "dreset":
        tgt.reset(arg if isinstance(arg, dict) else {"u": arg})
    elif entry == "lsetitem":
        tgt[0] = arg
    elif entry == "lsetslice":
        tgt[0:1] = arg if isinstance(arg, list) else [arg]
    elif entry == "lappend":
        tgt.append(arg)
    elif entry == "lextend":
        tgt.extend(arg if isinstance(arg, list) else [arg])
    elif entry == "linsert":
        tgt.insert(1, arg)
    elif entry == "liadd":
        tgt += (arg if isinstance(arg, list) else [arg])
    elif entry == "lreset":
        tgt.reset(arg if isinstance(arg, list) else [arg])
    return root


def one_case(ns, fam, rng, entry, tgt_kind, buffered):
    """returns list of violation messages"""
    viol = []
    vg = ValueGen(rng, allow_dot_keys=not fam.attr)
    drive.reset_class_state(ns)
    with drive.Scratch() as tmp:
        world = World(ns, fam, tmp)
        is_dict_tgt = entry in ENTRY_D and entry != "ctor" or (entry == "ctor" and tgt_kind == "dict")
        if entry == "ctor":
            root_is_dict = tgt_kind == "dict"
            init = None
        else:
            root_is_dict = True if tgt_kind != "root" else is_dict_tgt
            if tgt_kind == "root":
                init = {"a": 1, "c": {"z": [1]}} if is_dict_tgt else [1, [2], {"k": 1}]
            else:
                init = {"t": ({"a": 1, "s": [1, 2]} if is_dict_tgt else [1, [2, 3], {"k": [4]}]), "other": [1]}
        if init is not None:
            world.write(0, init)
        root = world.open(root_is_dict, 0) if entry != "ctor" else None
        ctx = None
        cls = fam.dict_cls if root_is_dict else fam.list_cls
        if buffered and fam.buffered:
            ctx = cls.buffer_backend()
            ctx.__enter__()
        tgt = root if tgt_kind in ("root", "dict", "list") and entry == "ctor" else (root if tgt_kind == "root" else root["t"])
        # the argument: a nested container, sometimes scalar-only lists (cheap to share by mistake)
        arg = vg.dict(3) if (entry in ("ctor", "dupdate_map", "dupdate_kw", "dupdate_pairs", "dreset") and (entry != "ctor" or tgt_kind == "dict")) \
            else (vg.list(3) if entry in ("ctor", "lsetslice", "lextend", "liadd", "lreset") else vg.container(rng.random() < 0.5, 3))
        if isinstance(arg, dict):
            arg["nums"] = [1, 2, 3]
            arg["deep"] = {"l": [[0]], "d": {"x": [True]}}
            # positions that hold a scalar-only list in memory receive, through the in-place merge,
            # a list with nested containers (and vice versa)
            arg["s"] = [1, {"k": [0]}, [2]]
            arg["c"] = {"z": [{"w": [1]}, 2]}
        else:
            arg.append([1, 2, 3])
            arg.append({"l": [[0]], "d": {"x": [True]}})
            arg.insert(1, [2, {"m": [1]}, [3]])
        if rng.random() < 0.35:
            # tuples (stored as lists) holding mutable containers, at every other nesting level
            from proto import _tuplify
            arg = _tuplify(arg, flip=False)
        snapshot = copy.deepcopy(arg)
        try:
            holder = apply_entry(world, root, tgt, root_is_dict if entry == "ctor" else is_dict_tgt, entry, arg, 0)
        except Exception as e:  # noqa: BLE001
            return ["%s raised %s for valid data" % (entry, type(e).__name__)]
        # ---- copy-in: identity audit
        problems = []
        ints = internals(ns, holder, None, problems)
        arg_ids = {id(c) for c in containers(arg)}
        shared = [c for c in ints if id(c) in arg_ids]
        if shared:
            viol.append("%s on %s (%s): %d container(s) of the argument are used as the collection's own storage" % (
                entry, tgt_kind, "buffered" if ctx else "unbuffered", len(shared)))
        for p in problems:
            viol.append("%s on %s: %s" % (entry, tgt_kind, p))
        before = copy.deepcopy(holder._to_base())
        # ---- mutate the original afterwards
        mutate_all(containers(arg))
        after_mem = holder()          # a read
        if has_sentinel(after_mem):
            viol.append("%s on %s (%s): mutating the original argument afterwards changed the collection" % (
                entry, tgt_kind, "buffered" if ctx else "unbuffered"))
        # ---- copy-out
        out = holder()
        vals = list(holder.values()) if isinstance(out, dict) else None
        its = list(holder.items()) if isinstance(out, dict) else None
        if not all_plain(out) or (vals is not None and not all(all_plain(v) for v in vals)) or \
                (its is not None and not all(all_plain(v) for _, v in its)):
            viol.append("%s: (), values() or items() returned something that is not plain built-in data all the way down" % entry)
        ints2 = {id(c) for c in internals(ns, holder)}
        outs = containers(out) + (containers(vals) if vals else []) + (containers([v for _, v in its]) if its else [])
        if any(id(c) in ints2 for c in outs):
            viol.append("%s: a container returned by (), values() or items() is the collection's own storage" % entry)
        mutate_all(outs)
        if has_sentinel(holder()):
            viol.append("%s: mutating the result of (), values() or items() changed the collection" % entry)
        if ctx is not None:
            cls._buffer_context.__exit__(None, None, None)
        # the backend never shows the user's later mutations
        res_id = 50 if entry == "ctor" else 0
        if entry != "ctor":
            disk = world.read(res_id)
            if disk is not MISSING and has_sentinel(disk):
                viol.append("%s on %s (%s): the user's later mutation of the argument / a result reached the backend" % (
                    entry, tgt_kind, "buffered" if buffered and fam.buffered else "unbuffered"))
    drive.reset_class_state(ns)
    return viol


def removed_and_assigned(ns, fam, rng, buffered):
    viol = []
    drive.reset_class_state(ns)
    with drive.Scratch() as tmp:
        world = World(ns, fam, tmp)
        world.write(0, {"a": {"x": [1, 2], "y": {"z": 1}}, "b": [1, {"q": [3]}], "c": {"k": 1}, "d": [5, [6]]})
        world.write(1, {"p": 1})
        x = world.open(True, 0)
        y = world.open(True, 1)
        cls = fam.dict_cls
        ctx = None
        if buffered and fam.buffered:
            ctx = cls.buffer_backend()
            ctx.__enter__()
        # removed values
        pa = x.pop("a")
        k, pv = x.popitem()
        lst = x["b"]
        pl = lst.pop(1)
        cv = x["c"]
        del x["c"]
        expect = x()
        for removed, nm in ((pa, "pop"), (pv, "popitem"), (pl, "list.pop"), (cv, "del")):
            try:
                if isinstance(removed, ns.SyncedDict):
                    removed["mut"] = SENTINEL
                elif isinstance(removed, ns.SyncedList):
                    removed.append(SENTINEL)
            except Exception:  # noqa: BLE001
                pass
            now = x()
            if not strict_eq(now, expect):
                viol.append("mutating the value removed by %s changed the collection: %r != %r" % (nm, now, expect))
                expect = now
        # assigning a synced child / a root into another position / collection
        x["src"] = {"n": [1]}
        x["copy"] = x["src"]
        y["fromx"] = x["src"]
        y["root"] = x
        x["src"]["n"].append(2)
        x["src"]["added"] = 1
        if x()["copy"] != {"n": [1]}:
            viol.append("x['copy'] = x['src'] stored an alias: %r" % (x()["copy"],))
        if y()["fromx"] != {"n": [1]}:
            viol.append("y['fromx'] = x['src'] stored an alias: %r" % (y()["fromx"],))
        snap = copy.deepcopy(y()["root"])
        x["later"] = 1
        if y()["root"] != snap:
            viol.append("y['root'] = x stored an alias of the whole collection")
        x["copy"]["own"] = 1
        if "own" in x()["src"]:
            viol.append("writing through the copy changed the source")
        # live children of the SAME collection as arguments of the in-place merges (update / reset):
        # the argument is a value - what is stored is what the children held when the call was made,
        # each position an independent copy (a built-in dict / list is the reference)
        x["p"] = {"a": 1}
        x["q"] = {"b": [2]}
        x.update({"p": x["q"], "q": x["p"]})
        if x()["p"] != {"b": [2]} or x()["q"] != {"a": 1}:
            viol.append("x.update({'p': x['q'], 'q': x['p']}) stored %r / %r" % (x()["p"], x()["q"]))
        x["q"]["late"] = 1
        if "late" in x()["p"]:
            viol.append("after update(p=x['q']) the two positions are one object")
        x.update(dup=x["p"])
        x.update(dup=x["q"])          # existing slot, other live child
        x["q"]["late2"] = 1
        if "late2" in x()["dup"]:
            viol.append("update into an existing key stored the live child itself")
        before = x()
        x.reset({**{k: x[k] for k in ("p", "q")}, "r": [x["q"], x["q"]], "p2": x["p"]})
        now = x()
        want = {"p": before["p"], "q": before["q"], "r": [before["q"], before["q"]], "p2": before["p"]}
        if now != want:
            viol.append("reset with live children stored %r, expected %r" % (now, want))
        x["r"][0]["m"] = 1
        if "m" in x()["r"][1] or "m" in x()["q"]:
            viol.append("reset([.., child, child]) stored one object at several positions")
        lst2 = x["d"] if "d" in x else None
        x["lst"] = [{"a": 1}, {"b": 2}, [3]]
        lst2 = x["lst"]
        lst2.reset([lst2[1], lst2[0], lst2[1]])
        if lst2() != [{"b": 2}, {"a": 1}, {"b": 2}]:
            viol.append("lst.reset([lst[1], lst[0], lst[1]]) stored %r" % (lst2(),))
        lst2[0]["z"] = 1
        if "z" in lst2()[2]:
            viol.append("lst.reset([c, .., c]) stored one object at two positions")
        popped = lst2.pop(1)
        lst2.reset([popped, popped])
        popped["w"] = 1
        if any("w" in e for e in lst2()):
            viol.append("a popped value given to reset stays connected to the list")
        if ctx is not None:
            cls._buffer_context.__exit__(None, None, None)
        for r, o in ((0, x), (1, y)):
            d = world.read(r)
            if has_sentinel(d):
                viol.append("a mutation of a removed value reached the backend r%d" % r)
            if not strict_eq(d, o()):
                viol.append("backend r%d differs from the collection after the aliasing test" % r)
    drive.reset_class_state(ns)
    return viol


def unit_c16(args):
    fam_index, seed, buffered = args
    ns = env.load()
    fam = ns.families[fam_index]
    rng = random.Random(seed * 7027 + fam_index)
    res = dict(kind="oracle", fam=fam_index, seed=seed, profile="c16/%s" % ("buffered" if buffered else "plain"), steps=0, stats={}, violations=[])
    n = 0
    try:
        for entry, kinds in [(e, ("root", "child")) for e in ENTRY_D if e != "ctor"] + [(e, ("root", "child")) for e in ENTRY_L if e != "ctor"] + [("ctor", ("dict", "list"))]:
            for tk in kinds:
                if fam.store in ("redis", "mongo", "zarr") and buffered:
                    continue
                if entry in ENTRY_L and entry != "ctor" and tk == "child":
                    tkk = "child"
                else:
                    tkk = tk
                n += 1
                v = one_case(ns, fam, rng, entry, "root" if tkk == "root" else ("dict" if tkk == "dict" else ("list" if tkk == "list" else "child")), buffered)
                if v and not res["violations"]:
                    res["violations"].append(dict(props=["C16"], msg=v[0], fam=fam.short, kind="c16", sig="C16:" + entry, ops=None,
                                                  extra=dict(fam_index=fam_index, seed=seed, buffered=buffered)))
        v = removed_and_assigned(ns, fam, rng, buffered)
        n += 1
        if v and not res["violations"]:
            res["violations"].append(dict(props=["C16"], msg=v[0], fam=fam.short, kind="c16", sig="C16:removed-assigned", ops=None,
                                          extra=dict(fam_index=fam_index, seed=seed, buffered=buffered)))
        res["steps"] = n
        res["stats"] = {"cases": n}
    except Exception:  # noqa: BLE001
        drive.reset_class_state(ns)
        return dict(kind="oracle", fam=fam_index, seed=seed, profile="c16", crash=traceback.format_exc())
    return res
