"""C18: nested containers keep the root's family; attribute access equals item access."""
import copy
import keyword
import os
import random
import traceback

import drive
import env
from fakes import MISSING, World
from oracles import strict_eq
from proto import Other


def walk_nodes(ns, obj, path=()):
    yield path, obj
    data = obj._data
    items = data.items() if isinstance(data, dict) else enumerate(data)
    for k, v in items:
        if isinstance(v, ns.SyncedCollection):
            yield from walk_nodes(ns, v, path + (k,))
        elif isinstance(v, (dict, list, tuple)):
            yield path + (k,), v


def family_problems(ns, fam, root):
    out = []
    for path, node in walk_nodes(ns, root):
        if not isinstance(node, ns.SyncedCollection):
            out.append("the container at %r is a plain %s, not a synced collection" % (path, type(node).__name__))
        elif type(node) not in fam.classes:
            out.append("the container at %r is a %s, which is not a class of the root's family (%s)" % (
                path, type(node).__name__, "/".join(c.__name__ for c in fam.classes)))
        elif isinstance(node._data, dict) != issubclass(type(node), ns.SyncedDict):
            out.append("the container at %r has the wrong kind" % (path,))
    return out


def unit_c18_family(args):
    """after every kind of operation and reload - including assigning synced collections of OTHER
    families - every container below the root is a class of the root's family; mutating the deepest
    one persists"""
    fam_index, seed = args
    ns = env.load()
    fam = ns.families[fam_index]
    rng = random.Random(seed * 31 + fam_index)
    res = dict(kind="oracle", fam=fam_index, seed=seed, profile="c18/family", steps=0, stats={}, violations=[])
    try:
        drive.reset_class_state(ns)
        n = 0
        with drive.Scratch() as tmp:
            world = World(ns, fam, tmp)
            others = [f for f in ns.families if f.index != fam_index and f.store == "json"]
            for is_dict in (True, False):
                of = rng.choice(others)
                os.makedirs(os.path.join(tmp, "_o"), exist_ok=True)
                ow = World(ns, of, os.path.join(tmp, "_o"))
                foreign_d = ow.open(True, 7, {"f": {"g": [1, {"h": 2}]}, "l": [[1], {"m": 1}]})
                foreign_l = ow.open(False, 8, [{"a": [1]}, [2, {"b": 3}]])
                res_id = 0 if is_dict else 1
                x = world.open(is_dict, res_id)
                steps = []
                if is_dict:
                    steps += [lambda: x.__setitem__("a", {"b": [{"c": 1}, [2]]}),
                              lambda: x.update({"u": [{"v": {}}]}, kw={"w": []}),
                              lambda: x.setdefault("s", {"t": [[]]}),
                              lambda: x.__setitem__("fd", foreign_d), lambda: x.__setitem__("fl", foreign_l),
                              lambda: x.__setitem__("fchild", foreign_d["f"]),
                              lambda: x.update({"fu": foreign_l}),
                              lambda: x["a"]["b"].append(foreign_d["l"]),
                              lambda: x.reset({"r": foreign_d, "keep": {"z": [foreign_l]}}),
                              lambda: world.write(res_id, {"r": [1, {"q": {}}], "keep": {"z": {"now": ["dict"]}}, "n": [[{}]]}),
                              lambda: x["n"][0].append({"deep": []})]
                else:
                    steps += [lambda: x.append({"b": [{"c": 1}, [2]]}), lambda: x.extend([[{"v": {}}], foreign_d]),
                              lambda: x.insert(0, foreign_l), lambda: x.__setitem__(0, foreign_d["f"]),
                              lambda: x.__setitem__(slice(0, 1), [foreign_l, {"k": foreign_d}]),
                              lambda: x.__iadd__([foreign_d["l"]]),
                              lambda: x.reset([foreign_d, [foreign_l], {"z": 1}]),
                              lambda: world.write(res_id, [[1, {"q": {}}], {"z": {"now": ["dict"]}}, [[{}]]]),
                              lambda: x[2][0].append({"deep": []})]
                for st in steps:
                    st()
                    x()          # reload
                    n += 1
                    probs = family_problems(ns, fam, x)
                    if probs and not res["violations"]:
                        res["violations"].append(dict(props=["C18"], msg="step %d on a %s: %s" % (n, type(x).__name__, probs[0]), fam=fam.short,
                                                      kind="c18", sig="C18:family", ops=None, extra=dict(fam_index=fam_index, seed=seed, unit="family")))
                # mutation at depth persists
                deep = [(p, nd) for p, nd in walk_nodes(ns, x) if isinstance(nd, ns.SyncedCollection) and len(p) >= 2]
                if deep:
                    p, nd = deep[-1]
                    if isinstance(nd, ns.SyncedDict):
                        nd["persist"] = 1
                    else:
                        nd.append("persist")
                    cur = world.read(res_id)
                    for k in p:
                        cur = cur[k]
                    ok = (cur.get("persist") == 1) if isinstance(cur, dict) else (cur and cur[-1] == "persist")
                    if not ok and not res["violations"]:
                        res["violations"].append(dict(props=["C18", "C01"], msg="a mutation at depth %d did not reach the backend" % len(p), fam=fam.short,
                                                      kind="c18", sig="C18:persist", ops=None, extra=dict(fam_index=fam_index, seed=seed, unit="family")))
        drive.reset_class_state(ns)
        res["steps"] = n
        res["stats"] = {"steps": n}
    except Exception:  # noqa: BLE001
        drive.reset_class_state(ns)
        return dict(kind="oracle", fam=fam_index, seed=seed, profile="c18/family", crash=traceback.format_exc())
    return res


def key_pool(cls):
    prot = sorted(cls._PROTECTED_KEYS)
    methods = [m for m in dir(cls) if not m.startswith("_")][:40]
    dunders = ["__foo", "__len__", "__class__x", "__", "__data"]
    # also names that tools probe for (display hooks, namedtuple / pickle / copy protocol names
    # without double underscores, typing helpers): eligible keys like any other
    odd = ["a b", "1x", "", "é", "class", "x-y", "_under", "_private_like", "def",
           "_", "_x", "_repr_html_", "_repr_cache", "_repr_", "_ipython_display_", "_ipython_session",
           "_asdict", "_fields", "_replace", "_getAttributeNames", "trait_names", "getdoc", "_meta",
           "_id", "_type", "_data_", "_rev", "x_", "x__y", "_0"]
    plain = ["alpha", "beta", "k", "value2"]
    return prot, methods, dunders, odd, plain


_ABSENT = object()


def unit_c18_attr(args):
    fam_index, seed = args
    ns = env.load()
    fam = ns.families[fam_index]
    res = dict(kind="oracle", fam=fam_index, seed=seed, profile="c18/attr", steps=0, stats={}, violations=[])
    if not fam.attr:
        return res
    rng = random.Random(seed * 77 + fam_index)

    def bad(msg, sig):
        if not any(v["sig"] == "C18:" + sig for v in res["violations"]):
            res["violations"].append(dict(props=["C18"], msg=msg, fam=fam.short, kind="c18", sig="C18:" + sig, ops=None,
                                          extra=dict(fam_index=fam_index, seed=seed, unit="attr")))
    n = 0
    try:
        drive.reset_class_state(ns)
        with drive.Scratch() as tmp:
            world = World(ns, fam, tmp)
            cls = fam.dict_cls
            prot, methods, dunders, odd, plain = key_pool(cls)
            class_attrs = set(dir(cls))
            for depth in (0, 1, 2):
                init = {"alpha": 1, "k": {"x": 1}, "n1": {"alpha": 2, "n2": {"alpha": 3, "k": [1]}}}
                world.write(0, init)
                world.write(1, init)
                ra, rb = world.open(True, 0), world.open(True, 1)
                a, b = ra, rb
                for lvl in range(depth):
                    a, b = a["n%d" % (lvl + 1)], b["n%d" % (lvl + 1)]
                if type(a) is not cls:
                    bad("the nested dict at depth %d of a %s is a %s" % (depth, cls.__name__, type(a).__name__), "family")
                    continue
                inst_attrs = set(vars(a))
                # plus names made up at random (underscores in front and behind, digits, camel case)
                words = ["repr", "html", "display", "ipython", "mimebundle", "json", "latex", "cache", "lock", "data",
                         "root", "parent", "sync", "load", "save", "buffer", "filename", "Name", "x1", "get", "keys"]
                made = []
                for _ in range(14):
                    w = "_".join(rng.sample(words, rng.choice([1, 1, 2])))
                    made.append("_" * rng.choice([0, 1, 1]) + w + "_" * rng.choice([0, 0, 1, 2]))
                eligible = [k for k in plain + odd + made + ["_under", "zeta"] if k not in cls._PROTECTED_KEYS and not k.startswith("__")
                            and k not in class_attrs and k not in inst_attrs]
                # ---- eligible keys: attribute form == item form
                for k in eligible:
                    # every JSON value shape, in particular null and the other falsy values
                    for stored in ({"v": [k]}, None, 0, False, "", [], {}, 0.0, [None], _ABSENT):
                        present = stored is not _ABSENT
                        n += 1
                        if present:
                            a[k] = copy.deepcopy(stored)
                            b[k] = copy.deepcopy(stored)
                        else:
                            a.pop(k, None)
                            b.pop(k, None)
                        # get
                        try:
                            ga = ("ok", getattr(a, k)())if isinstance(getattr(a, k), ns.SyncedCollection) else ("ok", getattr(a, k))
                        except AttributeError:
                            ga = ("missing",)
                        except Exception as e:  # noqa: BLE001
                            ga = ("err", type(e).__name__)
                        try:
                            gb = ("ok", b[k]()) if isinstance(b[k], ns.SyncedCollection) else ("ok", b[k])
                        except KeyError:
                            gb = ("missing",)
                        if ga != gb or (ga[0] == "ok" and not strict_eq(ga[1], gb[1])):
                            bad("obj.%s gives %r but obj[%r] gives %r (depth %d, key %s)" % (
                                k, ga, k, gb, depth, "present with value %r" % (stored,) if present else "missing"), "get")
                        if hasattr(a, k) != (k in b):
                            bad("hasattr(obj, %r) is %r but %r in obj is %r (depth %d, value %r)" % (
                                k, hasattr(a, k), k, k in b, depth, stored if present else "<missing>"), "get")
                        # del
                        try:
                            delattr(a, k)
                            da = "ok"
                        except AttributeError:
                            da = "missing"
                        except Exception as e:  # noqa: BLE001
                            da = "err " + type(e).__name__
                        try:
                            del b[k]
                            db = "ok"
                        except KeyError:
                            db = "missing"
                        if da != db:
                            bad("del obj.%s: %s, but del obj[%r]: %s (depth %d; a missing key must raise AttributeError)" % (k, da, k, db, depth), "del")
                        # set
                        v = rng.choice([1, "s", [1, {"q": 2}], {"deep": {"er": [3]}}, None, 0, False, "", [], {}])
                        try:
                            setattr(a, k, copy.deepcopy(v))
                            sa = "ok"
                        except Exception as e:  # noqa: BLE001
                            sa = "err " + type(e).__name__
                        b[k] = copy.deepcopy(v)
                        if sa != "ok" or not strict_eq(ra(), rb()) or not strict_eq(world.read(0), world.read(1)):
                            bad("obj.%s = v: %s; content %r vs item form %r" % (k, sa, ra(), rb()), "set")
                # ---- protected names address the object, item syntax never disturbs it
                for k in prot:
                    n += 1
                    before_data = copy.deepcopy(ra())
                    had = hasattr(type(a), k) or k in vars(a)
                    old = getattr(a, k) if had else None
                    if not had:
                        try:
                            got = getattr(a, k)
                            bad("obj.%s (protected, not an attribute) returned %r instead of raising AttributeError" % (k, got), "protected-get")
                        except AttributeError:
                            pass
                    # item syntax with a protected name
                    a[k] = "stored-as-item"
                    b[k] = "stored-as-item"
                    if had and getattr(a, k) is not old and getattr(a, k) != old:
                        bad("obj[%r] = v changed the object's attribute %s" % (k, k), "item-disturbs")
                    if not had:
                        try:
                            got = getattr(a, k)
                            bad("after obj[%r] = v, obj.%s returns the item %r: a protected name must address the object, not the data" % (k, k, got), "protected-get")
                        except AttributeError:
                            pass
                    if not strict_eq(ra(), rb()) or a[k] != "stored-as-item":
                        bad("obj[%r] = v (protected name as key) did not behave like a normal key" % k, "item-protected")
                    del a[k]
                    del b[k]
                    # attribute syntax with a protected name: the data is not touched
                    if k in vars(a):
                        setattr(a, k, old)
                        if not strict_eq(ra(), before_data):
                            bad("obj.%s = v (protected) changed the data" % k, "protected-set")
                    # a protected name that is a settable property of the class (e.g. `filename`): assigning a
                    # NEW value through attribute syntax runs the setter - whatever it does internally, the
                    # data must not change (an internal `self._x = ...` on an unprotected name lands in the data)
                    desc = getattr(type(a), k, None)
                    if depth == 0 and isinstance(desc, property) and desc.fset is not None and had:
                        import os as _os
                        newv = _os.path.join(tmp, "c18_rebound_%s.json" % k) if k == "filename" else old
                        try:
                            setattr(a, k, newv)
                            mid = copy.deepcopy(ra())
                            setattr(a, k, old)
                            after = copy.deepcopy(ra())
                        except Exception as e:  # noqa: BLE001
                            bad("obj.%s = %r (settable protected property) raised %s" % (k, newv, type(e).__name__), "property-set")
                        else:
                            if not strict_eq(mid, before_data) or not strict_eq(after, before_data) or not strict_eq(world.read(0), before_data):
                                bad("obj.%s = %r (a protected, settable property) changed the data: %r, after setting it back %r, "
                                    "resource %r; before: %r" % (k, newv, mid, after, world.read(0), before_data), "property-set")
                # ---- dunders
                for k in dunders:
                    n += 1
                    try:
                        getattr(a, k)
                        if k not in class_attrs:
                            bad("obj.%s did not raise AttributeError" % k, "dunder")
                    except AttributeError:
                        pass
                    snap = copy.deepcopy(ra())
                    if k not in class_attrs:
                        setattr(a, k, 5)
                        if not strict_eq(ra(), snap):
                            bad("obj.%s = v (dunder) changed the data" % k, "dunder")
                        delattr(a, k)
                # ---- names of class attributes (methods): item access unaffected
                for k in methods[:12]:
                    n += 1
                    import inspect
                    was = inspect.getattr_static(type(a), k)
                    a[k] = 7
                    b[k] = 7
                    if inspect.getattr_static(type(a), k) is not was or k in vars(a):
                        bad("obj[%r] = v replaced the class attribute obj.%s" % (k, k), "method")
                    if a[k] != 7 or not strict_eq(ra(), rb()):
                        bad("obj[%r] = v with a method name did not behave like a normal key" % k, "method")
                    del a[k]
                    del b[k]
        drive.reset_class_state(ns)
        res["steps"] = n
        res["stats"] = {"cases": n}
    except Exception:  # noqa: BLE001
        drive.reset_class_state(ns)
        return dict(kind="oracle", fam=fam_index, seed=seed, profile="c18/attr", crash=traceback.format_exc())
    return res


def unit_c18_routes(args):
    """route correspondence: for every key of the pool and get/set/del, where the real
    attribute-syntax access goes (data item / the object's own attribute / AttributeError) must be
    what SC/Attr.lean computes from the regenerated class table"""
    fam_index, seed = args
    import suites
    from proto import enc_key
    ns = env.load()
    fam = ns.families[fam_index]
    res = dict(kind="corr", fam=fam_index, seed=seed, profile="c18/routes", steps=0, hist={}, errors=0, diff=None, suite="unit_c18_routes")
    if not fam.attr:
        res["steps"] = 0
        return res
    try:
        md = suites.model_driver(ns)
        drive.reset_class_state(ns)
        cls = fam.dict_cls
        prot, methods, dunders, odd, plain = key_pool(cls)
        keys = prot + methods[:15] + dunders + odd + plain
        M = "<<item-marker>>"
        n = 0
        with drive.Scratch() as tmp:
            world = World(ns, fam, tmp)
            for ki, k in enumerate(keys):
                if k == "":
                    continue
                du = "1" if k.startswith("__") else "0"
                for op in ("get", "set", "del"):
                    x = world.open(True, 200 + ki)      # throw-away object per probe
                    try:
                        x[k] = M
                    except Exception:  # noqa: BLE001
                        continue
                    if op == "get":
                        try:
                            v = getattr(x, k)
                            real = "item" if (isinstance(v, str) and v == M) else "object"
                        except AttributeError:
                            real = "attributeError"
                    elif op == "set":
                        try:
                            setattr(x, k, "new-value")
                            real = "item" if dict.get(x._data if isinstance(x._data, dict) else {}, k) == "new-value" else "object"
                        except Exception:  # noqa: BLE001
                            real = "object"
                    else:
                        try:
                            delattr(x, k)
                            gone = isinstance(x._data, dict) and k not in x._data
                            real = "item" if gone else "object"
                        except AttributeError:
                            still = isinstance(x._data, dict) and k in x._data
                            real = "object" if still else "item"
                        except Exception:  # noqa: BLE001
                            real = "object"
                    model = md.query("attr %d %s %s %s" % (fam_index, op, du, enc_key(k)))
                    n += 1
                    if model != "route: " + real and res["diff"] is None:
                        res["diff"] = dict(at=0, ops=[("attr", op, k)], line="attr %s %r on %s" % (op, k, cls.__name__), real=real, model=model)
        drive.reset_class_state(ns)
        res["steps"] = n
        res["hist"] = {"route_probes": n}
    except Exception:  # noqa: BLE001
        drive.reset_class_state(ns)
        return dict(kind="corr", fam=fam_index, seed=seed, profile="c18/routes", crash=traceback.format_exc())
    return res


def unit_c11_foreign(args):
    """C11 through a transplanted child: a synced collection of ANOTHER family is stored into the
    collection; afterwards no entry point of the nested children lets in what the ROOT's family
    forbids (dotted keys under an attribute-access root, non-string keys, non-JSON leaves)"""
    fam_index, seed = args
    ns = env.load()
    fam = ns.families[fam_index]
    res = dict(kind="oracle", fam=fam_index, seed=seed, profile="c11/foreign", steps=0, stats={}, violations=[])
    n = 0
    try:
        drive.reset_class_state(ns)
        from oracles import fam_forbidden
        with drive.Scratch() as tmp:
            world = World(ns, fam, tmp)
            others = [f for f in ns.families if f.index != fam_index and f.store == "json"]
            for of in others:
                os.makedirs(os.path.join(tmp, "_o%d" % of.index), exist_ok=True)
                ow = World(ns, of, os.path.join(tmp, "_o%d" % of.index))
                src_d = ow.open(True, 7, {"s": {"k": 1, "in": {"z": [1]}}, "rows": [{"a": 1}, [2]]})
                src_l = ow.open(False, 8, [{"a": {"b": 1}}, [{"c": 2}]])
                x = world.open(True, 0)
                x.reset({})
                x["s"] = src_d["s"]
                x["rows"] = src_d["rows"]
                x["whole"] = src_d
                x["lst"] = src_l
                bads = [("nonstr", {1: "v"}), ("other", Other(1))]
                if fam.attr:
                    bads.append(("dot", {"a.b": 1}))
                targets = [("x['s']", x["s"]), ("x['s']['in']", x["s"]["in"]), ("x['rows'][0]", x["rows"][0]),
                           ("x['whole']['s']", x["whole"]["s"]), ("x['lst'][0]['a']", x["lst"][0]["a"])]
                lists = [("x['rows']", x["rows"]), ("x['lst'][1]", x["lst"][1]), ("x['s']['in']['z']", x["s"]["in"]["z"])]
                for kind, bad in bads:
                    for tname, t in targets:
                        attempts = [("setitem", lambda t=t, bad=bad: t.__setitem__("nk", bad)),
                                    ("update", lambda t=t, bad=bad: t.update({"nk": bad})),
                                    ("setdefault", lambda t=t, bad=bad: t.setdefault("nk2", bad))]
                        if isinstance(bad, dict):
                            k0 = next(iter(bad))
                            attempts += [("setitem-key", lambda t=t, k0=k0: t.__setitem__(k0, 1)),
                                         ("update-pairs", lambda t=t, k0=k0: t.update([(k0, 1)]))]
                        for aname, fn in attempts:
                            n += 1
                            try:
                                fn()
                                accepted = True
                            except (TypeError, ValueError):
                                accepted = False
                            if accepted and not res["violations"]:
                                res["violations"].append(dict(
                                    props=["C11", "C18"], fam=fam.short, kind="c11f", sig="C11:foreign", ops=None,
                                    msg="after storing a %s collection into a %s, %s.%s accepted forbidden data (%s): %r" % (
                                        of.short, fam.short, tname, aname, kind, bad),
                                    extra=dict(fam_index=fam_index, seed=seed)))
                    for tname, t in lists:
                        for aname, fn in [("append", lambda t=t, bad=bad: t.append(bad)), ("extend", lambda t=t, bad=bad: t.extend([bad])),
                                          ("insert", lambda t=t, bad=bad: t.insert(0, bad)), ("iadd", lambda t=t, bad=bad: t.__iadd__([bad]))]:
                            n += 1
                            try:
                                fn()
                                accepted = True
                            except (TypeError, ValueError):
                                accepted = False
                            if accepted and not res["violations"]:
                                res["violations"].append(dict(
                                    props=["C11", "C18"], fam=fam.short, kind="c11f", sig="C11:foreign", ops=None,
                                    msg="after storing a %s collection into a %s, %s.%s accepted forbidden data (%s): %r" % (
                                        of.short, fam.short, tname, aname, kind, bad),
                                    extra=dict(fam_index=fam_index, seed=seed)))
                mem, disk = x(), world.read(0)
                for where, data in (("memory", mem), ("backend", disk)):
                    badp = fam_forbidden(fam, data) if data is not MISSING else None
                    if badp and not res["violations"]:
                        res["violations"].append(dict(props=["C11"], fam=fam.short, kind="c11f", sig="C11:foreign", ops=None,
                                                      msg="forbidden item %s reached %s through a transplanted child" % (badp, where),
                                                      extra=dict(fam_index=fam_index, seed=seed)))
        drive.reset_class_state(ns)
        res["steps"] = n
        res["stats"] = {"attempts": n}
    except Exception:  # noqa: BLE001
        drive.reset_class_state(ns)
        return dict(kind="oracle", fam=fam_index, seed=seed, profile="c11/foreign", crash=traceback.format_exc())
    return res
