"""Line protocol shared with the Lean driver: value encoding, execution of one
structured operation on the real objects, canonical result/state lines."""
import ast
import math

from fakes import MISSING


class Other:
    """A value that is neither a JSON scalar nor a collection."""

    def __init__(self, tag):
        self.tag = tag

    def __repr__(self):
        return "Other(%d)" % self.tag


class Synced:
    """The LIVE synced collection behind handle `h`, passed as a value (`a['x'] = a['y']`,
    `lst.append(other_obj)`); `plain` is its content at that moment, which is what the model and the
    built-in reference are given: a synced argument is a value like any other."""

    def __init__(self, h, plain):
        self.h = h
        self.plain = plain

    def __repr__(self):
        return "Synced(%r, %r)" % (self.h, self.plain)


RUNNER = [None]     # the Runner of the program being executed (resolves Synced arguments)


class ProgramInvalid(Exception):
    """a (shrunk) program is not meaningful any more - e.g. the content recorded for a live synced
    argument is not what the source holds; never an outcome of the code under test"""


def enc_str(s):
    return "S" + ".".join(str(ord(c)) for c in s)


def enc_key(k):
    if isinstance(k, str):
        return enc_str(k)
    if isinstance(k, bool) or not isinstance(k, int):
        raise ValueError("unsupported key %r" % (k,))
    return "K%d" % k


def enc(v):
    """Python value -> token string."""
    if v is None:
        return "N"
    if v is True:
        return "T"
    if v is False:
        return "F"
    if isinstance(v, int):
        return "I%d" % v
    if isinstance(v, float):
        if not math.isfinite(v):
            raise ValueError("non-finite float")
        n, d = v.as_integer_ratio()
        return "R%d/%d" % (n, d)
    if isinstance(v, str):
        return enc_str(v)
    if isinstance(v, Other):
        return "O%d" % v.tag
    if isinstance(v, Synced):
        return enc(v.plain)
    if isinstance(v, (list, tuple)):
        return "[ " + "".join(enc(x) + " " for x in v) + "]"
    if isinstance(v, (bytes, bytearray)):
        return "[ " + "".join("I%d " % x for x in v) + "]"
    if isinstance(v, dict):
        return "{ " + "".join(enc_key(k) + " " + enc(x) + " " for k, x in v.items()) + "}"
    raise ValueError("cannot encode %r" % (v,))


def enc_idx(ix):
    if isinstance(ix, slice):
        f = lambda x: "_" if x is None else str(x)
        return "s%s,%s,%s" % (f(ix.start), f(ix.stop), f(ix.step))
    return "i%d" % ix


def op_line(op):
    """Structured op -> protocol line."""
    kind = op[0]
    if kind == "open":
        _, is_dict, res, data = op[:4]
        s = "open %d %s %d" % (op[4] if len(op) > 4 else 0, "d" if is_dict else "l", res)
        if data is not MISSING:
            s += " " + enc(data)
        return s
    if kind == "ext":
        return "ext %d %s" % (op[1], enc(op[2]))
    if kind == "extdel":
        return "extdel %d" % op[1]
    if kind in ("enter", "exit"):
        return "%s o%d" % (kind, op[1])
    if kind == "center":
        return "center" if op[1] is None else "center %d" % op[1]
    if kind == "cexit":
        return "cexit"
    if kind == "setcap":
        return "setcap %d" % op[1]
    if kind == "fail":
        return "fail" + "".join(" %d" % r for r in op[1])
    if kind == "drop":
        # the user lets go of an object: not an event of the model - rendered as the (unchanged)
        # fault setting, which the model takes as a no-op
        return "fail" + "".join(" %d" % r for r in op[2])
    if kind == "call":
        _, h, name, *args = op
        parts = ["call", h, name]
        if name in ("dsetitem", "dpop", "dsetdefault", "dget"):
            parts += [enc_key(args[0]), enc(args[1])]
        elif name in ("ddelitem", "dgetitem", "dcontains"):
            parts += [enc_key(args[0])]
        elif name == "dupdate":
            parts += [enc(args[0]), enc(args[1])]
        elif name in ("dreset", "deq", "dne", "lappend", "lextend", "liadd", "lremove", "lreset",
                      "lcontains", "lcount", "leq", "lne"):
            parts += [enc(args[0])]
        elif name == "lsetitem":
            parts += [enc_idx(args[0]), enc(args[1])]
        elif name in ("ldelitem", "lgetitem"):
            parts += [enc_idx(args[0])]
        elif name == "linsert":
            parts += [str(args[0]), enc(args[1])]
        elif name == "lpop":
            parts += [str(args[0])]
        elif name == "lindex":
            parts += [str(args[1]), "_" if args[2] is None else str(args[2]), enc(args[0])]
        elif name == "lcmp":
            parts += [args[0], enc(args[1])]
        else:
            assert not args, op
        return " ".join(parts)
    raise ValueError(op)


CMP = {"lt": lambda a, b: a < b, "le": lambda a, b: a <= b, "gt": lambda a, b: a > b, "ge": lambda a, b: a >= b}

# result shapes
NODES_OPS = {"liter", "lreversed"}


_VALUE_OPS = {"dsetitem", "dupdate", "dsetdefault", "dreset", "lsetitem", "linsert", "lappend", "lextend", "liadd", "lreset"}


def _alias(v, memo):
    """the same plain value, but equal sub-containers are ONE object (`row = [0, 0]; [row, row]`):
    a plain nesting for every consumer that treats data as a value"""
    if isinstance(v, list):
        out = [_alias(x, memo) for x in v]
    elif isinstance(v, dict):
        out = {k: _alias(x, memo) for k, x in v.items()}
    else:
        return v
    key = repr(out)
    if key in memo:
        return memo[key]
    memo[key] = out
    return out


KEPT_ITERATORS = []


def apply_call(obj, name, args):
    """Perform the public call on the real (or built-in) object and return the raw result."""
    if any(isinstance(a, Synced) for a in args):
        # a live synced collection as the argument (for a built-in object: its plain content)
        import copy
        if _is_synced(obj):
            for a in args:
                if isinstance(a, Synced):
                    try:
                        src = RUNNER[0].target(a.h)
                        same = repr(src._to_base()) == repr(a.plain)
                    except Exception:  # noqa: BLE001
                        same = False
                    if not same:
                        raise ProgramInvalid("the content recorded for %s is not what it holds" % a.h)
        args = [(RUNNER[0].target(a.h) if _is_synced(obj) else copy.deepcopy(a.plain)) if isinstance(a, Synced) else a
                for a in args]
    if _is_synced(obj):
        args = [_realize(a) for a in args]
    if name in ("diternext", "liternext"):
        # an iterator that is advanced once and then KEPT (a stored zip, a loop left by an
        # exception): whatever it holds on to stays held
        it = iter(obj)
        r = next(it, None)
        KEPT_ITERATORS.append(it)
        return r
    if name in _VALUE_OPS:
        import zlib
        try:
            h = zlib.crc32(repr(args).encode()) % 6
            if h in (1, 4):
                memo = {}
                args = [a if isinstance(a, slice) else _alias(a, memo) for a in args]
            elif h == 2 and name in ("dsetitem", "dsetdefault", "lsetitem", "linsert", "lappend") and not isinstance(args[0], slice):
                # a value with tuples in it (stored as lists); top level stays what it was
                args = list(args[:-1]) + [_tuplify(args[-1], flip=False)]
        except Exception:  # noqa: BLE001  (arguments that cannot be walked: invalid on purpose)
            pass
    if name == "dsetitem":
        if _attr_form(obj, args[0]) and _form(args, 3) == 0:
            # attribute syntax on the attribute-access classes: `obj.key = value` IS `obj[key] = value`
            setattr(obj, args[0], args[1])
            return None
        obj[args[0]] = args[1]
        return None
    if name == "ddelitem":
        if _attr_form(obj, args[0]) and _form(args, 3) == 0:
            try:
                delattr(obj, args[0])
            except AttributeError:
                # the attribute form of KeyError (a missing key must raise AttributeError)
                raise KeyError(args[0])
            return None
        del obj[args[0]]
        return None
    if name == "dpop":
        if args[1] is None and _form(args, 2) == 0 and _is_synced(obj):
            return obj.pop(args[0])          # documented: the default of pop() is None
        return obj.pop(args[0], args[1])
    if name == "dpopitem":
        return obj.popitem()
    if name in ("dclear", "lclear"):
        return obj.clear()
    if name == "dupdate":
        other, kw = args
        if other is None:
            return obj.update(**kw)
        # the same update in the three forms the API accepts - mapping, list of pairs, iterator of
        # pairs - chosen by a deterministic function of the argument (replays stay exact)
        import zlib
        form = zlib.crc32(repr(sorted(map(repr, other))).encode()) % 4 if isinstance(other, dict) else 0
        if form == 2:
            return obj.update(list(other.items()), **kw)
        if form == 3:
            return obj.update(iter(tuple(other.items())), **kw)
        return obj.update(other, **kw)
    if name == "dsetdefault":
        return obj.setdefault(args[0], args[1])
    if name in ("dreset", "lreset"):
        return obj.reset(args[0])
    if name == "dgetitem":
        if _attr_form(obj, args[0]) and _form(args, 3) == 0:
            try:
                return getattr(obj, args[0])
            except AttributeError:
                raise KeyError(args[0])      # the attribute form of KeyError
        return obj[args[0]]
    if name == "dcontains":
        return args[0] in obj
    if name in ("dlen", "llen"):
        return len(obj)
    if name == "diter":
        return list(iter(obj))
    if name in ("dcall", "lcall"):
        return obj()
    if name in ("drepr", "lrepr"):
        return ast.literal_eval(repr(obj))
    if name == "dkeys":
        return list(obj.keys())
    if name == "dvalues":
        return list(obj.values())
    if name == "ditems":
        return [list(kv) for kv in obj.items()]
    if name in ("deq", "leq"):
        return obj == _operand(obj, args[0])
    if name in ("dne", "lne"):
        return obj != _operand(obj, args[0])
    if name == "dget":
        if args[1] is None and _form(args, 2) == 0:
            return obj.get(args[0])
        return obj.get(args[0], args[1])
    if name == "lsetitem":
        obj[args[0]] = args[1]
        return None
    if name == "ldelitem":
        del obj[args[0]]
        return None
    if name == "linsert":
        return obj.insert(args[0], args[1])
    if name == "lappend":
        return obj.append(args[0])
    if name == "lextend":
        return obj.extend(_iterable_form(args[0], _form(args, 4)))
    if name == "liadd":
        obj += _iterable_form(args[0], _form(args, 4))
        return None
    if name == "lremove":
        return obj.remove(args[0])
    if name == "lpop":
        if args[0] == -1 and _form(args, 2) == 0:
            return obj.pop()
        return obj.pop(args[0])
    if name == "lreverse":
        return obj.reverse()
    if name == "lgetitem":
        return obj[args[0]]
    if name == "lcontains":
        return args[0] in obj
    if name == "liter":
        return list(iter(obj))
    if name == "lreversed":
        return list(reversed(obj))
    if name == "lindex":
        if args[2] is None:
            return obj.index(args[0], args[1])
        return obj.index(args[0], args[1], args[2])
    if name == "lcount":
        return obj.count(args[0])
    if name == "lcmp":
        return CMP[args[0]](obj, _operand(obj, args[1]))
    raise ValueError(name)


def _realize(v):
    """The placeholder `Other(tag)` for 'a value that is neither a JSON scalar nor a collection' as an
    actual object of varying type: numbers that are not JSON numbers (Fraction, Decimal, complex),
    a set, bytes-free custom objects - whatever its type, the library must reject it."""
    if isinstance(v, Other):
        k = v.tag % 5
        if k == 1:
            import fractions
            return fractions.Fraction(v.tag, 7)
        if k == 2:
            import decimal
            return decimal.Decimal(v.tag)
        if k == 3:
            return complex(v.tag, 1)
        if k == 4:
            return frozenset([v.tag])
        return v
    if isinstance(v, list):
        out = [_realize(x) for x in v]
        return out if any(a is not b for a, b in zip(out, v)) else v
    if isinstance(v, tuple):
        out = [_realize(x) for x in v]
        return tuple(out) if any(a is not b for a, b in zip(out, v)) else v
    if isinstance(v, dict):
        out = {k: _realize(x) for k, x in v.items()}
        return out if any(out[k] is not v[k] for k in v) else v
    return v


def _form(args, n):
    """deterministic choice among the call forms that mean the same"""
    import zlib
    return zlib.crc32(("form" + repr(args)).encode()) % n


def _is_synced(obj):
    return hasattr(obj, "_load")


def _attr_form(obj, key):
    """can `obj[key]` be written `obj.key`?  (attribute-access class, a string that is neither a
    dunder nor one of the class's protected names)"""
    if not any(c.__name__ == "AttrDict" for c in type(obj).__mro__):
        return False
    prot = getattr(type(obj), "_PROTECTED_KEYS", ())
    return (isinstance(key, str) and not key.startswith("__") and key not in prot
            and not hasattr(type(obj), key) and key not in getattr(obj, "__dict__", {}))


def _iterable_form(v, k):
    """the argument of extend / += as a list, a tuple, a one-shot iterator or a generator"""
    if not isinstance(v, list):
        return v
    if k == 1:
        return tuple(v)
    if k == 2:
        return iter(v)
    if k == 3:
        return (x for x in v)
    return v


def _tuplify(v, flip=True):
    """the same value with every other nested list as a tuple (tuples are stored as lists)"""
    if isinstance(v, list):
        out = [_tuplify(x, not flip) for x in v]
        return tuple(out) if flip else out
    if isinstance(v, dict):
        return {k: _tuplify(x, flip) for k, x in v.items()}
    return v


WORLD = [None]          # the World of the program being run (set by Runner): lets a comparison build
OPERAND_RES = [900]     # a second ROOT object, on a resource of its own, as its right-hand side


def _operand(obj, other):
    """the right-hand side of a comparison, as plain data or - for unbuffered classes, chosen by a
    deterministic function of the value - as a SYNCED collection of the same family with that
    content (C03: comparisons agree "for synced and for plain operands"; C02: every read reflects
    the backend - also the read of the OTHER operand).  Two synced forms: a detached sibling built
    by _from_base (comparing loads its root, which changes nothing), and another ROOT object on a
    resource of its own which holds that content while the object's memory is stale - never loaded,
    or loaded before an outside writer replaced the content."""
    import zlib
    if not isinstance(other, (list, dict)) or hasattr(type(obj), "_buffer"):
        return other
    if isinstance(other, list) != hasattr(obj, "append"):
        return other
    form = zlib.crc32(repr(other).encode()) % 3
    if form == 2:
        return other
    try:
        obj._validate(other)
    except Exception:  # noqa: BLE001
        return other
    if form == 1 and WORLD[0] is not None:
        import copy
        world = WORLD[0]
        if type(obj) not in (world.fam.dict_cls, world.fam.list_cls):
            return other
        res = OPERAND_RES[0]
        OPERAND_RES[0] += 1
        try:
            if zlib.crc32(repr(other).encode()) % 2:
                # loaded once, then the content was replaced from outside
                world.write(res, {"old": 1} if isinstance(other, dict) else [0, "old"])
                x = world.open(isinstance(other, dict), res)
                x()
                world.write(res, copy.deepcopy(other))
            else:
                world.write(res, copy.deepcopy(other))
                x = world.open(isinstance(other, dict), res)
            return x
        except Exception:  # noqa: BLE001
            return other
    return obj._from_base(data=other, parent=obj)


def result_shape(name, args):
    if name in NODES_OPS:
        return "nodes"
    if name == "lgetitem" and isinstance(args[0], slice):
        return "nodes"
    if name == "dpopitem":
        return "pair"
    if name in ("dsetitem", "ddelitem", "dclear", "lclear", "dupdate", "dreset", "lreset", "lsetitem",
                "ldelitem", "linsert", "lappend", "lextend", "liadd", "lremove", "lreverse"):
        return "unit"
    return "one"


FAILING = set()
_FAULTS_INSTALLED = []


def install_write_faults(ns):
    """wrap JSONCollection._save_to_resource once: writing a file listed in FAILING raises
    OSError(ENOSPC) before anything is touched"""
    if _FAULTS_INSTALLED:
        return
    J = ns.json_mod.JSONCollection
    orig = J._save_to_resource

    def faulty(self):
        if FAILING and self._filename in FAILING:
            raise OSError(28, "No space left on device")
        return orig(self)
    J._save_to_resource = faulty
    _FAULTS_INSTALLED.append(orig)


DROPPED = type("Dropped", (), {"__repr__": lambda self: "<dropped>"})()


class Runner:
    """Executes structured ops against the real classes of one family and renders
    the same lines the Lean driver prints."""

    def __init__(self, ns, world, fam_index=0, buffered_cls=None):
        self.ns = ns
        self.world = world
        self.fam_index = fam_index
        self.bcls = buffered_cls     # the buffered class whose buffer state is reported
        self.objs = []        # root objects
        self.handles = []     # registered child objects (kept alive)
        self.hid = {}         # id(obj) -> handle number
        self.known_res = set()
        WORLD[0] = world
        OPERAND_RES[0] = 900
        RUNNER[0] = self

    # ---- rendering
    def _plain(self, obj):
        return obj._to_base()

    def show_node(self, v):
        if isinstance(v, self.ns.SyncedCollection):
            k = self.hid.get(id(v))
            if k is None:
                k = len(self.handles)
                self.handles.append(v)
                self.hid[id(v)] = k
            return "H%d:%s" % (k, enc(self._plain(v)))
        return enc(v)

    def show_result(self, shape, r):
        if shape == "unit":
            return "U"
        if shape == "nodes":
            return "( " + "".join(self.show_node(x) + " " for x in r) + ")"
        if shape == "pair":
            return "( %s %s )" % (enc_key(r[0]), self.show_node(r[1]))
        return self.show_node(r)

    def state_line(self):
        parts = []
        for res in sorted(self.known_res):
            d = self.world.read(res)
            if type(d).__name__ == "Corrupt":
                parts.append(" r%d=CORRUPT" % res)
            elif d is not MISSING:
                parts.append(" r%d=%s" % (res, enc(d)))
        if self.bcls is not None:
            files = sorted(self.res_of_path(p) for p in self.bcls._buffer)
            return "st%s | buf size=%d cap=%d files=[%s]" % (
                "".join(parts), self.bcls.get_current_buffer_size(), self.bcls.get_buffer_capacity(),
                ", ".join(map(str, files)))
        mem = "".join(" o%d=%s" % (i, enc(self._plain(o))) for i, o in enumerate(self.objs))
        return "st" + "".join(parts) + " | mem" + mem

    def res_of_path(self, path):
        import os
        return int(os.path.basename(path)[1:-5])

    def err_line(self, e):
        name = type(e).__name__
        if name == "BufferedError":
            return "err BufferedError " + ",".join(str(r) for r in sorted(self.res_of_path(p) for p in e.files))
        return "err " + name

    def root_objs(self):
        return self.objs

    def target(self, h):
        if h[0] == "o":
            o = self.objs[int(h[1:])]
            if o is DROPPED:
                raise IndexError("object was dropped")
            return o
        return self.handles[int(h[1:])]

    # ---- execution
    def exec(self, op):
        """Returns the list of lines the driver is expected to print for `op`."""
        kind = op[0]
        if kind == "open":
            _, is_dict, res, data = op[:4]
            self.known_res.add(res)
            try:
                o = self.world.open(is_dict, res, data)
            except Exception as e:  # noqa: BLE001
                return ["err " + type(e).__name__, self.state_line()]
            self.objs.append(o)
            return ["ok o%d" % (len(self.objs) - 1), self.state_line()]
        if kind == "ext":
            self.known_res.add(op[1])
            self.world.write(op[1], op[2])
            return ["ok", self.state_line()]
        if kind == "extdel":
            self.world.delete(op[1])
            return ["ok", self.state_line()]
        if kind == "fail":
            # from now on writing these files fails with OSError (disk full); [] heals the disk
            install_write_faults(self.ns)
            FAILING.clear()
            FAILING.update(self.world.path(r) for r in op[1])
            return ["ok", self.state_line()]
        if kind == "drop":
            # the program lets go of root object k (its last reference, unless a child handle obtained
            # from it is still held) and the garbage collector runs: whatever the library still owes
            # this object - e.g. the flush of its buffered data - it must do without the user's help
            import gc
            self.objs[op[1]] = DROPPED
            gc.collect()
            return ["ok", self.state_line()]
        if kind in ("enter", "exit", "center", "cexit", "setcap"):
            try:
                if kind == "enter":
                    self.objs[op[1]].buffered.__enter__()
                elif kind == "exit":
                    self.objs[op[1]].buffered.__exit__(None, None, None)
                elif kind == "center":
                    ctx = self.bcls.buffer_backend() if op[1] is None else self.bcls.buffer_backend(op[1])
                    ctx.__enter__()
                elif kind == "cexit":
                    self.bcls._buffer_context.__exit__(None, None, None)
                else:
                    self.bcls.set_buffer_capacity(op[1])
            except Exception as e:  # noqa: BLE001
                return [self.err_line(e), self.state_line()]
            return ["ok", self.state_line()]
        if kind == "call":
            _, h, name, *args = op
            obj = self.target(h)
            try:
                r = apply_call(obj, name, args)
            except ProgramInvalid:
                raise
            except Exception as e:  # noqa: BLE001
                return [self.err_line(e), self.state_line()]
            return ["ok " + self.show_result(result_shape(name, args), r), self.state_line()]
        raise ValueError(op)
