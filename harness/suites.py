"""Work units run by the check: each unit generates one program from a seed,
runs it on the real classes (and, for correspondence units, on the Lean model)
and returns violations / disagreements with everything needed to replay them."""
import collections
import random
import traceback

import drive
import env
import gen
import oracles
from fakes import MISSING, World
from boracles import unit_buf_twin, unit_c07_scenarios, unit_buf_conflict, unit_buf_io_faults, unit_c06_handles, unit_c06_sessions
from conc import unit_conc  # noqa: F401
from c10 import unit_c10_faults, unit_c10_filename  # noqa: F401
from c18 import unit_c18_family, unit_c18_attr, unit_c18_routes, unit_c11_foreign  # noqa: F401
from c19 import unit_c19, unit_c19_model  # noqa: F401
from c16 import unit_c16  # noqa: F401
from c17 import unit_c17_leftovers  # noqa: F401
from weakhash import unit_weak_hash  # noqa: F401
from c08 import unit_c08_trace, unit_c08_crash, unit_c08_unserialisable  # noqa: F401  # noqa: F401  (work units)

_md = None


def model_driver(ns):
    global _md
    if _md is None:
        _md = drive.ModelDriver(ns)
    return _md


def _invalid_kinds(fam):
    kinds = ("nonstr",) if fam.store == "zarr" else ("nonstr", "other")
    return kinds + (("dot",) if fam.attr else ())


def seq_setup(rng, vg, profile):
    """initial ops of a sequential program: optional initial content, 1-3 objects on resource 0"""
    is_dict = rng.random() < 0.5
    ops = []
    if rng.random() < (0.75 if profile != "fresh" else 0.0):
        ops.append(("ext", 0, vg.container(is_dict, 3)))
    ops.append(("open", is_dict, 0, MISSING))
    if profile in ("multi", "ext", "multi_faulty"):
        for _ in range(rng.choice([1, 1, 2])):
            ops.append(("open", is_dict, 0, MISSING))
    return is_dict, ops


class plain_mode:
    """JSON families with thread locks off and write_concern=False: saves write the file in
    place (`open(filename, "wb")`) instead of temp file + os.replace"""

    def __init__(self, fam, on):
        self.fam = fam
        self.on = on and fam.store == "json"

    def __enter__(self):
        if self.on:
            for cls in self.fam.classes:
                cls.disable_multithreading()

    def __exit__(self, *a):
        if self.on:
            for cls in self.fam.classes:
                cls.enable_multithreading()


PROFILES = {
    # name: (p_read, p_miss, p_ext, p_invalid)
    "single": (0.35, 0.2, 0.0, 0.0),
    "plainfile": (0.3, 0.2, 0.0, 0.0),
    "fresh": (0.3, 0.15, 0.0, 0.0),
    "multi": (0.3, 0.15, 0.0, 0.0),
    "ext": (0.45, 0.15, 0.18, 0.0),
    "invalid": (0.15, 0.1, 0.0, 0.35),
    "errors": (0.4, 0.6, 0.0, 0.0),
    "multi_faulty": (0.2, 0.25, 0.05, 0.15),
}


def unit_seq_corr(args):
    """model-vs-code correspondence for one generated sequential program"""
    fam_index, seed, profile, n_steps = args
    ns = env.load()
    fam = ns.families[fam_index]
    rng = random.Random((seed * 7919 + fam_index) * 31 + sum(map(ord, profile)))
    p_read, p_miss, p_ext, p_invalid = PROFILES[profile]
    state = {}

    def make_gen(runner):
        g = gen.ProgGen(rng, runner, fam, p_read=p_read, p_miss=p_miss, p_ext=p_ext, p_invalid=p_invalid,
                        invalid_kinds=_invalid_kinds(fam))
        g.allow_extdel = True
        g.allow_badroot = True
        state["g"] = g
        return g

    def setup(runner, g):
        is_dict, ops = seq_setup(rng, g.vg, profile)
        g.resources = [(0, is_dict)]
        return ops

    try:
        with plain_mode(fam, profile == "plainfile"):
            ops, lines = drive.generate(ns, fam, make_gen, n_steps, setup)
        got = model_driver(ns).run(drive.op_lines(ops, fam.index))
    except Exception:  # noqa: BLE001
        return dict(kind="corr", fam=fam_index, seed=seed, profile=profile, crash=traceback.format_exc())
    d = drive.first_diff(lines, got)
    hist = collections.Counter(op[2] if op[0] == "call" else op[0] for op in ops)
    errs = sum(1 for l in lines if l[0].startswith("err"))
    res = dict(kind="corr", fam=fam_index, seed=seed, profile=profile, steps=len(ops), hist=dict(hist), errors=errs,
               diff=None)
    if d is not None:
        res["diff"] = dict(at=d, ops=ops[: d + 1], line=drive.op_lines(ops, fam.index)[d],
                           real=lines[d], model=got[d] if d < len(got) else None)
    elif seed % 50 == 0:
        res["sample"] = [drive.op_lines(ops, fam.index)[i] + "  =>  " + lines[i][0] for i in range(min(len(ops), 6))]
    return res


BUF_FAMS = [1, 2, 4, 5]
BUF_PROFILES = {
    # name: dict of generator parameters
    "basic": dict(p_read=0.35, p_miss=0.15, p_ext=0.0, p_ctx=0.2, p_cap=0.0),
    "caps": dict(p_read=0.3, p_miss=0.15, p_ext=0.0, p_ctx=0.22, p_cap=0.7),
    "joint": dict(p_read=0.4, p_miss=0.15, p_ext=0.0, p_ctx=0.2, p_cap=0.2, joint=True, p_back=0.24),
    "conflict": dict(p_read=0.3, p_miss=0.1, p_ext=0.12, p_ctx=0.25, p_cap=0.3),
    "readonly": dict(p_read=0.97, p_miss=0.1, p_ext=0.0, p_ctx=0.3, p_cap=0.3),
    # writes of some files fail with OSError (disk full) for stretches of the program
    "faults": dict(p_read=0.25, p_miss=0.1, p_ext=0.0, p_ctx=0.25, p_cap=0.5, p_fail=0.08),
}


def unit_buf_corr(args):
    """model-vs-code correspondence for one generated program on a buffered class"""
    fam_index, seed, profile, n_steps = args
    import bgen
    from proto import Runner
    ns = env.load()
    fam = ns.families[fam_index]
    rng = random.Random((seed * 6151 + fam_index) * 13 + sum(map(ord, profile)))
    params = dict(BUF_PROFILES[profile])
    drive.reset_class_state(ns)
    try:
        with drive.Scratch() as tmp:
            world = World(ns, fam, tmp)
            runner = Runner(ns, world)
            g = bgen.BufGen(rng, runner, fam, **params)
            g.allow_extdel = True
            g.ctor_data = True
            is_dict, ops = bgen.buf_setup(rng, g, objs_per_res=2 if params.get("joint") else None)
            runner.bcls = fam.dict_cls if is_dict else fam.list_cls
            lines = [runner.exec(op) for op in ops]
            for _ in range(n_steps):
                op = g.step()
                ops.append(op)
                lines.append(runner.exec(op))
            for op in g.closing():
                ops.append(op)
                lines.append(runner.exec(op))
        got = model_driver(ns).run(drive.op_lines(ops, fam.index),
                                   reset="breset %d %s" % (fam.index, "mem" if fam.buffered == "memory" else "ser"))
    except Exception:  # noqa: BLE001
        return dict(kind="corr", fam=fam_index, seed=seed, profile=profile, crash=traceback.format_exc())
    finally:
        drive.reset_class_state(ns)
    d = drive.first_diff(lines, got)
    hist = collections.Counter(op[2] if op[0] == "call" else op[0] for op in ops)
    errs = collections.Counter(l[0].split()[1] for l in lines if l[0].startswith("err"))
    res = dict(kind="corr", fam=fam_index, seed=seed, profile=profile, steps=len(ops), hist=dict(hist),
               errors=sum(errs.values()), err_kinds=dict(errs), diff=None, suite="unit_buf_corr")
    if d is not None:
        res["diff"] = dict(at=d, ops=ops[: d + 1], line=drive.op_lines(ops, fam.index)[d],
                           real=lines[d], model=got[d] if d < len(got) else None)
    elif seed % 50 == 0:
        res["sample"] = [drive.op_lines(ops, fam.index)[i] + "  =>  " + lines[i][0] for i in range(min(len(ops), 8))]
    return res


def run_shadow(ns, fam, ops, stop_on_violation=True, plain=False):
    """replay a fixed op list under the shadow oracle"""
    drive.reset_class_state(ns)
    with drive.Scratch() as tmp, plain_mode(fam, plain):
        world = World(ns, fam, tmp)
        sh = oracles.Shadow(ns, world, fam)
        for i, op in enumerate(ops):
            sh.exec(op)
            if sh.violations and stop_on_violation:
                return sh, i
        if not sh.violations:
            sh.final_roundtrip()
        return sh, len(ops) - 1


def unit_seq_oracle(args):
    """code-vs-built-in shadow oracle for one generated sequential program"""
    fam_index, seed, profile, n_steps = args
    ns = env.load()
    fam = ns.families[fam_index]
    rng = random.Random((seed * 104729 + fam_index) * 17 + sum(map(ord, profile)))
    p_read, p_miss, p_ext, p_invalid = PROFILES[profile]
    drive.reset_class_state(ns)
    try:
        with drive.Scratch() as tmp, plain_mode(fam, profile == "plainfile"):
            world = World(ns, fam, tmp)
            sh = oracles.Shadow(ns, world, fam)
            g = gen.ProgGen(rng, sh, fam, p_read=p_read, p_miss=p_miss, p_ext=p_ext, p_invalid=p_invalid,
                            invalid_kinds=_invalid_kinds(fam))
            g.allow_extdel = True
            g.allow_badroot = True
            is_dict, ops = seq_setup(rng, g.vg, profile)
            g.resources = [(0, is_dict)]
            for op in ops:
                sh.exec(op)
            for _ in range(n_steps):
                if sh.violations:
                    break
                op = g.step()
                ops.append(op)
                sh.exec(op)
            if not sh.violations:
                sh.final_roundtrip()
    except Exception:  # noqa: BLE001
        return dict(kind="oracle", fam=fam_index, seed=seed, profile=profile, crash=traceback.format_exc())
    res = dict(kind="oracle", fam=fam_index, seed=seed, profile=profile, steps=len(ops), stats=dict(sh.stats),
               violations=[])
    if sh.violations:
        # minimise: the same violation tag must survive
        tags = set(sh.violations[0][0])

        plain = profile == "plainfile"

        def still(cand):
            s2, _ = run_shadow(ns, fam, cand, plain=plain)
            return bool(s2.violations) and bool(set(s2.violations[0][0]) & tags)

        small = drive.shrink(ops, still) if len(ops) <= 60 else ops
        s2, _ = run_shadow(ns, fam, small, plain=plain)
        v = s2.violations[0] if s2.violations else sh.violations[0]
        res["violations"].append(dict(props=list(v[0]), msg=v[1], ops=small, fam=fam.short, extra=dict(plain=plain)))
    return res
