"""Seeded generators: JSON values (with a scalar alphabet chosen to collide under
`==`), invalid values with one planted defect, and online program generation
(the next operation is chosen looking at the real objects' current content so
that most operations hit existing keys / valid indices)."""
import random

from fakes import MISSING
from proto import Other

SCALARS = [
    None, True, False, 0, 1, -1, 2, 7, 2**70, -(2**63) - 1, 2**1024, -(10**400), 0.0, 1.0, 0.5, -1.5, 2.25, 1e100, 5e-324,
    "", "a", "b", "xyz", "é", "\n\"\\\t", "\U0001f600", "a b", "0",
]
KEYS = ["a", "b", "c", "k", "", "key", "é", "z9", "_u"]
DOT_KEYS = ["a.b", ".", "x.y.z"]


class ValueGen:
    def __init__(self, rng, allow_dot_keys=True):
        self.rng = rng
        self.allow_dot_keys = allow_dot_keys

    def scalar(self):
        return self.rng.choice(SCALARS)

    def key(self):
        r = self.rng.random()
        if self.allow_dot_keys and r < 0.08:
            return self.rng.choice(DOT_KEYS)
        return self.rng.choice(KEYS)

    def value(self, depth=3, p_container=0.45):
        r = self.rng.random()
        if depth <= 0 or r > p_container:
            return self.scalar()
        if self.rng.random() < 0.5:
            return self.dict(depth - 1)
        return self.list(depth - 1)

    def dict(self, depth=2, maxlen=3):
        n = self.rng.choice([0, 1, 1, 2, 2, 3][: maxlen + 3])
        d = {}
        for _ in range(n):
            d[self.key()] = self.value(depth)
        return d

    def list(self, depth=2, maxlen=4):
        n = self.rng.choice([0, 1, 2, 2, 3, 4])
        return [self.value(depth) for _ in range(min(n, maxlen))]

    def container(self, is_dict, depth=2):
        return self.dict(depth) if is_dict else self.list(depth)

    # --- invalid values: exactly one planted defect
    def invalid(self, kinds, depth=3):
        """Return (value, kind, planted_depth) with one invalid item of a kind in
        `kinds` ⊆ {'nonstr', 'other', 'dot'} at a random position."""
        kind = self.rng.choice(kinds)
        target_depth = self.rng.randint(0, depth)
        return self._plant(kind, target_depth), kind, target_depth

    def _bad_item(self, kind):
        """smallest value carrying the defect (a container unless kind == other)"""
        if kind == "other":
            return Other(self.rng.randint(0, 3))
        if kind == "nonstr":
            return {self.rng.choice([1, 0, -3, 42]): self.scalar()}
        if kind == "dot":
            return {self.rng.choice(DOT_KEYS): self.scalar()}
        raise ValueError(kind)

    def _plant(self, kind, d):
        if d <= 0:
            return self._bad_item(kind)
        inner = self._plant(kind, d - 1)
        if self.rng.random() < 0.5:
            xs = self.list(1)
            xs.insert(self.rng.randint(0, len(xs)), inner)
            return xs
        dd = self.dict(1)
        keys = [k for k in KEYS if k not in dd]
        dd[self.rng.choice(keys)] = inner
        items = list(dd.items())
        self.rng.shuffle(items)
        return dict(items)


def mutate_value(rng, vg, v, depth=0):
    """Rewrite `v` at a random position into a random other JSON value (so that every
    (old kind, new kind) pair occurs at every depth)."""
    if depth > 4 or rng.random() < 0.35 or not isinstance(v, (dict, list)) or not v:
        choice = rng.random()
        if isinstance(v, dict) and choice < 0.3:
            w = dict(v)
            w[vg.key()] = vg.value(2)
            return w
        if isinstance(v, list) and choice < 0.3:
            w = list(v)
            w.insert(rng.randint(0, len(w)), vg.value(2))
            return w
        if isinstance(v, (dict, list)) and v and choice < 0.5:
            if isinstance(v, dict):
                w = dict(v)
                del w[rng.choice(list(w))]
                return w
            w = list(v)
            del w[rng.randrange(len(w))]
            return w
        if depth == 0:
            # the root keeps its kind
            return vg.container(isinstance(v, dict), 2) if isinstance(v, (dict, list)) else vg.value(2)
        return vg.value(2)
    if isinstance(v, dict):
        k = rng.choice(list(v))
        w = dict(v)
        w[k] = mutate_value(rng, vg, v[k], depth + 1)
        return w
    i = rng.randrange(len(v))
    w = list(v)
    w[i] = mutate_value(rng, vg, v[i], depth + 1)
    return w


def reorder_keys(rng, v):
    if isinstance(v, dict):
        items = [(k, reorder_keys(rng, x)) for k, x in v.items()]
        rng.shuffle(items)
        return dict(items)
    if isinstance(v, list):
        return [reorder_keys(rng, x) for x in v]
    return v


def attached_path(ns, obj):
    """path of `obj` in its root's in-memory tree (identity walk), or None if detached"""
    root = obj._root if obj._root is not None else obj
    if obj is root:
        return ()

    def walk(node, path):
        data = node._data
        items = data.items() if isinstance(data, dict) else enumerate(data)
        for k, v in items:
            if v is obj:
                return path + (k,)
            if isinstance(v, ns.SyncedCollection):
                r = walk(v, path + (k,))
                if r is not None:
                    return r
        return None

    return walk(root, ())


DICT_MUT = ["dsetitem", "dsetitem", "dsetitem", "ddelitem", "dpop", "dpopitem", "dclear", "dupdate",
            "dupdate", "dsetdefault", "dreset"]
DICT_READ = ["dgetitem", "dgetitem", "dgetitem", "dcontains", "dlen", "diter", "dcall", "drepr", "dkeys",
             "dvalues", "ditems", "deq", "dne", "dget", "dget"]
LIST_MUT = ["lsetitem", "lsetitem", "ldelitem", "linsert", "lappend", "lappend", "lextend", "liadd",
            "lremove", "lclear", "lpop", "lreverse", "lreset", "lsetslice", "ldelslice"]
LIST_READ = ["lgetitem", "lgetitem", "lgetitem", "lgetslice", "lcontains", "llen", "liter", "lcall",
             "lrepr", "lreversed", "lindex", "lcount", "leq", "lne", "lcmp"]


class ProgGen:
    """Chooses the next structured op for a Runner."""

    def __init__(self, rng, runner, fam, p_read=0.35, p_miss=0.2, p_ext=0.0, p_invalid=0.0,
                 invalid_kinds=("nonstr", "other"), p_back=0.10):
        self.p_back = p_back      # probability that a mutation goes BACK to an earlier content (A-B-A)
        self.rng = rng
        self.r = runner
        self.fam = fam
        self.vg = ValueGen(rng, allow_dot_keys=not fam.attr)
        self.p_read = p_read
        self.p_miss = p_miss
        self.p_ext = p_ext
        self.p_invalid = p_invalid
        self.invalid_kinds = list(invalid_kinds)
        self.resources = []   # (res, is_dict) pairs the outside writer may rewrite
        self.roots_only = False

    def _is_dict(self, obj):
        return isinstance(obj, self.r.ns.SyncedDict)

    def pick_handle(self):
        roots = ["o%d" % i for i in range(len(self.r.root_objs()))]
        hs = list(range(len(self.r.handles)))
        if self.roots_only:
            return self.rng.choice(roots)
        if hs and self.rng.random() < 0.6:
            # mostly handles that are still attached (deeper ones preferred), sometimes stale ones
            if self.rng.random() < 0.85:
                paths = [(i, attached_path(self.r.ns, self.r.handles[i])) for i in hs[-12:]]
                att = [(i, p) for i, p in paths if p is not None]
                if att:
                    deep = [i for i, p in att if len(p) >= 2]
                    if deep and self.rng.random() < 0.5:
                        return "h%d" % self.rng.choice(deep)
                    return "h%d" % self.rng.choice(att)[0]
            return "h%d" % self.rng.choice(hs)
        return self.rng.choice(roots)

    def _value(self):
        if self.p_invalid and self.rng.random() < self.p_invalid:
            return self.vg.invalid(self.invalid_kinds, self.rng.choice([0, 1, 1, 2, 3]))[0]
        return self.vg.value(3, 0.55)

    def _key(self, cur, miss=None):
        miss = self.p_miss if miss is None else miss
        if cur and self.rng.random() > miss:
            return self.rng.choice(list(cur))
        return self.vg.key()

    def _mkey(self, cur, miss=None):
        """key argument of a mutator: in the profiles that plant forbidden data also a forbidden
        TOP-LEVEL key (non-string; dotted where the family forbids dots)"""
        if self.p_invalid and self.rng.random() < self.p_invalid * 0.6:
            kind = self.rng.choice([k for k in self.invalid_kinds if k in ("nonstr", "dot")] or ["nonstr"])
            return self.rng.choice([1, 0, -3, 42]) if kind == "nonstr" else self.rng.choice(DOT_KEYS)
        return self._key(cur, miss)

    def _index(self, n):
        if n and self.rng.random() > self.p_miss:
            i = self.rng.randrange(n)
            return i - n if self.rng.random() < 0.3 else i
        return self.rng.choice([n, n + 1, -n - 1, -n - 3, 99])

    def _slice(self, n):
        f = lambda: self.rng.choice([None, None, 0, 1, 2, -1, -2, n, n + 2, -n - 1])
        step = self.rng.choice([None, None, None, 1, 1, 2, -1, -2, 3])
        return slice(f(), f(), step)

    def _probe(self, cur_list):
        """a value to search for in a list: often one of its elements"""
        if cur_list and self.rng.random() > self.p_miss:
            return self.rng.choice(cur_list)
        return self.vg.value(1)

    def next_call(self):
        h = self.pick_handle()
        obj = self.r.target(h)
        cur = obj._to_base()
        read = self.rng.random() < self.p_read
        rng = self.rng
        # navigation: descend into a container child to obtain a deeper handle
        if rng.random() < 0.22:
            if isinstance(cur, dict):
                ks = [k for k, v in cur.items() if isinstance(v, (dict, list))]
                if ks:
                    return ("call", h, "dgetitem", rng.choice(ks))
            else:
                ks = [i for i, v in enumerate(cur) if isinstance(v, (dict, list))]
                if ks:
                    return ("call", h, "lgetitem", rng.choice(ks))
        # retyping: overwrite a number / boolean by the ==-equal value of ANOTHER JSON type
        # (1 / True / 1.0, 0 / False / 0.0): the net change of a program can be a type change only
        if not read and rng.random() < 0.07:
            items = list(cur.items()) if isinstance(cur, dict) else list(enumerate(cur))
            cands = [(k, v) for k, v in items if isinstance(v, (bool, int, float)) and v in (0, 1)]
            if cands:
                k, v = rng.choice(cands)
                alt = [x for x in ((True, 1, 1.0) if v == 1 else (False, 0, 0.0)) if type(x) is not type(v)]
                return ("call", h, "dsetitem" if isinstance(cur, dict) else "lsetitem", k, rng.choice(alt))
        # going BACK: a mutation issued earlier is issued again (after other handles have written
        # in between, the content returns to bytes it had before: A-B-A), or the node is reset to
        # a content it had earlier
        if not read and not self.p_invalid:
            past = getattr(self, "_past", None)
            if past is None:
                past = self._past = []
                self._snaps = {}
            import copy as _copy
            snaps = self._snaps.setdefault(h, [])
            if not snaps or snaps[-1] != cur:
                snaps.append(_copy.deepcopy(cur))
                del snaps[:-4]
            r = rng.random()
            if r < 0.6 * self.p_back and past:
                op = rng.choice(past[-8:])
                try:
                    tgt = self.r.target(op[1])
                    if self._is_dict(tgt) == op[2].startswith("d"):
                        return op
                except Exception:  # noqa: BLE001
                    pass
            elif r < self.p_back and len(snaps) > 1:
                old = rng.choice(snaps[:-1])
                if isinstance(old, dict) == isinstance(cur, dict):
                    return ("call", h, "dreset" if isinstance(cur, dict) else "lreset", _copy.deepcopy(old))
        if self._is_dict(obj):
            name = rng.choice(DICT_READ if read else DICT_MUT)
            if name == "dsetitem":
                op = ("call", h, name, self._mkey(cur, 0.5), self._value())
                if not self.p_invalid:
                    self._past.append(op)
                return op
            if name in ("ddelitem", "dgetitem", "dcontains"):
                return ("call", h, name, self._key(cur))
            if name in ("dpop", "dget"):
                return ("call", h, name, self._key(cur), rng.choice([None, 0, "dflt", [1]]))
            if name == "dsetdefault":
                return ("call", h, name, self._mkey(cur, 0.6), self._value())
            if name == "dupdate":
                form = rng.choice(["map", "map", "none", "pairs"])
                other = {self._mkey(cur, 0.5): self._value() for _ in range(rng.randint(0, 3))}
                kw = {}
                if rng.random() < 0.4:
                    kw = {k: self._value() for k in rng.sample(["a", "b", "kw", "z9"], rng.randint(1, 2))}
                if form == "none":
                    return ("call", h, name, None, kw or {"kw": 1})
                # pairs form is rendered by the runner from the mapping
                return ("call", h, name, other, kw) if form == "map" else ("call", h, "dupdate", other, kw)
            if name == "dreset":
                if self.p_invalid and rng.random() < self.p_invalid:
                    return ("call", h, name, {"k": self._value(), **self.vg.dict(1)})
                if rng.random() < 0.5:
                    return ("call", h, name, mutate_value(rng, self.vg, cur))
                return ("call", h, name, self.vg.dict(2))
            if name in ("deq", "dne"):
                return ("call", h, name, cur if rng.random() < 0.5 else self.vg.value(2))
            return ("call", h, name)
        n = len(cur)
        name = rng.choice(LIST_READ if read else LIST_MUT)
        if name == "lsetitem":
            return ("call", h, name, self._index(n), self._value())
        if name == "lsetslice":
            s = self._slice(n)
            if rng.random() < 0.8:
                v = [self._value() for _ in range(rng.randint(0, 3))]
            else:
                v = rng.choice(["ab", {"a": 1}, 5, None])
            return ("call", h, "lsetitem", s, v)
        if name == "ldelitem":
            return ("call", h, name, self._index(n))
        if name == "ldelslice":
            return ("call", h, "ldelitem", self._slice(n))
        if name == "linsert":
            return ("call", h, name, rng.choice([0, 1, n, n + 3, -1, -n - 2]), self._value())
        if name == "lappend":
            return ("call", h, name, self._value())
        if name in ("lextend", "liadd"):
            if rng.random() < 0.85:
                return ("call", h, name, [self._value() for _ in range(rng.randint(0, 3))])
            return ("call", h, name, rng.choice(["ab", {"a": 1, "b": 2}, 5, None]))
        if name in ("lremove", "lcontains", "lcount"):
            return ("call", h, name, self._probe(cur))
        if name == "lpop":
            return ("call", h, name, -1 if rng.random() < 0.4 else self._index(n))
        if name == "lreset":
            if self.p_invalid and rng.random() < self.p_invalid:
                return ("call", h, name, [self._value()] + self.vg.list(1))
            if rng.random() < 0.5:
                return ("call", h, name, mutate_value(rng, self.vg, cur))
            return ("call", h, name, self.vg.list(2))
        if name == "lgetitem":
            return ("call", h, name, self._index(n))
        if name == "lgetslice":
            return ("call", h, "lgetitem", self._slice(n))
        if name == "lindex":
            return ("call", h, name, self._probe(cur), rng.choice([0, 0, 1, -1, -n - 1, n, 2, -n, n + 1]),
                    rng.choice([None, None, n, -1, 1, 0, 0, 2, -n, n + 1, -n - 1]))
        if name in ("leq", "lne"):
            return ("call", h, name, cur if rng.random() < 0.5 else self.vg.value(2))
        if name == "lcmp":
            other = cur if rng.random() < 0.3 else mutate_value(rng, self.vg, cur) if rng.random() < 0.6 else self.vg.list(1)
            return ("call", h, name, rng.choice(["lt", "le", "gt", "ge"]), other)
        return ("call", h, name)

    def step(self):
        q = getattr(self, "_queue", None)
        if q:
            return q.pop(0)(self)
        if getattr(self, "p_synced", 0.04) and not self.p_invalid and self.rng.random() < getattr(self, "p_synced", 0.04):
            op = self.synced_arg_pair()
            if op is not None:
                return op
        if self.p_ext and self.resources and self.rng.random() < self.p_ext:
            res, is_dict = self.rng.choice(self.resources)
            return self.next_ext(res, is_dict)
        return self.next_call()

    def synced_arg_pair(self):
        """`target[k] = source` / `target.append(source)` ... with a LIVE synced collection as the
        value.  Two steps: first `source()` is called (a read: the model loads too and the result is
        the source's current content), then the mutation with the live object as its argument - the
        model is given the content."""
        from proto import Synced
        rng = self.rng
        cands = ["o%d" % i for i in range(len(self.r.root_objs()))]
        cands += ["h%d" % i for i in range(len(self.r.handles)) if attached_path(self.r.ns, self.r.handles[i]) is not None][-8:]
        if not cands:
            return None
        src = rng.choice(cands)
        try:
            sobj = self.r.target(src)
        except Exception:  # noqa: BLE001
            return None
        sdict = self._is_dict(sobj)

        def second(self):
            import copy
            h = self.pick_handle()
            obj = self.r.target(h)
            cur = obj._to_base()
            val = Synced(src, copy.deepcopy(self.r.target(src)._to_base()))
            if self._is_dict(obj):
                name = rng.choice(["dsetitem", "dsetitem", "dsetdefault"])
                return ("call", h, name, self._key(cur, 0.5), val)
            name = rng.choice(["lappend", "lsetitem", "linsert"] + ([] if sdict else ["lextend", "liadd"]))
            if name == "lsetitem":
                return ("call", h, name, self._index(len(cur)), val)
            if name == "linsert":
                return ("call", h, name, rng.choice([0, len(cur), -1]), val)
            return ("call", h, name, val)
        self._queue = [second]
        return ("call", src, "dcall" if sdict else "lcall")

    def next_ext(self, res, is_dict):
        """an outside rewrite of resource `res`"""
        cur = self.r.world.read(res)
        if getattr(self, "allow_extdel", False) and cur is not MISSING and self.rng.random() < 0.08:
            # the outside writer removes the resource (not in twin programs: with the resource gone
            # every object falls back on its own memory, which a buffered and an unbuffered history
            # legitimately leave different)
            return ("extdel", res)
        if getattr(self, "allow_badroot", False) and cur is not MISSING:
            # a document the root cannot merge - the other container kind at the root: loads raise until an outside writer puts a mergeable
            # document back, which it mostly does at its next turn; afterwards everything must work again
            if isinstance(cur, dict) != is_dict:
                if self.rng.random() < 0.75:
                    return ("ext", res, self.vg.container(is_dict, 3))
            elif self.rng.random() < 0.07:
                return ("ext", res, self.vg.container(not is_dict, 2))
        if cur is MISSING or self.rng.random() < 0.15:
            return ("ext", res, self.vg.container(is_dict, 3))
        if self.rng.random() < 0.25:
            # the same content with the keys of every dict in another order
            return ("ext", res, reorder_keys(self.rng, cur))
        return ("ext", res, mutate_value(self.rng, self.vg, cur))
