"""C10 fault injection: every operation x every point at which it can raise; afterwards no
lock may be held and the collections must still be usable."""
import json
import os
import traceback

import drive
import env
import sched as S
from fakes import MISSING, World
from proto import Other, apply_call


def ops_for(is_dict):
    if is_dict:
        muts = [("dsetitem", "k", 1), ("ddelitem", "a"), ("dpop", "a", None), ("dpopitem",), ("dclear",),
                ("dupdate", {"k": 2}, {}), ("dsetdefault", "k", 3), ("dreset", {"r": 1})]
        reads = [("dgetitem", "a"), ("dlen",), ("dcall",), ("dget", "a", None), ("diter",), ("deq", {"a": 1}),
                 ("diternext",), ("dkeys",), ("dvalues",), ("ditems",), ("dcontains", "a"), ("drepr",)]
        bad_value = [("dsetitem", "k", Other(1)), ("dsetitem", 5, 1), ("dupdate", {"k": Other(2)}, {}), ("dsetdefault", "zz", {3: 1}),
                     ("dreset", {"r": Other(1)}), ("dreset", [1])]
        missing = [("ddelitem", "nope"), ("dgetitem", "nope")]
        # a synced ROOT object on ANOTHER file as the operand: reading it inside the own context
        # must not acquire a second file lock (lock-order audit)
        muts += [("dupdate", PEER, {}), ("dsetitem", "peer", PEER), ("dsetdefault", "peer", PEER), ("dreset", PEER)]
        reads += [("deq", PEER)]
    else:
        muts = [("lsetitem", 0, 1), ("ldelitem", 0), ("linsert", 0, 5), ("lappend", 6), ("lextend", [7]), ("liadd", [8]),
                ("lremove", 1), ("lclear",), ("lpop", -1), ("lreverse",), ("lreset", [9])]
        reads = [("lgetitem", 0), ("llen",), ("lcall",), ("liter",), ("lcontains", 1), ("lcount", 1), ("leq", [1]),
                 ("liternext",), ("lreversed",), ("lindex", 1, 0, None), ("lrepr",), ("lcmp", "lt", [2])]
        bad_value = [("lappend", Other(1)), ("lsetitem", 0, {4: 1}), ("lextend", [Other(2)]), ("liadd", 5), ("linsert", 0, Other(3)),
                     ("lreset", [Other(1)]), ("lreset", {"a": 1})]
        missing = [("ldelitem", 99), ("lgetitem", 99), ("lremove", "absent"), ("lpop", 99), ("lsetitem", 99, 1)]
        muts += [("lappend", PEER), ("lextend", PEER), ("liadd", PEER), ("lsetitem", 0, PEER), ("lreset", PEER)]
        reads += [("leq", PEER), ("lcmp", "lt", PEER)]
    return muts, reads, bad_value, missing


PEER = ("@peer",)


def _held(classes):
    out = []
    for cls in classes:
        locks = [getattr(cls, "_cls_lock", None), getattr(cls, "_BUFFER_LOCK", None)] + list(getattr(cls, "_locks", {}).values())
        for lk in locks:
            if isinstance(lk, S.SLock) and (lk.owner is not None or lk.count != 0):
                out.append("%s (owner %s, count %d)" % (lk.role, lk.owner, lk.count))
    return out


FAULT_TO_FAIL = {"none": "none", "corrupt": "load", "wrongkind": "load", "body": "body", "save-io": "save", "save-ser": "save"}
MUT_NAMES = {"dsetitem", "ddelitem", "dpop", "dpopitem", "dclear", "dupdate", "dsetdefault", "dreset", "lsetitem", "ldelitem",
             "linsert", "lappend", "lextend", "liadd", "lremove", "lclear", "lpop", "lreverse", "lreset"}


def bracket_check(md, log, op, fault, nested, buffered, raised, buffered_class):
    """tie to SC/Conc.lean `Bracket.trace`: the outermost lock transitions of a mutator must be
    the model's for the same (buffered, no-load, failure point); all I/O and merges of the
    operation happen while its outermost lock is held.  Returns a problem string or None."""
    if op[0] not in MUT_NAMES or fault == "invalid":
        return None
    no_load = (not nested) and op[0] in ("dclear", "lclear", "dreset", "lreset")
    fail = FAULT_TO_FAIL[fault]
    if fail == "body" and not raised:
        fail = "none"
    if fail == "load" and no_load:
        fail = "none" if buffered == "no" else "none"
    if not raised:
        fail = "none"
    is_buf = buffered_class
    line = md.query("br %d %d %s" % (1 if is_buf else 0, 1 if no_load else 0, fail))
    want = [e for e in line[len("events: "):].split("; ") if e.startswith(("acq", "rel"))]
    got = []
    held = []
    for kind, info in log:
        if kind in ("acq", "rel"):
            role = "buffer" if str(info).startswith("buffer(") else "file" if str(info).startswith("file(") else str(info)
            if role.startswith("cls("):
                continue
            got.append("%s %s" % (kind, role))
            if kind == "acq":
                held.append(role)
            elif role in held:
                held.remove(role)
        elif kind in ("read", "write", "merge", "bufload", "bufsave"):
            guard = "buffer" if is_buf else "file"
            if guard not in held:
                return "%s of %s happens outside the %s lock" % (kind, op[0], guard)
    # in buffered mode a forced flush / further brackets may follow inside; compare the outer shape
    if got[: len(want) // 2] != want[: len(want) // 2] or got[-(len(want) // 2):] != want[-(len(want) // 2):]:
        return "lock events of %s (%s%s): real %s, model %s" % (op[0], fault, ", buffered" if is_buf else "", got, want)
    return None


def _role(info):
    i = str(info)
    return "buffer" if i.startswith("buffer(") else "file" if i.startswith("file(") else "cls" if i.startswith("cls(") else None


_ORDER_CACHE = {}


def order_check(md, log, what):
    """tie to `Locks.acquireOk` / C10_no_deadlock_audited: every non-reentrant acquisition observed
    on the real code must pass the model's audit for the roles of the locks held at that moment
    (hierarchy buffer < file < class registry).  Returns a problem string or None."""
    held = []          # [info, count]
    for kind, info in log:
        if kind not in ("acq", "rel") or _role(info) is None:
            continue
        ent = next((h for h in held if h[0] == info), None)
        if kind == "acq":
            if ent:
                ent[1] += 1
                continue
            roles = [_role(h[0]) for h in held]
            q = "lockorder %s / %s" % (" ".join(roles), _role(info))
            if q not in _ORDER_CACHE:
                _ORDER_CACHE[q] = md.query(q)
            if _ORDER_CACHE[q] != "order: ok":
                return "lock order: %s acquires %s while holding %s (%s; the hierarchy buffer < file < class lock assumed by C10_no_deadlock_audited does not hold on this path)" % (
                    what, info, ", ".join(str(h[0]) for h in held), _ORDER_CACHE[q])
            held.append([info, 1])
        elif ent:
            ent[1] -= 1
            if ent[1] == 0:
                held.remove(ent)
    return None


def unit_c10_faults(args):
    fam_index, is_dict, nested, buffered, seed = args
    ns = env.load()
    fam = ns.families[fam_index]
    res = dict(kind="oracle", fam=fam_index, seed=seed, profile="c10/%s/%s/%s" % ("dict" if is_dict else "list", "child" if nested else "root", buffered),
               steps=0, stats={}, violations=[])
    classes = list(fam.classes)
    muts, reads, bad_value, missing = ops_for(is_dict)
    if buffered != "no":
        # inside a buffered context the first load of a file takes that file's lock (by design:
        # `_load_from_buffer` merges under `self._thread_lock`) - always with the class-wide buffer
        # lock held, which gates every such nesting; the rank-based audit does not model gate
        # locks, so synced operands on another file are audited in unbuffered mode only
        muts = [op for op in muts if not any(a is PEER for a in op[1:])]
        reads = [op for op in reads if not any(a is PEER for a in op[1:])]
    cases = []
    for op in muts + reads:
        for fault in ("corrupt", "wrongkind", "save-io", "save-ser"):
            if fault.startswith("save") and op in reads:
                continue
            cases.append((op, fault))
    for op in bad_value:
        cases.append((op, "invalid"))
    for op in missing:
        cases.append((op, "body"))
    n = 0
    errors_seen = 0
    try:
        cases = [(op, "none") for op in muts + reads] + cases
        import suites
        md = suites.model_driver(ns)
        S.install_event_hooks(ns)
        tie_problem = None
        for op, fault in cases:
            drive.reset_class_state(ns)
            S.instrument_locks(ns, classes)
            try:
                with drive.Scratch() as tmp:
                    world = World(ns, fam, tmp)
                    init = ({"a": 1, "c": {"a": 1, "x": [1]}} if is_dict else [1, [1, 2], 3]) if not nested else \
                        ({"c": {"a": 1, "z": 2}} if is_dict else {"c": [1, [1], 3]})
                    root_is_dict = is_dict if not nested else True
                    world.write(0, init)
                    root = world.open(root_is_dict, 0)
                    tgt = root["c"] if nested else root
                    other = world.open(root_is_dict, 0)
                    world.write(1, {"p": 1, "q": {"r": 2}} if is_dict else [5, [6], 7])
                    peer = world.open(is_dict, 1)
                    S.name_locks(classes)
                    cls = type(root)
                    ctx = None
                    if buffered != "no":
                        ctx = cls.buffer_backend(0) if buffered == "cap0" else cls.buffer_backend()
                        ctx.__enter__()
                        if fault in ("corrupt", "wrongkind") and buffered == "ctx":
                            pass
                    orig_save = ns.json_mod.JSONCollection._save_to_resource
                    orig_dumps = ns.json_mod.json.dumps
                    if fault == "corrupt":
                        with open(world.path(0), "wb") as f:
                            f.write(b'{"broken": ')
                    elif fault == "wrongkind":
                        world.write(0, [1, 2] if root_is_dict else {"a": 1})
                    elif fault == "save-io":
                        def boom(self):
                            raise OSError(28, "No space left on device")
                        ns.json_mod.JSONCollection._save_to_resource = boom
                    elif fault == "save-ser":
                        def bad_dumps(*a, **kw):
                            raise TypeError("not serialisable")
                        ns.json_mod.json.dumps = bad_dumps
                    raised = None
                    S.EVENT_LOG[0] = []
                    try:
                        apply_call(tgt, op[0], [peer if a is PEER else a for a in op[1:]])
                    except Exception as e:  # noqa: BLE001
                        raised = type(e).__name__
                    finally:
                        ns.json_mod.JSONCollection._save_to_resource = orig_save
                        ns.json_mod.json.dumps = orig_dumps
                        oplog = S.EVENT_LOG[0]
                        S.EVENT_LOG[0] = None
                    if tie_problem is None and not any(a is PEER for a in op[1:]):
                        # (with a synced operand the operand's own load - another file, before or
                        # inside the context - is not part of the operation's bracket)
                        tie_problem = bracket_check(md, oplog, op, fault, nested, buffered, raised, fam.buffered is not None)
                    if tie_problem is None:
                        tie_problem = order_check(md, oplog, "%s%r (%s)" % (op[0], tuple(op[1:]), fault))
                    n += 1
                    if raised:
                        errors_seen += 1
                    held = _held(classes)
                    if held:
                        res["violations"].append(dict(
                            props=["C10"], msg="after %s%r %s (%s%s) a lock is still held: %s" % (
                                op[0], tuple(op[1:]), "raised " + raised if raised else "returned", fault,
                                ", buffered" if buffered != "no" else "", "; ".join(held)),
                            fam=fam.short, kind="c10", sig="C10:leak", ops=None,
                            extra=dict(fam_index=fam_index, is_dict=is_dict, nested=nested, buffered=buffered, op=repr(op), fault=fault)))
                        break
                    # the collections stay usable: repair the file, leave contexts, write through another object
                    if ctx is not None:
                        try:
                            cls._buffer_context.__exit__(None, None, None)
                        except Exception:  # noqa: BLE001
                            pass
                    world.write(0, init)
                    try:
                        if root_is_dict:
                            other["after"] = 1
                        else:
                            other.append("after")
                        ok = world.read(0) == other()
                    except Exception as e:  # noqa: BLE001
                        ok = False
                        raised = "follow-up %s" % type(e).__name__
                    held = _held(classes)
                    if not ok or held:
                        res["violations"].append(dict(
                            props=["C10"], msg="after %s%r with fault %s another object bound to the file is not usable (%s; held: %s)" % (
                                op[0], tuple(op[1:]), fault, raised, held),
                            fam=fam.short, kind="c10", sig="C10:unusable", ops=None,
                            extra=dict(fam_index=fam_index, is_dict=is_dict, nested=nested, buffered=buffered, op=repr(op), fault=fault)))
                        break
            finally:
                S.restore_locks(ns, classes)
                drive.reset_class_state(ns)
        res["steps"] = n
        res["stats"] = {"fault_cases": n, "raised": errors_seen}
        if tie_problem:
            res["tie_problem"] = tie_problem
    except Exception:  # noqa: BLE001
        return dict(kind="oracle", fam=fam_index, seed=seed, profile="c10", crash=traceback.format_exc())
    return res


def unit_c10_filename(args):
    """pointing one object at a different file must not break objects bound to the old (or new) one"""
    fam_index, seed = args
    ns = env.load()
    fam = ns.families[fam_index]
    res = dict(kind="oracle", fam=fam_index, seed=seed, profile="c10/filename", steps=1, stats={"cases": 1}, violations=[])
    classes = list(fam.classes)
    try:
        drive.reset_class_state(ns)
        import suites
        md = suites.model_driver(ns)
        S.install_event_hooks(ns)
        S.instrument_locks(ns, classes)
        with drive.Scratch() as tmp:
            world = World(ns, fam, tmp)
            world.write(0, {"a": 1})
            world.write(1, {"b": 2})
            o1, o2 = world.open(True, 0), world.open(True, 0)
            o3 = world.open(True, 1)
            S.name_locks(classes)
            problems = []
            S.EVENT_LOG[0] = []
            try:
                o1.filename = world.path(1)
                S.name_locks(classes)
                o2["x"] = 1
                o1["y"] = 2
                o3["z"] = 3
                if world.read(0) != {"a": 1, "x": 1}:
                    problems.append("old file holds %r" % (world.read(0),))
                if world.read(1) != {"b": 2, "y": 2, "z": 3}:
                    problems.append("new file holds %r" % (world.read(1),))
                o1.filename = world.path(2)
                S.name_locks(classes)
                o1["q"] = {"nested": {"k": 1}}
                o3["w"] = 1
                o2["v"] = [{"n": 1}]
            except Exception as e:  # noqa: BLE001
                problems.append("raised %s: %s" % (type(e).__name__, e))
            finally:
                oplog = S.EVENT_LOG[0] or []
                S.EVENT_LOG[0] = None
            tp = order_check(md, oplog, "`obj.filename = other` followed by writes")
            if tp:
                res["tie_problem"] = tp
            held = _held(classes)
            if held:
                problems.append("locks still held: %s" % "; ".join(held))
            if problems:
                res["violations"].append(dict(props=["C10"], msg="after `obj.filename = other`: " + "; ".join(problems), fam=fam.short,
                                              kind="c10f", sig="C10:filename", ops=None, extra=dict(fam_index=fam_index)))
        S.restore_locks(ns, classes)
        drive.reset_class_state(ns)
    except Exception:  # noqa: BLE001
        try:
            S.restore_locks(ns, classes)
        except Exception:  # noqa: BLE001
            pass
        return dict(kind="oracle", fam=fam_index, seed=seed, profile="c10/filename", crash=traceback.format_exc())
    return res
