"""Generation of programs for buffered classes: operations interleaved with
well-nested enter/exit of obj.buffered and Class.buffer_backend(capacity)."""
from fakes import MISSING
from gen import ProgGen

SER_CAPS = [0, 5, 20, 60, 150, 400, 10**6]
MEM_CAPS = [0, 1, 1, 2, 3, 1000]


class BufGen(ProgGen):
    def __init__(self, rng, runner, fam, p_ctx=0.2, p_cap=0.35, joint=False, p_fail=0.0, **kw):
        super().__init__(rng, runner, fam, **kw)
        self.p_fail = p_fail        # probability of switching write failures (OSError) on/off
        self.p_synced = 0          # (live synced arguments: unbuffered programs only)
        self.p_drop = 0.5                     # probability of dropping unused objects before the closing exits
        self.failing = []
        self.p_ctx = p_ctx
        self.p_cap = p_cap
        self.joint = joint          # object contexts are entered / exited for all objects of a file together
        self.stack = []             # open contexts, innermost last: ("c",) | ("o", k) | ("f", res, [k...])
        self.pending = []           # ops queued by a joint enter/exit

    def caps(self):
        return SER_CAPS if self.fam.buffered == "serialized" else MEM_CAPS

    def objs_on(self, res):
        return [i for i, o in enumerate(self.r.root_objs()) if self.obj_res[i] == res]

    def ctx_op(self):
        rng = self.rng
        if self.stack and rng.random() < 0.42:
            top = self.stack.pop()
            if top[0] == "c":
                return ("cexit",)
            if top[0] == "o":
                return ("exit", top[1])
            ks = list(top[2])
            rng.shuffle(ks)
            self.pending = [("exit", k) for k in ks[1:]]
            return ("exit", ks[0])
        r = rng.random()
        if r < 0.06 and not self.stack_has_cap():
            return ("setcap", rng.choice(self.caps()))
        if r < 0.5:
            cap = rng.choice(self.caps()) if rng.random() < self.p_cap else None
            self.stack.append(("c",))
            return ("center", cap)
        if self.joint:
            res = rng.choice(self.resources)[0]
            ks = self.objs_on(res)
            self.stack.append(("f", res, ks))
            self.pending = [("enter", k) for k in ks[1:]]
            return ("enter", ks[0])
        k = rng.randrange(len(self.r.root_objs()))
        ks = self.objs_on(self.obj_res[k])
        if self.fam.buffered == "memory" and len(ks) > 1:
            # Two objects on one file in DIFFERENT buffered states are unsupported by the library
            # (and outside every claim, DESIGN section 5).  Under the shared-memory strategy the
            # objects share nested collections, whose saves go through the object that created
            # them - which the tree model does not track - so there the object contexts of one
            # file are always entered and left together.
            self.stack.append(("f", self.obj_res[k], ks))
            self.pending = [("enter", j) for j in ks[1:]]
            return ("enter", ks[0])
        self.stack.append(("o", k))
        return ("enter", k)

    def stack_has_cap(self):
        return False

    ELEM_EQ_OPS = {"lremove", "lindex", "lcount", "lcontains", "lrepr", "drepr"}

    def next_call(self):
        # Under shared-memory aliasing the children of one object's data can belong to another
        # root (the objects keep sharing one container after a flush); comparing them
        # (`child == x`) or printing them (`repr`) loads that other root mid-operation, which the
        # model does not express.  Avoid such reads against container children there.
        for _ in range(20):
            op = super().next_call()
            if self.fam.buffered == "memory" and len(self.r.root_objs()) > len(self.resources) \
                    and op[2] in self.ELEM_EQ_OPS:
                cur = self.r.target(op[1])._to_base()
                vals = cur.values() if isinstance(cur, dict) else cur
                if any(isinstance(x, (dict, list)) for x in vals):
                    continue
            return op
        return op

    def step(self):
        if self.pending:
            return self.pending.pop(0)
        if self.p_fail and self.rng.random() < self.p_fail:
            if self.failing and self.rng.random() < 0.6:
                self.failing = []
            else:
                rs = [r for r, _ in self.resources]
                self.failing = sorted(self.rng.sample(rs, self.rng.randint(1, len(rs))))
            return ("fail", list(self.failing))
        if len(self.stack) < 4 and self.rng.random() < self.p_ctx or (self.stack and self.rng.random() < 0.04):
            return self.ctx_op()
        return super().step()

    def closing(self):
        ops = list(self.pending)
        self.pending = []
        if self.failing and self.rng.random() < 0.5:
            self.failing = []
            ops.append(("fail", []))
        if self.stack and self.rng.random() < self.p_drop:
            # before the remaining contexts are left, the program lets go of objects it no longer
            # uses (not of those whose own `buffered` context is still to be left)
            busy = set()
            for top in self.stack:
                if top[0] == "o":
                    busy.add(top[1])
                elif top[0] == "f":
                    busy.update(top[2])
            free = [i for i in range(len(self.r.root_objs())) if i not in busy]
            self.rng.shuffle(free)
            for k in free[:self.rng.randint(1, max(1, len(free)))]:
                ops.append(("drop", k, list(self.failing)))
        while self.stack:
            top = self.stack.pop()
            if top[0] == "c":
                ops.append(("cexit",))
            elif top[0] == "o":
                ops.append(("exit", top[1]))
            else:
                ops += [("exit", k) for k in reversed(top[2])]
        return ops


def buf_setup(rng, g, n_res=None, objs_per_res=None):
    """initial ops: 1-3 resources, 1-2 objects each, all of one kind (one buffered class)"""
    is_dict = rng.random() < 0.6
    n_res = n_res or rng.choice([1, 1, 2, 3])
    ops = []
    g.resources = []
    g.obj_res = []
    for res in range(n_res):
        if rng.random() < 0.7:
            ops.append(("ext", res, g.vg.container(is_dict, 2)))
        for _ in range(objs_per_res or rng.choice([1, 1, 2])):
            # now and then the constructor is given data (validated, held in memory, not saved)
            # (only where the caller asks for it - the model correspondence: with two objects on a
            # missing file, unsaved constructor data reaches the other object through the buffer,
            # a use the properties do not cover)
            data = g.vg.container(is_dict, 2) if getattr(g, "ctor_data", False) and rng.random() < 0.2 else MISSING
            ops.append(("open", is_dict, res, data))
            g.obj_res.append(res)
        g.resources.append((res, is_dict))
    return is_dict, ops
