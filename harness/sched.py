"""Deterministic scheduler for the real, multi-threaded library code.

Real threads, but only the thread holding the baton runs.  Scheduling points are
  * every acquire / release of an instrumented lock (the library's RLocks are replaced by
    `SLock`, which never blocks in the OS: a thread that cannot take a lock is parked and
    another one is scheduled - so deadlocks are detected, not suffered),
  * named events reported by wrappers around the library's I/O and suspend-counter methods
    (`install_event_hooks`), and
  * optionally every executed line of library code (`line_level=True`, via sys.settrace).
A *chooser* decides at each point which enabled thread continues.
No source hooks: everything is rebound from here (module globals `RLock`, class attributes).
"""
import collections
import os
import sys
import threading


class DeadlockAbort(BaseException):
    """raised inside parked threads to unwind them after a deadlock was recorded"""


class Sched:
    def __init__(self, chooser, line_level=False, pkg_dir=None, max_points=200000):
        self.chooser = chooser
        self.line_level = line_level
        self.pkg_dir = pkg_dir
        self.threads = {}          # tid -> dict(sem, status, blocked_on, fn, exc)
        self.by_ident = {}
        self.current = None
        self.points = 0
        self.trace = []            # (point no, tid, kind, info)
        self.deadlock = None       # description when detected
        self.locks = []
        self.done_evt = threading.Event()
        self.max_points = max_points
        self.aborted = False
        self.record = True

    # ---- thread management
    def me(self):
        return self.by_ident.get(threading.get_ident())

    def spawn(self, tid, fn):
        st = dict(sem=threading.Semaphore(0), status="ready", blocked_on=None, fn=fn, exc=None, thread=None)
        self.threads[tid] = st

        def body():
            self.by_ident[threading.get_ident()] = tid
            st["sem"].acquire()
            try:
                if self.aborted:
                    raise DeadlockAbort()
                if self.line_level:
                    sys.settrace(self._tracer)
                fn()
            except DeadlockAbort:
                pass
            except BaseException as e:  # noqa: BLE001
                st["exc"] = e
            finally:
                sys.settrace(None)
                st["status"] = "done"
                self._finish(tid)
        t = threading.Thread(target=body, daemon=True)
        st["thread"] = t
        t.start()

    def run(self, first=None):
        """start the threads under the scheduler and wait for all of them"""
        order = sorted(self.threads)
        if not order:
            return
        start = first if first is not None else self.chooser.choose(self, "start", None, order, None)
        self.current = start
        self.threads[start]["sem"].release()
        self.done_evt.wait(timeout=20)
        if not self.done_evt.is_set():
            self.deadlock = self.deadlock or "scheduler timeout (threads stuck outside scheduling points)"
            self.aborted = True
            for st in self.threads.values():
                st["sem"].release()
        for st in self.threads.values():
            st["thread"].join(timeout=5)

    def enabled(self):
        out = []
        for tid in sorted(self.threads):
            st = self.threads[tid]
            if st["status"] == "ready":
                out.append(tid)
            elif st["status"] == "blocked":
                lk = st["blocked_on"]
                if lk.owner is None or lk.owner == tid:
                    out.append(tid)
        return out

    def _switch(self, me, nxt):
        if nxt == me:
            return
        self.current = nxt
        self.threads[nxt]["sem"].release()
        self.threads[me]["sem"].acquire()
        if self.aborted:
            raise DeadlockAbort()

    def _finish(self, tid):
        en = self.enabled()
        if en:
            nxt = self.chooser.choose(self, "end", None, en, None)
            self.current = nxt
            self.threads[nxt]["sem"].release()
            return
        if all(st["status"] == "done" for st in self.threads.values()):
            self.done_evt.set()
            return
        # somebody is blocked for ever
        self._declare_deadlock()

    def _declare_deadlock(self):
        if self.deadlock is None:
            waits = ["T%s waits for %s held by T%s" % (t, st["blocked_on"].role, st["blocked_on"].owner)
                     for t, st in sorted(self.threads.items()) if st["status"] == "blocked"]
            self.deadlock = "; ".join(waits) or "no enabled thread"
        self.aborted = True
        for st in self.threads.values():
            if st["status"] != "done":
                st["sem"].release()
        if all(st["status"] == "done" for st in self.threads.values()):
            self.done_evt.set()

    # ---- scheduling points
    def point(self, kind, info=None):
        me = self.me()
        if me is None or self.aborted:
            return
        if me != self.current:
            return
        n = self.points
        self.points += 1
        if self.points > self.max_points:
            self.deadlock = self.deadlock or "livelock: more than %d scheduling points" % self.max_points
            self._declare_deadlock()
            raise DeadlockAbort()
        if self.record:
            self.trace.append((n, me, kind, info))
        en = self.enabled()
        if me not in en:
            en = [me] + en
        nxt = self.chooser.choose(self, kind, info, en, me)
        self._switch(me, nxt)

    def block(self, lock):
        """current thread cannot take `lock`: park it and run somebody else"""
        me = self.me()
        st = self.threads[me]
        st["status"] = "blocked"
        st["blocked_on"] = lock
        while True:
            en = [t for t in self.enabled() if t != me or lock.owner in (None, me)]
            if lock.owner in (None, me):
                break
            others = [t for t in en if t != me]
            if not others:
                self._declare_deadlock()
                raise DeadlockAbort()
            nxt = self.chooser.choose(self, "blocked", lock.role, others, None)
            self._switch(me, nxt)
        st["status"] = "ready"
        st["blocked_on"] = None

    # ---- line-level tracing
    def _tracer(self, frame, event, arg):
        fn = frame.f_code.co_filename
        if not fn.startswith(self.pkg_dir):
            return None
        return self._local

    def _local(self, frame, event, arg):
        if event == "line":
            self.point("line", (os.path.basename(frame.f_code.co_filename), frame.f_lineno, frame.f_code.co_name))
        return self._local


class SLock:
    """re-entrant lock cooperating with the scheduler"""

    def __init__(self, sched_ref):
        self._s = sched_ref
        self.owner = None
        self.count = 0
        self.role = "lock"
        sched = sched_ref()
        if sched is not None:
            sched.locks.append(self)

    def _tid(self):
        s = self._s()
        t = s.me() if s is not None else None
        return t if t is not None else "main"

    def acquire(self, blocking=True, timeout=-1):
        s = self._s()
        me = self._tid()
        if s is not None and me != "main":
            s.point("acq", self.role)
            if self.owner not in (None, me):
                s.block(self)
        elif self.owner not in (None, me):
            raise RuntimeError("main thread would block on %s held by T%s" % (self.role, self.owner))
        self.owner = me
        self.count += 1
        if self.count == 1:
            log_event("acq", self.role)
        return True

    def release(self):
        me = self._tid()
        if self.owner != me:
            raise RuntimeError("cannot release un-acquired lock")
        s = self._s()
        if s is not None and me != "main" and not s.aborted:
            # the scheduling point comes BEFORE the lock is given up: what follows the release
            # (returning the result to the caller) is then atomic with it
            s.point("rel", self.role)
        self.count -= 1
        if self.count == 0:
            self.owner = None
            log_event("rel", self.role)

    __enter__ = acquire

    def __exit__(self, *a):
        self.release()

    def _is_owned(self):
        return self.owner == self._tid()


_current = [None]
EVENT_LOG = [None]       # when a list: lock transitions and hooked events of unscheduled (main-thread) runs


def log_event(kind, info=None):
    if EVENT_LOG[0] is not None:
        EVENT_LOG[0].append((kind, info))


def current_sched():
    return _current[0]


def slock_factory():
    return SLock(current_sched)


def instrument_locks(ns, classes):
    """replace every lock of `classes` by SLocks (fresh, unowned) and the modules' RLock global"""
    import importlib
    mods = [importlib.import_module("synced_collections.data_types.synced_collection"),
            importlib.import_module("synced_collections.buffers.file_buffered_collection"),
            ns.json_mod]
    for m in mods:
        if hasattr(m, "RLock"):
            m.RLock = slock_factory
    for cls in classes:
        if getattr(cls, "_supports_threading", False):
            cls._cls_lock = slock_factory()
            cls._cls_lock.role = "cls(%s)" % cls.__name__
            cls._locks = {}
            if hasattr(cls, "_BUFFER_LOCK"):
                cls._BUFFER_LOCK = slock_factory()
                cls._BUFFER_LOCK.role = "buffer(%s)" % cls.__name__


def name_locks(classes):
    for cls in classes:
        for key, lk in getattr(cls, "_locks", {}).items():
            if isinstance(lk, SLock):
                lk.role = "file(%s)" % os.path.basename(str(key))


def restore_locks(ns, classes):
    import importlib
    from threading import RLock
    mods = [importlib.import_module("synced_collections.data_types.synced_collection"),
            importlib.import_module("synced_collections.buffers.file_buffered_collection"),
            ns.json_mod]
    for m in mods:
        if hasattr(m, "RLock"):
            m.RLock = RLock
    for cls in classes:
        if getattr(cls, "_supports_threading", False):
            cls._cls_lock = RLock()
            cls._locks = {}
            if hasattr(cls, "_BUFFER_LOCK"):
                cls._BUFFER_LOCK = RLock()


# ------------------------------------------------------------------ event hooks

_hooked = {}


def install_event_hooks(ns):
    """wrap the library's I/O and suspend-counter methods so that they are scheduling points
    and show up in the trace (idempotent)"""
    if _hooked:
        return
    utils = ns.utils

    def wrap(owner, name, kind, info_fn=None, after=False):
        orig = owner.__dict__[name]
        raw = orig.__func__ if isinstance(orig, (classmethod, staticmethod)) else orig
        is_cm = isinstance(orig, classmethod)

        def wrapper(self, *a, **kw):
            s = current_sched()
            if s is not None:
                s.point(kind, info_fn(self) if info_fn else None)
            else:
                log_event(kind, info_fn(self) if info_fn else None)
            r = raw(self, *a, **kw)
            if after and s is not None:
                s.point(kind + "/done", info_fn(self) if info_fn else None)
            return r
        wrapper.__name__ = name
        _hooked[(owner, name)] = orig
        setattr(owner, name, classmethod(wrapper) if is_cm else wrapper)

    fname = lambda o: os.path.basename(str(getattr(o, "_filename", "?")))  # noqa: E731
    J = ns.json_mod.JSONCollection
    wrap(J, "_load_from_resource", "read", fname)
    wrap(J, "_save_to_resource", "write", fname, after=True)
    CC = utils._CounterContext
    wrap(CC, "__enter__", "ctr+")
    wrap(CC, "__exit__", "ctr-")
    import importlib
    fb = importlib.import_module("synced_collections.buffers.file_buffered_collection").FileBufferedCollection
    ser = importlib.import_module("synced_collections.buffers.serialized_file_buffered_collection").SerializedFileBufferedCollection
    mem = importlib.import_module("synced_collections.buffers.memory_buffered_collection").SharedMemoryFileBufferedCollection
    for cls in (ser, mem):
        for nm, kind in (("_load_from_buffer", "bufload"), ("_save_to_buffer", "bufsave"), ("_flush", "flush")):
            if nm in cls.__dict__:
                wrap(cls, nm, kind, fname)
    wrap(fb, "_flush_buffer", "flushall")
    for cls in (ns.SyncedDict, ns.SyncedList):
        wrap(cls, "_update", "merge")
    # file operations of the JSON backend: opening for writing, writing, closing, replacing
    jm = ns.json_mod
    real_open = open

    class _F:
        def __init__(self, f):
            object.__setattr__(self, "_f", f)

        def write(self, data):
            s = current_sched()
            if s is not None:
                s.point("fs-write")
            return self._f.write(data)

        def __enter__(self):
            self._f.__enter__()
            return self

        def __exit__(self, *a):
            s = current_sched()
            if s is not None:
                s.point("fs-close")
            return self._f.__exit__(*a)

        def __getattr__(self, name):
            return getattr(self._f, name)

    def sopen(file, mode="r", *a, **kw):
        s = current_sched()
        if s is None or not any(c in mode for c in "wax+"):
            return real_open(file, mode, *a, **kw)
        s.point("fs-open")
        f = real_open(file, mode, *a, **kw)
        s.point("fs-opened")
        return _F(f)

    class _Os:
        def __getattr__(self, name):
            return getattr(os, name)

        def replace(self, *a, **kw):
            s = current_sched()
            if s is not None:
                s.point("fs-replace")
            return os.replace(*a, **kw)

    _hooked[("jm", "open")] = None
    jm.open = sopen
    jm.os = _Os()


def remove_event_hooks():
    for (owner, name), orig in list(_hooked.items()):
        if owner == "jm":
            continue
        setattr(owner, name, orig)
    _hooked.clear()


# ------------------------------------------------------------------ choosers

class Forced:
    """Run the current thread until a forced switch: `switches` maps point number -> tid.
    When the current thread ends or blocks, the lowest enabled tid continues (or `fallback`
    order).  Records, for every point, which other threads could have been chosen."""

    def __init__(self, switches=None, start=None, kinds=None):
        self.switches = dict(switches or {})
        self.start = start
        self.kinds = kinds         # None, or the kinds of points at which alternatives are explored
        self.alternatives = []     # (point no, [other enabled tids])

    def choose(self, sched, kind, info, enabled, me):
        if kind == "start":
            return self.start if self.start in enabled else enabled[0]
        if me is None:
            return enabled[0]
        n = sched.points - 1
        others = [t for t in enabled if t != me]
        if others and (self.kinds is None or kind in self.kinds):
            self.alternatives.append((n, others))
        want = self.switches.get(n)
        if want is not None and want in enabled:
            return want
        return me


class RandomSwitch:
    """switch to a random other thread at `k` randomly chosen points out of an estimated
    `n_points` (PCT-like); otherwise keep running the current thread"""

    def __init__(self, rng, n_points, k):
        self.rng = rng
        self.at = set(rng.sample(range(max(n_points, 1)), min(k, max(n_points, 1))))

    def choose(self, sched, kind, info, enabled, me):
        if kind == "start" or me is None:
            return self.rng.choice(enabled)
        n = sched.points - 1
        others = [t for t in enabled if t != me]
        if others and n in self.at:
            return self.rng.choice(others)
        return me


def explore(run_once, bound, budget, kinds=None):
    """Preemption-bounded enumeration.  `run_once(chooser)` executes the program and returns an
    arbitrary result; yields (switches, start, result) for every schedule with at most `bound`
    forced switches (until `budget` runs were made)."""
    runs = 0
    stack = [((), None)]
    seen = set()
    while stack and runs < budget:
        switches, start = stack.pop()
        key = (switches, start)
        if key in seen:
            continue
        seen.add(key)
        ch = Forced(dict(switches), start, kinds)
        res = run_once(ch)
        runs += 1
        yield switches, start, res
        if len(switches) < bound:
            last = switches[-1][0] if switches else -1
            for n, others in ch.alternatives:
                if n <= last:
                    continue
                for t in others:
                    stack.append((switches + ((n, t),), start))
        if not switches and start is None:
            # also start with the other threads
            for t in getattr(ch, "all_tids", []):
                stack.append(((), t))
