"""Buffered change detection must not depend on a weak fingerprint: the serialized buffer decides
whether to write a file at the flush by comparing a hash of the buffered bytes with the hash taken
when the file entered the buffer.  The model assumes that hash is collision-free (md5); this unit
looks for a concrete lost write with value pairs that collide under the fingerprints a cheaper
implementation would use: equal length, byte sum / xor (permutations), Adler-32 / Fletcher (+1,-2,+1
on adjacent bytes), first/last bytes and length.  (CRC-32 does not collide on short same-length inputs
and is not covered.)"""
import json
import os
import shutil
import tempfile

import env

CLASSES = ["BufferedJSONDict", "BufferedJSONAttrDict", "MemoryBufferedJSONDict", "BufferedJSONList", "MemoryBufferedJSONList"]

def pairs():
    ps = [(121, 202), ("aca", "bab"), ([1, 2, 1], [2, 0, 2]),           # Adler-32 / Fletcher
          ("ab", "ba"), (12, 21), ([1, 2], [2, 1]), ({"p": 1, "q": 2}, {"p": 2, "q": 1}),   # sum / xor / length
          (1, True), (15, 51), ("x1y", "x2y"),        # same length, same ends
          ([0, 0], [0, 1]), (None, True)]
    return ps


def run_case(ns, cname, ctx, old, new):
    J = ns.json_mod
    cls = getattr(J, cname)
    is_dict = "Dict" in cname
    d = tempfile.mkdtemp(prefix="scverif_wh_")
    try:
        p = os.path.join(d, "w.json")
        doc0 = {"a": old, "z": "keep"} if is_dict else [old, "keep"]
        doc1 = {"a": new, "z": "keep"} if is_dict else [new, "keep"]
        with open(p, "w") as f:
            json.dump(doc0, f)
        x = cls(filename=p)
        k = "a" if is_dict else 0
        if ctx == "obj":
            with x.buffered:
                _ = x[k]
                x[k] = new
                seen = x[k]
        else:
            with cls.buffer_backend():
                _ = x[k]
                x[k] = new
                seen = x[k]
        with open(p) as f:
            on_disk = json.load(f)
        fresh = cls(filename=p)()
        msgs = []
        from oracles import strict_eq
        if not strict_eq(on_disk, doc1) or not strict_eq(fresh, doc1):
            msgs.append("%s, %s: file holds %r; inside the context x[%r] = %r was accepted (read back %r); after the exit the file holds %r "
                        "and a fresh object reads %r - the write was lost" % (
                            cname, "with x.buffered" if ctx == "obj" else "with %s.buffer_backend()" % cname, doc0, k, new, seen, on_disk, fresh))
        return msgs
    finally:
        shutil.rmtree(d, ignore_errors=True)


def unit_weak_hash(args):
    ci, seed = args
    ns = env.load()
    cname = CLASSES[ci]
    res = dict(kind="oracle", fam=0, seed=seed, profile="weakhash/" + cname, steps=0, stats={"pairs": 0}, violations=[])
    import drive
    drive.reset_class_state(ns)
    for ctx in ("obj", "backend"):
        for a, b in pairs():
            for old, new in ((a, b), (b, a)):
                res["stats"]["pairs"] += 1
                res["steps"] += 1
                for m in run_case(ns, cname, ctx, old, new):
                    if len(res["violations"]) < 3:
                        res["violations"].append(dict(props=["C05", "C06", "C12"], msg=m, fam="json", kind="weakhash", ops=None, sig="weakhash",
                                                      extra=dict(cname=cname, ctx=ctx, old=old, new=new)))
    return res


def replay(prop, path, payload, ns):
    ex = payload["extra"]
    msgs = run_case(ns, ex["cname"], ex["ctx"], ex["old"], ex["new"])
    for m in msgs:
        print("VIOLATION property=%s replay=%s" % (prop, path))
        print("  " + m[:600])
    if not msgs:
        print("replay: no violation of %s on the current tree" % prop)
    return 1 if msgs else 0
