"""C08: tracing of the file operations a save issues (tie to SC/FS.lean) and crash injection.

Everything is observed at the level of Python's file API, process wide (builtins.open,
io.open, os.open/write/close/replace/rename/remove/unlink/truncate), so a save path that is
rewritten with other calls is still seen.  A *crash* is `os._exit` in a forked child at a
chosen event; inside `write` any prefix of the bytes can be made to reach the file first.
"""
import builtins
import io
import json
import os
import sys
import traceback

WRITE_MODES = ("w", "a", "x", "+")


class Crash(Exception):
    pass


class Tracer:
    """Records mutating file operations; optionally kills the process at event number
    `kill_at` (events are counted at the *start* of every mutating operation and, for a
    write, at `prefix` bytes into it when `kill_prefix` is given)."""

    def __init__(self, kill_at=None, kill_prefix=None, eager=True):
        # eager: bytes handed to write() reach the file at once (any prefix can be forced);
        # lazy: they stay in the runtime's buffer until flush/close (lost at a crash) - both are
        # behaviours a real process can show
        self.eager = eager
        self.events = []          # (kind, path, extra)
        self.kill_at = kill_at
        self.kill_prefix = kill_prefix
        self.n = 0
        self.fd_path = {}
        self.completed = []       # (dst path, bytes) of every completed replace / close of a direct write
        self.active = True
        self._orig = {}

    # -- event bookkeeping
    def _event(self, kind, path, extra=None, pre=None):
        if not self.active:
            return
        k = self.n
        self.n += 1
        if self.kill_at is not None and k == self.kill_at:
            if pre is not None:
                pre()
            os._exit(77)
        self.events.append((kind, path, extra))

    # -- wrappers
    def install(self):
        tr = self
        o = self._orig
        o["open"] = builtins.open
        o["io_open"] = io.open
        o["os_open"] = os.open
        o["os_write"] = os.write
        o["os_replace"] = os.replace
        o["os_rename"] = os.rename
        o["os_remove"] = os.remove
        o["os_unlink"] = os.unlink
        o["os_truncate"] = os.truncate
        o["json_dumps"] = json.dumps

        class FileProxy:
            def __init__(self, f, path):
                object.__setattr__(self, "_f", f)
                object.__setattr__(self, "_path", path)

            def write(self, data):
                f, path = self._f, self._path

                def partial():
                    if tr.kill_prefix is not None:
                        f.write(data[: tr.kill_prefix])
                        f.flush()

                tr._event("write", path, len(data), pre=partial)
                r = f.write(data)
                if tr.eager:
                    f.flush()
                return r

            def close(self):
                if not self._f.closed:
                    tr._event("close", self._path)
                return self._f.close()

            def __enter__(self):
                self._f.__enter__()
                return self

            def __exit__(self, *a):
                if not self._f.closed:
                    tr._event("close", self._path)
                return self._f.__exit__(*a)

            def __getattr__(self, name):
                return getattr(self._f, name)

            def __iter__(self):
                return iter(self._f)

        def traced_open(file, mode="r", *a, **kw):
            writing = any(c in mode for c in WRITE_MODES)
            if not writing or not tr.active:
                return o["open"](file, mode, *a, **kw)
            if isinstance(file, int):
                path = tr.fd_path.get(file, "fd%d" % file)
                tr._event("fdopen", path, mode)
            else:
                path = os.fspath(file)
                kind = "open" if "w" in mode else ("open-append" if "a" in mode else "open-notrunc")
                tr._event(kind, path, mode)
            f = o["open"](file, mode, *a, **kw)
            return FileProxy(f, path)

        def traced_os_open(path, flags, *a, **kw):
            if tr.active and flags & (os.O_WRONLY | os.O_RDWR):
                kind = "open" if flags & os.O_TRUNC else "open-notrunc"
                tr._event(kind, os.fspath(path), flags)
            fd = o["os_open"](path, flags, *a, **kw)
            tr.fd_path[fd] = os.fspath(path)
            return fd

        def traced_os_write(fd, data):
            path = tr.fd_path.get(fd)
            if tr.active and path is not None:
                def partial():
                    if tr.kill_prefix is not None:
                        o["os_write"](fd, data[: tr.kill_prefix])
                tr._event("write", path, len(data), pre=partial)
            return o["os_write"](fd, data)

        def traced_replace(src, dst, *a, **kw):
            tr._event("replace", os.fspath(src), os.fspath(dst))
            if tr.active:
                try:
                    with o["open"](src, "rb") as f:
                        tr.completed.append((os.fspath(dst), f.read()))
                except OSError:
                    pass
            return o["os_replace"](src, dst, *a, **kw)

        def traced_rename(src, dst, *a, **kw):
            tr._event("replace", os.fspath(src), os.fspath(dst))
            return o["os_rename"](src, dst, *a, **kw)

        def traced_remove(path, *a, **kw):
            tr._event("remove", os.fspath(path))
            return o["os_remove"](path, *a, **kw)

        def traced_unlink(path, *a, **kw):
            tr._event("remove", os.fspath(path))
            return o["os_unlink"](path, *a, **kw)

        def traced_truncate(path, length):
            tr._event("truncate", os.fspath(path) if not isinstance(path, int) else tr.fd_path.get(path, "fd"), length)
            return o["os_truncate"](path, length)

        def traced_dumps(*a, **kw):
            if tr.active:
                tr.events.append(("encode", None, None))
            return o["json_dumps"](*a, **kw)

        builtins.open = traced_open
        io.open = traced_open
        os.open = traced_os_open
        os.write = traced_os_write
        os.replace = traced_replace
        os.rename = traced_rename
        os.remove = traced_remove
        os.unlink = traced_unlink
        os.truncate = traced_truncate
        json.dumps = traced_dumps
        return self

    def uninstall(self):
        o = self._orig
        builtins.open = o["open"]
        io.open = o["io_open"]
        os.open = o["os_open"]
        os.write = o["os_write"]
        os.replace = o["os_replace"]
        os.rename = o["os_rename"]
        os.remove = o["os_remove"]
        os.unlink = o["os_unlink"]
        os.truncate = o["os_truncate"]
        json.dumps = o["json_dumps"]

    def __enter__(self):
        return self.install()

    def __exit__(self, *a):
        self.uninstall()


def canonical(events, targets):
    """mutating ops with paths renamed: targets -> their index, other paths -> 100+k in order
    of first appearance.  Returns (lines, tmp_paths)"""
    names = {p: i for i, p in enumerate(targets)}
    tmps = []
    out = []
    for kind, path, extra in events:
        if kind == "encode":
            out.append("encode")
            continue

        def nm(p):
            if p not in names:
                names[p] = 100 + len(tmps)
                tmps.append(p)
            return names[p]
        if kind == "replace":
            out.append("replace %d %d" % (nm(path), nm(extra)))
        elif kind == "write":
            out.append("write %d %d" % (nm(path), extra))
        else:
            out.append("%s %d" % (kind, nm(path)))
    return out, tmps


# ------------------------------------------------------------------ scenarios

def fname(r):
    """file name of resource `r`; resource 7 has a name that is valid but leaves no room for the
    prefix of the temporary file (`._<32 hex>_`) of an atomic save"""
    if r == 7:
        return "L" * 225 + ".json"
    return "r%d.json" % r


def _mk(ns, cls_name):
    return getattr(ns.json_mod, cls_name)


def scenarios(ns):
    """name -> dict(files={res: old content or None}, run(dir) -> None performs the save(s) that
    may be interrupted; `atomic` says which write mode is in effect; `expect` = final content)"""
    J = ns.json_mod
    big = {"k%d" % i: [i, "x" * 20, {"n": None}] for i in range(6)}
    sc = {}

    def path(d, r):
        return os.path.join(d, fname(r))

    def s_setitem(cls_name, wc=False, threads=True, short=False):
        def run(d):
            cls = _mk(ns, cls_name)
            if not threads:
                cls.disable_multithreading()
            x = cls(filename=path(d, 0), write_concern=wc)
            if short:
                x.reset({"s": 1})
            else:
                x["new"] = big
        return run

    old0 = {"old": list(range(30)), "pad": "y" * 50}
    sc["dict_default"] = dict(files={0: old0}, run=s_setitem("JSONDict"), atomic=True)
    sc["dict_default_fresh"] = dict(files={0: None}, run=s_setitem("JSONDict"), atomic=True)

    def s_longname(d):
        # an atomic save whose temporary file cannot be created (name too long): the save fails
        # (OSError) - and whatever it does instead must still leave the file complete
        x = _mk(ns, "JSONDict")(filename=path(d, 7))
        try:
            x["new"] = big
        except OSError:
            pass
    sc["dict_default_longname"] = dict(files={7: old0}, run=s_longname, atomic=True, no_followup=True)
    sc["dict_default_shorter"] = dict(files={0: old0}, run=s_setitem("JSONDict", short=True), atomic=True)
    sc["dict_write_concern_nothreads"] = dict(files={0: old0}, run=s_setitem("JSONDict", wc=True, threads=False), atomic=True)
    sc["attrdict_default"] = dict(files={0: old0}, run=s_setitem("JSONAttrDict"), atomic=True)
    sc["dict_plain_nothreads"] = dict(files={0: old0}, run=s_setitem("JSONDict", wc=False, threads=False), atomic=False)

    def s_same_length(cls_name, wc=False, threads=True):
        """the new serialisation has EXACTLY the length of the file on disk (and of any other
        size-like attribute a save might key a shortcut on): digits replaced by digits"""
        def run(d):
            cls = _mk(ns, cls_name)
            if not threads:
                cls.disable_multithreading()
            x = cls(filename=path(d, 0), write_concern=wc)
            x["a"] = 44
            x["c"] = 66
        return run
    old_sl = {"a": 11, "b": 22, "c": 33, "pad": "z" * 30}
    sc["dict_same_length"] = dict(files={0: old_sl}, run=s_same_length("JSONDict"), atomic=True)
    sc["dict_same_length_write_concern_nothreads"] = dict(files={0: old_sl}, run=s_same_length("JSONDict", wc=True, threads=False), atomic=True)

    def s_toggle(enable_after):
        """the write mode in effect is the one at the time of the SAVE: the object is constructed
        while the class's threading support is in the other state"""
        def run(d):
            cls = _mk(ns, "JSONDict")
            if enable_after:
                cls.disable_multithreading()
                x = cls(filename=path(d, 0))
                cls.enable_multithreading()
            else:
                x = cls(filename=path(d, 0))
                cls.disable_multithreading()
            x["new"] = big
        return run
    sc["dict_threads_enabled_after_construction"] = dict(files={0: old0}, run=s_toggle(True), atomic=True)
    sc["dict_threads_disabled_after_construction"] = dict(files={0: old0}, run=s_toggle(False), atomic=False)

    def s_list(d):
        x = J.JSONList(filename=path(d, 0))
        x.append(big)
        x.reverse()
    sc["list_two_saves"] = dict(files={0: [1, 2, 3, "old" * 10]}, run=s_list, atomic=True, multi=True)

    def s_buffered(cls_name, cap=None, per_object=False):
        def run(d):
            cls = _mk(ns, cls_name)
            a = cls(filename=path(d, 0))
            b = cls(filename=path(d, 1))
            c = cls(filename=path(d, 2))
            if per_object:
                with a.buffered:
                    with b.buffered:
                        a["new"] = big
                        b["new"] = [1, 2, 3]
                        c.get("x")
            else:
                ctx = cls.buffer_backend() if cap is None else cls.buffer_backend(cap)
                with ctx:
                    a["new"] = big
                    b["new"] = [1, 2, 3]
                    c.get("x")
                    a["more"] = 1
        return run

    three = {0: old0, 1: {"b": 1}, 2: {"c": [1, 2]}}
    sc["buffered_backend"] = dict(files=three, run=s_buffered("BufferedJSONDict"), atomic=True)
    sc["buffered_objects"] = dict(files=three, run=s_buffered("BufferedJSONDict", per_object=True), atomic=True)
    sc["buffered_forced"] = dict(files=three, run=s_buffered("BufferedJSONDict", cap=10), atomic=True, multi=True)
    sc["membuffered_backend"] = dict(files=three, run=s_buffered("MemoryBufferedJSONDict"), atomic=True)
    sc["membuffered_forced"] = dict(files=three, run=s_buffered("MemoryBufferedJSONDict", cap=0), atomic=True, multi=True)
    sc["membuffered_objects"] = dict(files=three, run=s_buffered("MemoryBufferedJSONDict", per_object=True), atomic=True)
    return sc


def setup_files(d, files):
    for r, content in files.items():
        if content is not None:
            with open(os.path.join(d, fname(r)), "wb") as f:
                f.write(json.dumps(content).encode())


def read_files(d, files):
    out = {}
    for r in files:
        try:
            with open(os.path.join(d, fname(r)), "rb") as f:
                out[r] = f.read()
        except FileNotFoundError:
            out[r] = None
    return out


def run_child(fn):
    """fork; run fn in the child; returns exit status (77 = crashed at the chosen event)"""
    sys.stdout.flush()
    sys.stderr.flush()
    pid = os.fork()
    if pid == 0:
        code = 0
        try:
            fn()
        except SystemExit as e:
            code = e.code or 0
        except BaseException:  # noqa: BLE001
            traceback.print_exc()
            code = 3
        finally:
            sys.stdout.flush()
            sys.stderr.flush()
            os._exit(code if isinstance(code, int) else 3)
    _, status = os.waitpid(pid, 0)
    return os.waitstatus_to_exitcode(status)


def trace_scenario(ns, name, sc, d):
    """run the scenario uncrashed under the tracer (in a child, class state is isolated);
    returns (canonical lines, tmp paths, final file bytes)"""
    import pickle
    res_path = os.path.join(d, "_trace.pkl")

    def child():
        setup_files(d, sc["files"])
        tr = Tracer()
        with tr:
            sc["run"](d)
        targets = [os.path.join(d, fname(r)) for r in sorted(sc["files"])]
        tr.active = False
        lines, tmps = canonical(tr.events, targets)
        with open(res_path, "wb") as f:
            pickle.dump((lines, tmps, tr.n, tr.completed, tr.events), f)
    code = run_child(child)
    if code != 0:
        raise RuntimeError("scenario %s failed uncrashed (exit %s)" % (name, code))
    with open(res_path, "rb") as f:
        lines, tmps, n_events, completed, events = pickle.load(f)
    os.unlink(res_path)
    return dict(lines=lines, tmps=tmps, n_events=n_events, completed=completed, events=events,
                final=read_files(d, sc["files"]))
