"""Direct oracles for the buffering properties on the real classes (no Lean model).

`unit_buf_twin`: one generated program is executed on a buffered class and, op by
op, on the *unbuffered* class of the same data family bound to a copy of the files.
  C05  results equal the twin's; the file is not written while every object bound to it
       is buffered (default capacity: no forced flush can occur); when no object bound
       to a file is buffered any more the file equals the twin's file.
  C06  the same with k >= 2 objects per file that enter / leave their contexts together.
  C15  reported size <= capacity after every step; 0 and empty buffer whenever no context
       is active; serialized: size == sum of the encoded length of the logical content of
       the buffered files (recomputed from the twin's files, not read back from the
       implementation's bookkeeping); capacity follows the save/restore discipline.
  C17  a file on whose objects no mutator was called during the whole program has the
       same bytes, inode and mtime_ns at the end as at the start (or is still missing).

`unit_c07_scenarios`: systematic conflict scenarios (see its docstring).
"""
import collections
import itertools
import json
import os
import random
import traceback

import bgen
import drive
import env
from fakes import MISSING, World
from oracles import MUTATORS, strict_eq
from proto import Runner

TWIN_OF = {1: 0, 2: 0, 4: 3, 5: 3}

TWIN_PROFILES = {
    # name: (generator parameters, objects per file, check deferral?)
    "basic": (dict(p_read=0.35, p_miss=0.15, p_ctx=0.22, p_cap=0.0), 1, True),
    "joint": (dict(p_read=0.4, p_miss=0.15, p_ctx=0.22, p_cap=0.0, joint=True, p_back=0.24), 2, True),
    "caps": (dict(p_read=0.3, p_miss=0.15, p_ctx=0.22, p_cap=0.7), 1, False),
    "jointcaps": (dict(p_read=0.35, p_miss=0.15, p_ctx=0.22, p_cap=0.5, joint=True, p_back=0.24), 2, False),
    "readonly": (dict(p_read=0.9, p_miss=0.1, p_ctx=0.3, p_cap=0.3), 1, False),
}


def file_sig(path):
    try:
        st = os.stat(path)
        with open(path, "rb") as f:
            return (f.read(), st.st_ino, st.st_mtime_ns)
    except FileNotFoundError:
        return None


class NoSetcapGen(bgen.BufGen):
    """`set_buffer_capacity` outside the generator's context discipline is kept out of
    the profiles that check deferral (it can force a flush)."""

    def __init__(self, *a, allow_setcap=True, **kw):
        super().__init__(*a, **kw)
        self.allow_setcap = allow_setcap

    def ctx_op(self):
        for _ in range(10):
            op = super().ctx_op()
            if op[0] == "setcap" and not self.allow_setcap:
                continue
            return op
        return op


class InvalidProgram(Exception):
    """the op list is not a program of the profile (artifact of shrinking)"""


def _norm_missing(v, is_dict):
    return ({} if is_dict else []) if v is MISSING else v


def _same_result(name, a, b):
    from oracles import UNORDERED, unordered_eq
    if name in UNORDERED and isinstance(a, list) and isinstance(b, list):
        return unordered_eq(a, b)
    if isinstance(a, bool) or isinstance(b, bool):
        return a is b
    return strict_eq(a, b)


def run_twin(ns, fam, ops_in=None, seed=0, profile="basic", n_steps=30):
    """Run (or replay, when `ops_in` is given) one twin program.  Returns
    (violations, ops, stats)."""
    from gen import attached_path
    from oracles import to_plain, err_class
    from proto import apply_call, result_shape
    params, per_res, check_defer = TWIN_PROFILES[profile]
    params = dict(params)
    twin = ns.families[TWIN_OF[fam.index]]
    rng = random.Random((seed * 9176 + fam.index) * 29 + sum(map(ord, profile)))
    viol = []
    stats = collections.Counter()
    drive.reset_class_state(ns)
    with drive.Scratch() as tmp_a, drive.Scratch() as tmp_b:
        wa, wb = World(ns, fam, tmp_a), World(ns, twin, tmp_b)
        ra = Runner(ns, wa)
        b_objs = []
        b_handles = {}             # A-handle number -> the corresponding child object of the twin
        g = NoSetcapGen(rng, ra, fam, allow_setcap=not check_defer, **params)
        # shared-memory strategy with two objects per file: an object re-points its data to the
        # other object's container on every buffered load, so child handles obtained from it
        # earlier are cut off (known finding C06:shared-memory-two-objects-child-handle); the
        # generated programs of this configuration use the root objects only
        g.roots_only = fam.buffered == "memory" and per_res == 2
        if ops_in is None:
            is_dict, ops = bgen.buf_setup(rng, g, objs_per_res=per_res)
            todo = None
        else:
            ops = []
            todo = list(ops_in)
            opens = [o for o in todo if o[0] == "open"]
            if not opens:
                raise InvalidProgram("no object")
            is_dict = opens[0][1]
        cls = fam.dict_cls if is_dict else fam.list_cls
        ra.bcls = cls
        obj_res = []
        obj_cnt = []               # obj.buffered nesting per object
        cls_cnt = [0]
        touched = set()            # files on whose objects a mutator was called
        start_sig = {}
        exp_cap = [cls.get_buffer_capacity()]
        cap_stack = []

        def on(res):
            return [i for i, r in enumerate(obj_res) if r == res]

        def buffered(i):
            return obj_cnt[i] > 0 or cls_cnt[0] > 0

        def all_buffered(res):
            return bool(on(res)) and all(buffered(i) for i in on(res))

        def any_buffered(res):
            return any(buffered(i) for i in on(res))

        def b_target(ri, path, mem):
            cur = b_objs[ri]
            for k in path:
                if not isinstance(cur, ns.SyncedCollection):
                    return None
                plain = cur()
                if type(plain) is not type(mem):
                    return None
                try:
                    nxt = cur[k]
                    mem = mem[k]
                except (KeyError, IndexError, TypeError):
                    return None
                cur = nxt
            if not isinstance(cur, ns.SyncedCollection) or type(cur._to_base()) is not type(mem):
                return None
            return cur

        def step(op):
            kind = op[0]
            # ---- validity of the program (only violated by shrinking)
            if kind in ("enter", "exit"):
                if not (0 <= op[1] < len(ra.objs)):
                    raise InvalidProgram(op)
                if kind == "exit" and obj_cnt[op[1]] == 0:
                    raise InvalidProgram(op)
            if kind == "cexit" and cls_cnt[0] == 0:
                raise InvalidProgram(op)
            if kind in ("ext", "extdel") and any_buffered(op[1]):
                raise InvalidProgram(op)
            known = sorted(set(obj_res))
            held_before = {r: all_buffered(r) for r in known}
            sig_before = {r: file_sig(wa.path(r)) for r in known}
            if kind == "call":
                _, h, name, *args = op
                try:
                    tgt = ra.target(h)
                except IndexError:
                    raise InvalidProgram(op)
                root = tgt._root if tgt._root is not None else tgt
                ris = [i for i, o in enumerate(ra.objs) if o is root]
                if not ris:
                    raise InvalidProgram(op)
                ri = ris[0]
                res = obj_res[ri]
                if any_buffered(res) and not all_buffered(res):
                    raise InvalidProgram("objects on r%d are in different buffered states" % res)
                stats["calls"] += 1
                if name in MUTATORS:
                    touched.add(res)
                    stats["mutators"] += 1
                if any_buffered(res):
                    stats["buffered_calls"] += 1
                try:
                    real = apply_call(tgt, name, args)
                    real_err = None
                except Exception as e:  # noqa: BLE001
                    real, real_err = None, e
                if real_err is None:
                    ra.show_result(result_shape(name, args), real)     # registers returned handles
                # where the handle is attached is decided after the call's own load (a shared-memory
                # object re-points its data to the buffered data on every load)
                path = attached_path(ns, tgt)
                mem = root._to_base()
                if h[0] == "h" and int(h[1:]) in b_handles:
                    tb = b_handles[int(h[1:])]          # the twin's own handle for the same child
                    mirrored = True
                else:
                    tb = None if path is None else b_target(ri, path, root._to_base())
                    mirrored = False
                if tb is not None:
                    try:
                        if name == "dpopitem" and real_err is None:
                            # which binding popitem takes depends on the (unspecified) key order:
                            # remove the same key from the twin and compare the values
                            exp = (real[0], tb.pop(real[0], MISSING))
                        else:
                            exp = apply_call(tb, name, args)
                        exp_err = None
                    except Exception as e:  # noqa: BLE001
                        exp, exp_err = None, e
                    if mirrored and path is None and attached_path(ns, tb) is None:
                        # the handle is detached on BOTH sides (its position is gone): what a detached
                        # node still holds is whatever it was last synchronised with, and the two
                        # executions synchronise at different points - nothing to compare
                        stats["detached_calls"] += 1
                    elif (real_err is None) != (exp_err is None) or (real_err is not None and err_class(real_err) != err_class(exp_err)):
                        viol.append((("C05", "C06"), "%s%r: buffered %s, unbuffered %s" % (
                            name, tuple(args), "ok" if real_err is None else type(real_err).__name__,
                            "ok" if exp_err is None else type(exp_err).__name__)))
                    elif real_err is None:
                        pa, pb = to_plain(ns, real), to_plain(ns, exp)
                        if not _same_result(name, pa, pb):
                            viol.append((("C05", "C06"), "%s%r returned %r buffered but %r unbuffered" % (name, tuple(args), pa, pb)))
                        else:
                            stats["result_checks"] += 1
                        # mirror newly returned children: the twin's result is the twin's handle
                        def nodes(r):
                            if isinstance(r, ns.SyncedCollection):
                                return [r]
                            if isinstance(r, (list, tuple)):
                                return [x for x in r if isinstance(x, ns.SyncedCollection)]
                            return []
                        na, nb = nodes(real), nodes(exp)
                        if len(na) == len(nb):
                            for xa, xb in zip(na, nb):
                                k = ra.hid.get(id(xa))
                                if k is not None and k not in b_handles:
                                    b_handles[k] = xb
                    # a handle that stays attached in unbuffered execution must stay attached here
                    if mirrored and real_err is None and exp_err is None and attached_path(ns, tb) is not None and path is None:
                        viol.append((("C05", "C02", "C06"), "the child handle used by %s%r is still attached to its collection in unbuffered "
                                     "execution but detached in buffered mode (changes through it no longer persist)" % (name, tuple(args))))
                else:
                    stats["detached_calls"] += 1
            elif kind == "open":
                _, isd, res, data = op[:4]
                o = wa.open(isd, res, data)
                ra.objs.append(o)
                ra.known_res.add(res)
                b_objs.append(wb.open(isd, res, data))
                obj_res.append(res)
                obj_cnt.append(0)
                start_sig.setdefault(res, file_sig(wa.path(res)))
            elif kind == "ext":
                wa.write(op[1], op[2])
                wb.write(op[1], op[2])
                start_sig[op[1]] = file_sig(wa.path(op[1]))
                touched.discard(op[1])
            elif kind == "extdel":
                wa.delete(op[1])
                wb.delete(op[1])
                start_sig[op[1]] = file_sig(wa.path(op[1]))
                touched.discard(op[1])
            else:
                la = ra.exec(op)
                if kind == "enter":
                    obj_cnt[op[1]] += 1
                elif kind == "exit":
                    obj_cnt[op[1]] -= 1
                elif kind == "center":
                    cls_cnt[0] += 1
                    cap_stack.append(exp_cap[0] if op[1] is not None else None)
                    if op[1] is not None:
                        exp_cap[0] = op[1]
                elif kind == "cexit":
                    cls_cnt[0] -= 1
                    top = cap_stack.pop()
                    if top is not None:
                        exp_cap[0] = top
                elif kind == "setcap":
                    exp_cap[0] = op[1]
                if la[0].startswith("err"):
                    viol.append((("C05", "C07"), "%s raised `%s` although nothing changed the files from outside" % (kind, la[0])))
            # ---- after the step
            # A mirrored child handle that the buffered side has just detached while the twin's is
            # still attached.  The buffered side synchronises its objects at more points than the
            # unbuffered one (every flush merges the buffered content into the object that flushes),
            # so it can notice EARLIER that the handle's position is gone.  That is legitimate iff
            # the twin's attachment is owed to stale memory: in what the twin's resource holds NOW
            # the position does not exist (or holds another kind) - the twin would detach at its
            # next load too, unless the position reappears by then.  Such a handle is no longer
            # mirrored; a handle whose position still exists must stay attached (the rule below).
            for k, tb in list(b_handles.items()):
                try:
                    ta = ra.handles[k]
                    if attached_path(ns, ta) is not None:
                        continue
                    pb = attached_path(ns, tb)
                    if pb is None:
                        continue
                    rootb = tb._root if tb._root is not None else tb
                    rib = [i for i, o in enumerate(b_objs) if o is rootb]
                    if not rib:
                        continue
                    cur = wb.read(obj_res[rib[0]])
                    gone = cur is MISSING
                    if not gone:
                        for seg in pb:
                            try:
                                cur = cur[seg]
                            except (KeyError, IndexError, TypeError):
                                gone = True
                                break
                    if gone or type(cur) is not type(tb._to_base()):
                        del b_handles[k]
                        stats["handles_unmirrored_position_gone"] += 1
                except Exception:  # noqa: BLE001
                    continue
            size, cap = cls.get_current_buffer_size(), cls.get_buffer_capacity()
            if size > cap:
                viol.append((("C15",), "after %s the buffer size %d exceeds the capacity %d" % (kind, size, cap)))
            if cap != exp_cap[0]:
                viol.append((("C15", "C07"), "after %s the capacity is %d, expected %d" % (kind, cap, exp_cap[0])))
            active = cls_cnt[0] > 0 or any(c > 0 for c in obj_cnt)
            if not active and (size != 0 or cls._buffer):
                viol.append((("C15",), "no buffered context is active but size=%d, buffered files=%d" % (size, len(cls._buffer))))
            files = [ra.res_of_path(p) for p in cls._buffer]
            if fam.buffered == "serialized":
                exp = 0
                for r in files:
                    try:
                        exp += os.path.getsize(wb.path(r))
                    except FileNotFoundError:
                        # unbuffered, the file does not exist (yet): the logical content is what the
                        # twin's object on that file holds in memory (constructor data, or empty)
                        mem = [b_objs[i]._to_base() for i, rr in enumerate(obj_res) if rr == r]
                        exp += len(json.dumps(mem[0]).encode()) if mem else 2
                if exp != size:
                    viol.append((("C15",), "after %s the reported size is %d but the buffered files %s encode to %d bytes" % (kind, size, files, exp)))
                else:
                    stats["size_exact_checks"] += 1
            else:
                dirty = 0
                for r in files:
                    a, b = _norm_missing(wa.read(r), is_dict), _norm_missing(wb.read(r), is_dict)
                    if not strict_eq(a, b):
                        dirty += 1
                if not (dirty <= size <= len(files)):
                    viol.append((("C15",), "after %s the reported size is %d with %d buffered files of which %d differ from disk" % (kind, size, len(files), dirty)))
                else:
                    stats["size_bound_checks"] += 1
            for r in sorted(set(obj_res)):
                if check_defer and held_before.get(r) and all_buffered(r):
                    if file_sig(wa.path(r)) != sig_before.get(r):
                        viol.append((("C05",), "file r%d was written by %s while every object bound to it is buffered" % (r, kind)))
                    else:
                        stats["deferral_checks"] += 1
                if not any_buffered(r):
                    a, b = _norm_missing(wa.read(r), is_dict), _norm_missing(wb.read(r), is_dict)
                    if not strict_eq(a, b):
                        props = ("C05", "C06")
                        if r not in touched and file_sig(wa.path(r)) != start_sig.get(r):
                            props = props + ("C17",)       # and no mutator was ever called on it
                        viol.append((props, "no object on r%d is buffered any more: the file holds %r, unbuffered execution gives %r%s" % (
                            r, a, b, " (no mutator was called on this file: a read-only buffered use wrote it)" if "C17" in props else "")))
                    else:
                        stats["flush_checks"] += 1

        if todo is None:
            for op in ops:
                step(op)
            ops = list(ops)
            for _ in range(n_steps):
                if viol:
                    break
                if not g.stack and not g.pending and rng.random() < (0.2 if profile == "readonly" else 0.08) and g.resources:
                    res, isd = rng.choice(g.resources)
                    op = g.next_ext(res, isd)
                    cur = wa.read(res)
                    if profile == "readonly" and cur is not MISSING and rng.random() < 0.5:
                        from gen import reorder_keys
                        op = ("ext", res, reorder_keys(rng, cur))
                else:
                    op = g.step()
                ops.append(op)
                step(op)
            if not viol:
                for op in g.closing():
                    ops.append(op)
                    step(op)
        else:
            for op in todo:
                ops.append(op)
                step(op)
                if viol:
                    break
        if not viol:
            for r in sorted(set(obj_res)):
                if r not in touched and not any_buffered(r):
                    if file_sig(wa.path(r)) != start_sig.get(r):
                        viol.append((("C17",), "no mutator was called on r%d since it was last written from outside, yet its file changed (bytes/inode/mtime) across the buffered contexts" % r))
                    else:
                        stats["untouched_file_checks"] += 1
    drive.reset_class_state(ns)
    return viol, ops, stats


def unit_buf_twin(args):
    fam_index, seed, profile, n_steps = args
    ns = env.load()
    fam = ns.families[fam_index]
    try:
        viol, ops, stats = run_twin(ns, fam, None, seed, profile, n_steps)
    except Exception:  # noqa: BLE001
        drive.reset_class_state(ns)
        return dict(kind="oracle", fam=fam_index, seed=seed, profile=profile, crash=traceback.format_exc())
    res = dict(kind="oracle", fam=fam_index, seed=seed, profile=profile, steps=len(ops), stats=dict(stats), violations=[])
    if viol:
        tags = set(viol[0][0])

        def still(cand):
            v2, _, _ = run_twin(ns, fam, cand, seed, profile)
            return bool(v2) and bool(set(v2[0][0]) & tags)

        small = ops
        if len(ops) <= 80:
            try:
                small = drive.shrink(ops, still)
            except Exception:  # noqa: BLE001
                small = ops
        try:
            v2, _, _ = run_twin(ns, fam, small, seed, profile)
        except Exception:  # noqa: BLE001
            v2 = []
        v = v2[0] if v2 else viol[0]
        res["violations"].append(dict(props=list(v[0]), msg=v[1], ops=small, fam=fam.short, kind="twin",
                                      extra=dict(profile=profile, seed=seed)))
    return res


# ------------------------------------------------------------------ C07 scenarios

ROLES = ["modified", "readonly", "untouched"]
EXTS = ["before", "after", "never", "after-old"]


def run_c07(ns, fam, is_dict, ctx_kind, assignment, order, cap):
    """One conflict scenario.  `assignment`: per file (role, ext); `order`: the order in which
    the files are first touched inside the context (fixes the flush order); `ctx_kind`:
    'class' (buffer_backend()) or 'object' (obj.buffered for each object, exited in
    reverse order); `cap`: None or a capacity handed to buffer_backend.
    Returns list of (props, message)."""
    viol = []
    drive.reset_class_state(ns)
    cls = fam.dict_cls if is_dict else fam.list_cls
    errors = ns.errors

    def val(i, tag):
        return {"f": i, "tag": tag} if is_dict else [i, tag]

    def mutate(o, i):
        if is_dict:
            o["w"] = i
        else:
            o.append(i)

    def expect_after_mut(i, base):
        if is_dict:
            return {**base, "w": i}
        return base + [i]

    with drive.Scratch() as tmp:
        w = World(ns, fam, tmp)
        n = len(assignment)
        for i in range(n):
            w.write(i, val(i, "init"))
        objs = [w.open(is_dict, i) for i in range(n)]
        cap0 = cls.get_buffer_capacity()
        size0 = cls.get_current_buffer_size()
        expected_disk = {i: val(i, "init") for i in range(n)}
        for i, (role, ext) in enumerate(assignment):
            if ext == "before":
                w.write(i, val(i, "ext-before"))
                expected_disk[i] = val(i, "ext-before")
        conflicts = set()
        raised = None
        ctxs = []
        try:
            if ctx_kind == "class":
                c = cls.buffer_backend() if cap is None else cls.buffer_backend(cap)
                c.__enter__()
                ctxs.append(("class", c))
            else:
                for i in order:
                    objs[i].buffered.__enter__()
                    ctxs.append(("obj", i))
            logical = {}
            for i in order:
                role, ext = assignment[i]
                if role == "untouched":
                    continue
                base = objs[i]()              # buffered read (first access)
                if not strict_eq(base, expected_disk[i]):
                    viol.append((("C05", "C02"), "first buffered read of r%d returned %r, disk has %r" % (i, base, expected_disk[i])))
                logical[i] = base
                if role == "modified":
                    mutate(objs[i], i)
                    logical[i] = expect_after_mut(i, base)
            for i, (role, ext) in enumerate(assignment):
                if ext == "after":
                    w.write(i, val(i, "ext-after"))
                    expected_disk[i] = val(i, "ext-after")
                    if role == "modified":
                        conflicts.add(i)
                elif ext == "after-old":
                    # an outside write that keeps the size and leaves an OLDER timestamp
                    w.write(i, val(i, "tini"), older=True)
                    expected_disk[i] = val(i, "tini")
                    if role == "modified":
                        conflicts.add(i)
            # with a tiny capacity a modified file may have been force-flushed before the outside
            # write (then there is no conflict any more: the outside writer came later)
            flushed_early = set()
            for i in list(conflicts):
                if w.path(i) not in cls._buffer and ctx_kind == "class" and fam.buffered == "serialized":
                    flushed_early.add(i)
            # exit
            errs = []
            for kind_, x in reversed(ctxs):
                try:
                    if kind_ == "class":
                        cls._buffer_context.__exit__(None, None, None)
                    else:
                        objs[x].buffered.__exit__(None, None, None)
                except Exception as e:  # noqa: BLE001
                    errs.append((kind_, x, e))
            ctxs = []
        finally:
            pass
        # ---- verdicts
        if cap is not None and ctx_kind == "class" and fam.buffered == "memory":
            # forced flushes with retention refresh the metadata; a file flushed before the outside
            # write is then seen as unmodified: determine real conflicts from what the model of the
            # property says - modified AFTER its last flush.  We keep to capacities that do not
            # force flushes in memory mode (cap >= number of files), see unit_c07_scenarios.
            pass
        real_conf = conflicts - flushed_early
        if ctx_kind == "class":
            named = set()
            for kind_, x, e in errs:
                if isinstance(e, errors.BufferedError):
                    named |= {int(os.path.basename(p)[1:-5]) for p in e.files}
                else:
                    viol.append((("C07",), "buffer_backend exit raised %s instead of BufferedError" % type(e).__name__))
            if named != real_conf:
                viol.append((("C07",), "BufferedError names files %s, the conflicting (modified and changed outside) files are %s"
                             % (sorted(named), sorted(real_conf))))
        else:
            named = set()
            for kind_, x, e in errs:
                if isinstance(e, errors.MetadataError):
                    named.add(x)
                else:
                    viol.append((("C07",), "obj.buffered exit raised %s instead of MetadataError" % type(e).__name__))
            if named != real_conf:
                viol.append((("C07",), "MetadataError raised for files %s, the conflicting files are %s" % (sorted(named), sorted(real_conf))))
        for i, (role, ext) in enumerate(assignment):
            disk = w.read(i)
            if i in real_conf:
                want = expected_disk[i]
                what = "the outside writer's content must be intact"
            elif i in flushed_early:
                want = expected_disk[i]
                what = "flushed before the outside write; the outside writer came later"
            elif role == "modified":
                want = logical[i]
                what = "non-conflicting modified file must be written"
            else:
                want = expected_disk[i]
                what = "file that was only read / not touched must not be written"
            if disk is MISSING or not strict_eq(disk, want):
                viol.append((("C07",) + (("C17",) if role != "modified" else ()), "r%d (%s, outside write %s): file holds %r, expected %r - %s"
                             % (i, role, ext, disk, want, what)))
        if cls._buffer or cls.get_current_buffer_size() != size0:
            viol.append((("C07", "C15"), "after the contexts exited the buffer still holds %d files, size %d"
                         % (len(cls._buffer), cls.get_current_buffer_size())))
        if cls.get_buffer_capacity() != cap0:
            viol.append((("C07", "C15"), "capacity is %d after the contexts exited, was %d before" % (cls.get_buffer_capacity(), cap0)))
        for i in range(n):
            try:
                got = objs[i]()
                if not strict_eq(got, w.read(i)):
                    viol.append((("C07",), "after the contexts exited r%d's object shows %r, disk has %r" % (i, got, w.read(i))))
                mutate(objs[i], 100 + i)
                if not strict_eq(objs[i](), w.read(i)):
                    viol.append((("C07",), "after the contexts exited a write through r%d's object did not reach the file" % i))
            except Exception as e:  # noqa: BLE001
                viol.append((("C07",), "after the contexts exited r%d's object is unusable: %s" % (i, type(e).__name__)))
    drive.reset_class_state(ns)
    return viol


def c07_cases(n_files):
    per_file = list(itertools.product(ROLES, EXTS))
    for assignment in itertools.product(per_file, repeat=n_files):
        for order in itertools.permutations(range(n_files)):
            yield assignment, order


def unit_c07_scenarios(args):
    """args: (fam_index, is_dict, ctx_kind, n_files, part, parts, seed) - runs every
    `parts`-th case starting at `part` of the exhaustive (role x outside-write)^n_files x
    first-touch-order enumeration."""
    fam_index, is_dict, ctx_kind, n_files, part, parts, seed = args
    ns = env.load()
    fam = ns.families[fam_index]
    res = dict(kind="oracle", fam=fam_index, seed=seed, profile="c07/%s/%d" % (ctx_kind, n_files), steps=0,
               stats={}, violations=[])
    n = 0
    conf = 0
    try:
        for k, (assignment, order) in enumerate(c07_cases(n_files)):
            if k % parts != part:
                continue
            n += 1
            if any(r == "modified" and e == "after" for r, e in assignment):
                conf += 1
            v = run_c07(ns, fam, is_dict, ctx_kind, assignment, order, None)
            if v and not res["violations"]:
                res["violations"].append(dict(props=list(v[0][0]), msg=v[0][1], fam=fam.short, kind="c07",
                                              ops=None, extra=dict(is_dict=is_dict, ctx_kind=ctx_kind,
                                                                   assignment=assignment, order=order)))
    except Exception:  # noqa: BLE001
        drive.reset_class_state(ns)
        return dict(kind="oracle", fam=fam_index, seed=seed, profile="c07", crash=traceback.format_exc())
    res["steps"] = n
    res["stats"] = {"scenarios": n, "with_conflict": conf}
    return res


# ------------------------------------------------------------------ outside writers during buffered contexts

def run_conflict(ns, fam, ops_in=None, seed=0, n_steps=30):
    """Generated programs (one object per file) with outside writes at any time.
    C07  an outside writer's content is never overwritten silently: from an outside write to a
         file that is in the buffer until that file leaves the buffer, the file keeps the
         outside writer's bytes - unless a flush error naming the file was raised and a mutator
         was then called on it again (the library reported the conflict; what a later write
         does is not claimed).
    C07  conflict errors are only raised for files that were written from outside while buffered;
         a BufferedError / MetadataError never names another file.
    Returns (violations, ops, stats)."""
    params = dict(p_read=0.3, p_miss=0.1, p_ext=0.12, p_ctx=0.25, p_cap=0.3)
    rng = random.Random((seed * 7481 + fam.index) * 23 + 5)
    viol = []
    stats = collections.Counter()
    drive.reset_class_state(ns)
    with drive.Scratch() as tmp:
        wa = World(ns, fam, tmp)
        ra = Runner(ns, wa)
        g = bgen.BufGen(rng, ra, fam, **params)
        g.allow_extdel = True
        if ops_in is None:
            is_dict, ops = bgen.buf_setup(rng, g, objs_per_res=1)
            todo = None
        else:
            todo = list(ops_in)
            if not drive.valid_program(todo):
                raise InvalidProgram()
            is_dict = [o for o in todo if o[0] == "open"][0][1]
            ops = []
        cls = fam.dict_cls if is_dict else fam.list_cls
        ra.bcls = cls
        obj_res = []
        protected = {}      # res -> bytes the outside writer left
        stale = set()       # files written from outside while in the buffer
        reported = set()    # files named by a conflict error since then

        def in_buffer(res):
            return wa.path(res) in cls._buffer

        def step(op):
            kind = op[0]
            if kind == "call":
                try:
                    tgt = ra.target(op[1])
                except IndexError:
                    raise InvalidProgram(op)
                root = tgt._root if tgt._root is not None else tgt
                ris = [i for i, o in enumerate(ra.objs) if o is root]
                if ris and op[2] in MUTATORS and obj_res[ris[0]] in reported:
                    r = obj_res[ris[0]]
                    protected.pop(r, None)
            existed_before = kind == "extdel" and os.path.exists(wa.path(op[1]))
            lines = ra.exec(op)
            if kind == "open":
                obj_res.append(op[2])
            if kind == "extdel" and not existed_before:
                return      # removing a file that is not there (possible after shrinking) changes nothing
            if kind == "extdel" and in_buffer(op[1]) and cls._buffer[wa.path(op[1])]["metadata"] is None:
                # the file did not exist when it entered the buffer and does not exist again: the
                # state the conflict check compares with is restored (detection is by metadata, an
                # assumption of the claim), so this is not a detectable outside change
                stats["outside_writes"] += 1
                protected.pop(op[1], None)
                stale.discard(op[1])
                reported.discard(op[1])
                return
            if kind in ("ext", "extdel"):
                stats["outside_writes"] += 1
                if in_buffer(op[1]):
                    stats["outside_writes_while_buffered"] += 1
                    if kind == "ext":
                        with open(wa.path(op[1]), "rb") as f:
                            protected[op[1]] = f.read()
                    else:
                        protected[op[1]] = None      # removed from outside: must stay missing
                    stale.add(op[1])
                    reported.discard(op[1])
                return
            named = set()
            if lines[0].startswith("err BufferedError"):
                rest = lines[0][len("err BufferedError"):].strip()
                named = {int(x) for x in rest.split(",") if x}
            elif lines[0].startswith("err MetadataError"):
                if kind == "exit":
                    named = {obj_res[op[1]]}
                else:
                    named = set(stale) or {-1}
            if named:
                stats["conflict_errors"] += 1
                extra = named - stale
                if extra:
                    viol.append((("C07",), "%s raised `%s` naming file(s) %s that no outside writer touched while buffered" % (kind, lines[0], sorted(extra))))
                reported.update(named & stale)
            for r in list(protected):
                try:
                    with open(wa.path(r), "rb") as f:
                        cur = f.read()
                except FileNotFoundError:
                    cur = None
                if cur != protected[r]:
                    viol.append((("C07",), "the outside writer's content of r%d was overwritten by %s without an error (file now %r)" % (r, kind, cur[:120] if cur else cur)))
                    protected.pop(r)
                else:
                    stats["protected_checks"] += 1
            for r in list(stale):
                if not in_buffer(r):
                    stale.discard(r)
                    protected.pop(r, None)
                    reported.discard(r)

        if todo is None:
            for op in ops:
                step(op)
            ops = list(ops)
            for _ in range(n_steps):
                if viol:
                    break
                op = g.step()
                ops.append(op)
                step(op)
            if not viol:
                for op in g.closing():
                    ops.append(op)
                    step(op)
        else:
            for op in todo:
                ops.append(op)
                step(op)
                if viol:
                    break
    drive.reset_class_state(ns)
    return viol, ops, stats


def unit_buf_conflict(args):
    fam_index, seed, profile, n_steps = args
    ns = env.load()
    fam = ns.families[fam_index]
    try:
        viol, ops, stats = run_conflict(ns, fam, None, seed, n_steps)
    except Exception:  # noqa: BLE001
        drive.reset_class_state(ns)
        return dict(kind="oracle", fam=fam_index, seed=seed, profile=profile, crash=traceback.format_exc())
    res = dict(kind="oracle", fam=fam_index, seed=seed, profile=profile, steps=len(ops), stats=dict(stats), violations=[])
    if viol:
        def still(cand):
            v2, _, _ = run_conflict(ns, fam, cand, seed)
            return bool(v2)

        small = ops
        if len(ops) <= 80:
            try:
                small = drive.shrink(ops, still)
            except Exception:  # noqa: BLE001
                small = ops
        try:
            v2, _, _ = run_conflict(ns, fam, small, seed)
        except Exception:  # noqa: BLE001
            v2 = []
        v = v2[0] if v2 else viol[0]
        res["violations"].append(dict(props=list(v[0]), msg=v[1], ops=small, fam=fam.short, kind="conflict",
                                      extra=dict(seed=seed)))
    return res


# ------------------------------------------------------------------ I/O faults during a flush (C15, C07)

def unit_buf_io_faults(args):
    """a buffered flush in which writing one file fails with OSError (disk full / directory gone):
    BufferedError must name that file, the other files are written, and afterwards the accounting
    is exact: size 0 and empty buffer outside contexts; inside a context after a failing forced
    flush the size equals the recomputed weight of what is still buffered; capacity restored"""
    fam_index, is_dict, mode, seed = args
    ns = env.load()
    fam = ns.families[fam_index]
    res = dict(kind="oracle", fam=fam_index, seed=seed, profile="iofault/%s" % mode, steps=1, stats={"scenarios": 1}, violations=[])

    def bad(msg):
        if not res["violations"]:
            res["violations"].append(dict(props=["C15", "C07"], msg=msg, fam=fam.short, kind="iofault", sig="C15:iofault", ops=None,
                                          extra=dict(fam_index=fam_index, is_dict=is_dict, mode=mode)))
    try:
        drive.reset_class_state(ns)
        cls = fam.dict_cls if is_dict else fam.list_cls
        J = ns.json_mod.JSONCollection
        orig_save = J._save_to_resource
        with drive.Scratch() as tmp:
            w = World(ns, fam, tmp)
            for i in range(3):
                w.write(i, {"f": i} if is_dict else [i])
            objs = [w.open(is_dict, i) for i in range(3)]
            cap0 = cls.get_buffer_capacity()
            failing = w.path(1)
            state = {"armed": False}

            def faulty(self):
                if state["armed"] and self._filename == failing:
                    raise OSError(28, "No space left on device")
                return orig_save(self)

            def mutate(o, v):
                if is_dict:
                    o["w"] = v
                else:
                    o.append(v)

            def recompute():
                if fam.buffered == "serialized":
                    return sum(len(v["contents"]) for v in cls._buffer.values())
                return sum(1 for v in cls._buffer.values() if v["modified"])
            J._save_to_resource = faulty
            try:
                if mode == "exit":
                    err = None
                    try:
                        with cls.buffer_backend():
                            for i, o in enumerate(objs):
                                mutate(o, "x" * (5 + i))
                            state["armed"] = True
                    except Exception as e:  # noqa: BLE001
                        err = e
                    state["armed"] = False
                    if not isinstance(err, ns.errors.BufferedError):
                        bad("leaving buffer_backend() with a failing write raised %r, not BufferedError" % (err,))
                    elif {os.path.basename(p) for p in err.files} != {"r1.json"}:
                        bad("BufferedError names %s, the file whose write failed is r1.json" % sorted(os.path.basename(p) for p in err.files))
                elif mode == "object":
                    err = None
                    try:
                        with objs[1].buffered:
                            mutate(objs[1], "y")
                            state["armed"] = True
                    except Exception as e:  # noqa: BLE001
                        err = e
                    state["armed"] = False
                    if not isinstance(err, OSError):
                        bad("leaving obj.buffered with a failing write raised %r, not OSError" % (err,))
                else:   # forced flush in the middle of a context
                    cap = 40 if fam.buffered == "serialized" else 1
                    with cls.buffer_backend(cap):
                        mutate(objs[1], "z" * 8)
                        state["armed"] = True
                        try:
                            mutate(objs[0], "q" * 30)
                            mutate(objs[2], "q" * 30)
                        except Exception:  # noqa: BLE001
                            pass
                        state["armed"] = False
                        size, want = cls.get_current_buffer_size(), recompute()
                        if size != want:
                            bad("after a forced flush with a failing write the reported size is %d, the buffered files weigh %d" % (size, want))
                        mutate(objs[0], 1)
                # ---- afterwards
                size = cls.get_current_buffer_size()
                if size != 0 or cls._buffer:
                    bad("after the contexts exited (one write failed with OSError) the reported size is %d with %d buffered files" % (size, len(cls._buffer)))
                if cls.get_buffer_capacity() != cap0:
                    bad("capacity is %d after the contexts exited, was %d" % (cls.get_buffer_capacity(), cap0))
                if mode == "exit":
                    for i in (0, 2):
                        d = w.read(i)
                        ok = (d.get("w") == "x" * (5 + i)) if is_dict else (d[-1] == "x" * (5 + i))
                        if not ok:
                            bad("the non-failing file r%d was not written: %r" % (i, d))
                for i, o in enumerate(objs):
                    mutate(o, "after")
                    if not strict_eq(o(), w.read(i)):
                        bad("after the failed flush a write through r%d's object did not reach the file" % i)
            finally:
                J._save_to_resource = orig_save
        drive.reset_class_state(ns)
    except Exception:  # noqa: BLE001
        drive.reset_class_state(ns)
        return dict(kind="oracle", fam=fam_index, seed=seed, profile="iofault", crash=traceback.format_exc())
    return res


# ------------------------------------------------------------------ child handles of objects sharing one file

def c06_handle_cases():
    for is_dict in (True, False):
        for ctx_kind in ("object", "class"):
            for owner in (0, 1):                      # whose child handle is exercised
                for taken in ("before", "inside-first", "inside-after-touch"):
                    for toucher in (0, 1):            # which object touches the buffer first
                        for touch in ("read", "write"):
                            yield is_dict, ctx_kind, owner, taken, toucher, touch


def run_c06_handle(ns, fam, case):
    """two objects a, b on one file, a child handle h obtained through one of them; inside a common
    buffered state a write through h must be visible through both objects, a write through the other
    object must be visible through h, the file after the exit holds both writes and h is still
    attached afterwards.  Returns a list of (message, signature)."""
    is_dict, ctx_kind, owner, taken, toucher, touch = case
    out = []
    drive.reset_class_state(ns)
    cls = fam.dict_cls if is_dict else fam.list_cls
    with drive.Scratch() as tmp:
        w = World(ns, fam, tmp)
        w.write(0, {"k": {"x": 1}, "z": 0} if is_dict else [{"x": 1}, 0])
        objs = [w.open(is_dict, 0), w.open(is_dict, 0)]
        key = "k" if is_dict else 0
        zkey = "z" if is_dict else 1
        other = 1 - owner
        h = objs[owner][key] if taken == "before" else None
        import contextlib
        with contextlib.ExitStack() as st:
            if ctx_kind == "object":
                st.enter_context(objs[0].buffered)
                st.enter_context(objs[1].buffered)
            else:
                st.enter_context(cls.buffer_backend())
            if taken == "inside-first":
                h = objs[owner][key]
            if touch == "read":
                objs[toucher][zkey]
            else:
                objs[toucher][zkey] = 7
            if taken == "inside-after-touch":
                h = objs[owner][key]
            # a write through the other object is visible through the handle
            objs[other][key]["x"] = 2
            got = h["x"]
            if got != 2:
                out.append(("inside the common buffered state, after obj%d[%r]['x'] = 2 the child handle obtained through obj%d (%s) reads x = %r"
                            % (other, key, owner, taken, got), "stale-read"))
            # a write through the handle is visible through both objects
            h["y"] = 5
            for i in (0, 1):
                got = objs[i]()[key] if is_dict else objs[i]()[0]
                if got != {"x": 2, "y": 5}:
                    out.append(("inside the common buffered state, after h['y'] = 5 through the child handle of obj%d (%s), obj%d shows %r at that position, not {'x': 2, 'y': 5}"
                                % (owner, taken, i, got), "lost-write"))
                    break
        disk = w.read(0)
        want = {"k": {"x": 2, "y": 5}, "z": 7 if touch == "write" else 0} if is_dict else [{"x": 2, "y": 5}, 7 if touch == "write" else 0]
        if disk != want:
            out.append(("after the common exit the file holds %r, not %r (handle of obj%d, %s)" % (disk, want, owner, taken), "file"))
        objs[other][key]["x"] = 3
        got = h()
        if got != {"x": 3, "y": 5}:
            out.append(("after the exit the child handle of obj%d (%s) is detached: it shows %r while the file position holds {'x': 3, 'y': 5}"
                        % (owner, taken, got), "detached-after"))
    return out


def c06_handle_sig(fam, case, kinds):
    is_dict, ctx_kind, owner, taken, toucher, touch = case
    if fam.buffered == "memory" and taken in ("before", "inside-first") and owner != toucher:
        # the handle belongs to the object whose data container is REPLACED by the shared one
        return "C06:shared-memory:child-handle-of-rebound-object"
    return "C06:child-handle:%s:%s:%s" % (fam.buffered, taken, "+".join(sorted(set(kinds))))


def unit_c06_handles(args):
    fam_index, seed = args
    ns = env.load()
    fam = ns.families[fam_index]
    res = dict(kind="oracle", fam=fam_index, seed=seed, profile="c06/handles", steps=0, stats={}, violations=[])
    n = 0
    seen = set()
    try:
        for case in c06_handle_cases():
            n += 1
            v = run_c06_handle(ns, fam, case)
            if v:
                sig = c06_handle_sig(fam, case, [k for _, k in v])
                if sig in seen:
                    continue
                seen.add(sig)
                res["violations"].append(dict(props=["C06"], msg=v[0][0], fam=fam.short, kind="c06h", sig=sig, ops=None,
                                              extra=dict(fam_index=fam_index, case=list(case))))
    except Exception:  # noqa: BLE001
        drive.reset_class_state(ns)
        return dict(kind="oracle", fam=fam_index, seed=seed, profile="c06/handles", crash=traceback.format_exc())
    res["steps"] = n
    res["stats"] = {"scenarios": n}
    return res


# ------------------------------------------------------------------ C06: several buffered sessions over a tiny alphabet

def gen_sessions(rng, is_dict, memory):
    """Two objects on one file; two or three common buffered sessions (backend-wide or both objects'
    own contexts, entered together) with unbuffered operations in between; every operation sets or
    reads ONE position to a value from {1, 2}.  With so small an alphabet the content keeps
    returning to bytes it had before (A-B-A) - inside a session, across sessions, through the
    other object - which random programs over a large alphabet almost never do."""
    ops = [("ext", 0, {"k": rng.choice([1, 2])} if is_dict else [rng.choice([1, 2])]),
           ("open", is_dict, 0, MISSING), ("open", is_dict, 0, MISSING)]

    def call():
        o = "o%d" % rng.randrange(2)
        if rng.random() < 0.3:
            return ("call", o, "dgetitem", "k") if is_dict else ("call", o, "lgetitem", 0)
        v = rng.choice([1, 2])
        return ("call", o, "dsetitem", "k", v) if is_dict else ("call", o, "lsetitem", 0, v)

    for _ in range(rng.choice([2, 2, 3])):
        for _ in range(rng.randint(0, 2)):
            ops.append(call())
        if rng.random() < 0.5:
            ops.append(("center", None))
            close = [("cexit",)]
        else:
            first = rng.randrange(2)
            ops += [("enter", first), ("enter", 1 - first)]
            close = [("exit", 1 - first), ("exit", first)] if rng.random() < 0.5 else [("exit", first), ("exit", 1 - first)]
        for _ in range(rng.randint(1, 4)):
            ops.append(call())
        ops += close
    ops.append(call())
    return ops


def unit_c06_sessions(args):
    fam_index, seed, n = args
    ns = env.load()
    fam = ns.families[fam_index]
    res = dict(kind="oracle", fam=fam_index, seed=seed, profile="c06/sessions", steps=0, stats={}, violations=[])
    rng = random.Random(seed * 6841 + fam_index)
    steps = 0
    try:
        for i in range(n):
            ops = gen_sessions(rng, rng.random() < 0.6, fam.buffered == "memory")
            steps += len(ops)
            viol, _, _ = run_twin(ns, fam, ops, seed, "joint")
            bad = [v for v in viol if "C06" in v[0] or "C05" in v[0]]
            if bad and not res["violations"]:
                tags = set(bad[0][0])

                def still(cand):
                    v2, _, _ = run_twin(ns, fam, cand, seed, "joint")
                    return bool(v2) and bool(set(v2[0][0]) & tags)
                small = ops
                try:
                    small = drive.shrink(ops, still)
                    v2, _, _ = run_twin(ns, fam, small, seed, "joint")
                    bad = v2 or bad
                except Exception:  # noqa: BLE001
                    small = ops
                res["violations"].append(dict(props=list(bad[0][0]), msg=bad[0][1], ops=small, fam=fam.short, kind="twin",
                                              extra=dict(profile="joint", seed=seed)))
    except Exception:  # noqa: BLE001
        drive.reset_class_state(ns)
        return dict(kind="oracle", fam=fam_index, seed=seed, profile="c06/sessions", crash=traceback.format_exc())
    res["steps"] = steps
    res["stats"] = {"programs": n}
    return res
