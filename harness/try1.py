import random, sys
import env, drive, gen
from fakes import MISSING
ns = env.load()
for f in ns.families: print(f.index, f.short, f.store, f.buffered, f.attr, env.validator_code(f.dict_cls), env.validator_code(f.list_cls))
md = drive.ModelDriver(ns)
nprog=int(sys.argv[1]) if len(sys.argv)>1 else 20
bad=0
for fam in ns.families:
    for seed in range(nprog):
        rng = random.Random(seed*1000+fam.index)
        is_dict = rng.random()<0.5
        def setup(runner, g):
            ops=[]
            if rng.random()<0.3:
                ops.append(("ext",0,g.vg.container(is_dict,2)))
            ops.append(("open",is_dict,0,MISSING))
            g.resources=[(0,is_dict)]
            if rng.random()<0.4: ops.append(("open",is_dict,0,MISSING))
            return ops
        ops, lines = drive.generate(ns, fam, lambda r: gen.ProgGen(rng, r, fam, p_ext=0.1), 25, setup)
        got = md.run(drive.op_lines(ops, fam.index))
        d = drive.first_diff(lines, got)
        if d is not None:
            bad+=1
            if bad<=8:
                print("DIFF fam",fam.short,"seed",seed,"at",d, ops[d])
                print("  line:", drive.op_lines(ops,fam.index)[d])
                print("  real :", lines[d]); print("  model:", got[d])
print("bad",bad)
