"""C08 work units: trace correspondence with SC/FS.lean and crash enumeration on the real code."""
import json
import os
import shutil
import tempfile
import traceback

import crash
import drive
import env


def _scratch():
    return tempfile.mkdtemp(prefix="scverif_c08_")


def parse_saves(lines):
    """Split the canonical trace into saves.  Returns (saves, problems): a save is
    dict(mode='atomic'|'plain', target, tmp, length)."""
    saves, problems = [], []
    ops = [l for l in lines]
    i = 0
    pending_encode = False
    cur = None          # (path opened, length written, closed)
    while i < len(ops):
        l = ops[i]
        if l == "encode":
            if cur is not None and not cur.get("closed"):
                problems.append("serialisation happens while file %s is open for writing" % cur["path"])
            pending_encode = True
            i += 1
            continue
        kind, *rest = l.split()
        if kind == "open":
            if cur is not None and not cur.get("closed"):
                problems.append("file %s opened while %s is still open" % (rest[0], cur["path"]))
            if not pending_encode and not saves and cur is None:
                problems.append("a file is opened for writing before the data was serialised")
            cur = dict(path=int(rest[0]), length=0, closed=False)
        elif kind == "write":
            if cur is None or cur["path"] != int(rest[0]) or cur["closed"]:
                problems.append("write to %s outside an open/close bracket" % rest[0])
            else:
                cur["length"] += int(rest[1])
        elif kind == "close":
            if cur is None or cur["path"] != int(rest[0]):
                problems.append("close of %s which is not the open file" % rest[0])
            else:
                cur["closed"] = True
                if cur["path"] < 100:
                    saves.append(dict(mode="plain", target=cur["path"], tmp=999, length=cur["length"]))
                    cur = None
                    pending_encode = False
        elif kind == "replace":
            src, dst = int(rest[0]), int(rest[1])
            if cur is None or cur["path"] != src or not cur["closed"]:
                problems.append("replace %d -> %d of a file that was not just written and closed" % (src, dst))
            else:
                saves.append(dict(mode="atomic", target=dst, tmp=src, length=cur["length"]))
            cur = None
            pending_encode = False
        else:
            problems.append("unexpected file operation `%s`" % l)
        i += 1
    if cur is not None:
        problems.append("file %s written but never installed / closed" % cur["path"])
    return saves, problems


def model_ops(md, saves):
    out = []
    for s in saves:
        line = md.query("fs save %d 1 %d %d %d" % (1 if s["mode"] == "atomic" else 0, s["target"], s["tmp"], s["length"]))
        assert line.startswith("ops: "), line
        out += [x for x in line[5:].split("; ") if x and not x.startswith("stat")]
    return out


def unit_c08_trace(args):
    """the sequence of mutating file operations of every scenario equals what the model's
    saveSteps prescribes for the same targets / lengths, serialisation first"""
    name, seed = args
    import suites
    ns = env.load()
    sc = crash.scenarios(ns)[name]
    d = _scratch()
    res = dict(kind="corr", fam=0, seed=seed, profile="c08/" + name, steps=0, hist={}, errors=0, diff=None, suite="unit_c08_trace")
    try:
        t = crash.trace_scenario(ns, name, sc, d)
        lines = t["lines"]
        saves, problems = parse_saves(lines)
        real = [l for l in lines if l != "encode"]
        md = suites.model_driver(ns)
        model = model_ops(md, saves)
        res["steps"] = len(real)
        res["hist"] = {"saves": len(saves), "fs_ops": len(real)}
        if sc["atomic"] and any(s["mode"] != "atomic" for s in saves):
            problems.append("atomic mode is in effect but a file is written in place")
        for s in saves:
            if s["mode"] == "atomic":
                tmp_path = t["tmps"][s["tmp"] - 100]
                tgt_path = os.path.join(d, crash.fname(s["target"]))
                if os.path.dirname(tmp_path) != os.path.dirname(tgt_path):
                    problems.append("temporary file %s is not in the target's directory" % tmp_path)
        tmp_ids = [s["tmp"] for s in saves if s["mode"] == "atomic"]
        if len(set(tmp_ids)) != len(tmp_ids):
            problems.append("a temporary file name is reused by two saves")
        if real != model or problems:
            res["diff"] = dict(at=0, ops=[("scenario", name)], line="scenario " + name,
                               real=real, model=model if real != model else ["(same ops) " + "; ".join(problems)])
        res["sample"] = ["%s: %s" % (name, "; ".join(lines[:12]))]
    except Exception:  # noqa: BLE001
        return dict(kind="corr", fam=0, seed=seed, profile="c08/" + name, crash=traceback.format_exc())
    finally:
        shutil.rmtree(d, ignore_errors=True)
    return res


def _classify(cur, old, allowed):
    if cur in allowed:
        return "new"
    if cur == old:
        return "old"
    if cur is None:
        return "missing"
    if cur == b"":
        return "empty"
    return "prefix%d" % len(cur)


def crash_points(t, ladder=True):
    """returns (event, prefix, eager) triples"""
    out = []
    for k, p in _crash_points(t, ladder):
        out.append((k, p, True))
        if p is None:
            out.append((k, None, False))
    return out


def _crash_points(t, ladder=True):
    """(event index, prefix) pairs: every mutating operation boundary, and inside each write a
    ladder of prefixes of the bytes handed to write()"""
    pts = []
    k = 0
    for kind, path, extra in t["events"]:
        if kind == "encode":
            continue
        if kind == "write":
            n = extra
            pre = sorted({0, 1, n // 2, max(n - 1, 0)}) if ladder else [0]
            for p in pre:
                pts.append((k, p))
        else:
            pts.append((k, None))
        k += 1
    pts.append((k, None))      # after the last operation: no crash
    return pts


def run_crash_case(ns, name, sc, k, prefix, t0, followup, eager=True):
    """one crash point; returns list of violation messages"""
    viol = []
    d = _scratch()
    try:
        crash.setup_files(d, sc["files"])
        old = crash.read_files(d, sc["files"])

        def child():
            tr = crash.Tracer(kill_at=k, kill_prefix=prefix, eager=eager)
            tr.install()
            sc["run"](d)
        code = crash.run_child(child)
        if code not in (0, 77):
            return ["scenario %s raised in the child (exit %s) at crash point %s/%s" % (name, code, k, prefix)]
        after = crash.read_files(d, sc["files"])
        # allowed complete contents: what uncrashed saves install, re-rooted to this directory
        allowed = {r: set() for r in sc["files"]}
        for dst, blob in t0["completed"]:
            r = int(os.path.basename(dst)[1:-5])
            allowed.setdefault(r, set()).add(blob)
        for r in sc["files"]:
            allowed[r].add(t0["final"][r])
        for r in sorted(sc["files"]):
            cls = _classify(after[r], old[r], allowed[r])
            if sc["atomic"] and cls not in ("old", "new"):
                viol.append("crash at file-operation %d%s of %s%s: r%d is `%s` (%r...), neither its complete previous nor its complete new content"
                            % (k, "" if prefix is None else " after %d bytes of the write" % prefix, name,
                               "" if eager else " (written bytes still in the runtime's buffer)", r, cls,
                               (after[r] or b"")[:60]))
        if viol:
            return viol
        # a new collection object opens every file normally
        def reopen():
            J = ns.json_mod
            for r in sorted(sc["files"]):
                p = os.path.join(d, crash.fname(r))
                if not os.path.exists(p):
                    continue
                with open(p, "rb") as f:
                    want = json.loads(f.read())
                cls_ = J.JSONDict if isinstance(want, dict) else J.JSONList
                got = cls_(filename=p)()
                if got != want:
                    os._exit(5)
        if sc["atomic"]:
            code = crash.run_child(reopen)
            if code != 0:
                viol.append("after a crash at file-operation %d of %s a new collection object cannot open the files (exit %s)" % (k, name, code))
        # the next save (from a new process) must install exactly its content
        if sc["atomic"] and followup is not None and not viol:
            def again():
                J = ns.json_mod
                for r in sorted(sc["files"]):
                    p = os.path.join(d, crash.fname(r))
                    want0 = sc["files"][r]
                    isd = isinstance(want0, dict) or want0 is None
                    cls_ = J.JSONDict if isd else J.JSONList
                    x = cls_(filename=p)
                    x.reset(followup if isd else [followup])
            code = crash.run_child(again)
            if code != 0:
                viol.append("after a crash at file-operation %d of %s the next save fails (exit %s)" % (k, name, code))
            else:
                for r in sorted(sc["files"]):
                    p = os.path.join(d, crash.fname(r))
                    want0 = sc["files"][r]
                    isd = isinstance(want0, dict) or want0 is None
                    want = followup if isd else [followup]
                    try:
                        with open(p, "rb") as f:
                            raw = f.read()
                        got = json.loads(raw)
                    except Exception as e:  # noqa: BLE001
                        viol.append("after a crash at file-operation %d of %s and a complete later save, r%d is not valid JSON (%s): %r..."
                                    % (k, name, r, type(e).__name__, raw[:60]))
                        continue
                    if got != want:
                        viol.append("after a crash at file-operation %d of %s and a complete later save, r%d holds %r, not %r" % (k, name, r, got, want))
    finally:
        shutil.rmtree(d, ignore_errors=True)
    return viol


def unit_c08_crash(args):
    """kill the process at every mutating file operation (and write prefix) of a scenario"""
    name, part, parts, seed, thorough = args
    ns = env.load()
    sc = crash.scenarios(ns)[name]
    res = dict(kind="oracle", fam=0, seed=seed, profile="c08crash/" + name, steps=0, stats={}, violations=[])
    d0 = _scratch()
    try:
        t0 = crash.trace_scenario(ns, name, sc, d0)
        # `completed` paths belong to d0; only basenames are used
        pts = crash_points(t0, ladder=True)
        followups = [{"s": 1}, {"long": ["z" * 40] * 8}] if thorough else [{"s": 1}]
        n = 0
        for idx, (k, prefix, eager) in enumerate(pts):
            if idx % parts != part:
                continue
            # (a scenario whose save cannot succeed has no follow-up save either)
            for fu in ([None] if sc.get("no_followup") else followups if (idx + seed) % 2 == 0 or thorough else [None]):
                n += 1
                v = run_crash_case(ns, name, sc, k, prefix, t0, fu, eager)
                if v and not res["violations"]:
                    res["violations"].append(dict(props=["C08"], msg=v[0], fam="json", kind="c08", ops=None,
                                                  extra=dict(scenario=name, event=k, prefix=prefix, followup=fu, eager=eager)))
        res["steps"] = n
        res["stats"] = {"crash_points": n, "fs_events": t0["n_events"]}
    except Exception:  # noqa: BLE001
        return dict(kind="oracle", fam=0, seed=seed, profile="c08crash/" + name, crash=traceback.format_exc())
    finally:
        shutil.rmtree(d0, ignore_errors=True)
    return res


def unit_c08_unserialisable(args):
    """content that cannot be serialised: no mutating file operation is issued, in any write mode"""
    mode, seed = args
    ns = env.load()
    res = dict(kind="oracle", fam=0, seed=seed, profile="c08unser/" + mode, steps=1, stats={"cases": 1}, violations=[])
    d = _scratch()
    try:
        p = os.path.join(d, "r0.json")
        old = {"keep": [1, 2, 3]}
        with open(p, "wb") as f:
            f.write(json.dumps(old).encode())
        out = os.path.join(d, "_out.json")

        def child():
            J = ns.json_mod
            if mode.startswith("plain"):
                J.JSONDict.disable_multithreading()
            x = J.JSONDict(filename=p, write_concern=(mode.split("+")[0] == "write_concern"))
            x()                                   # load
            awkward = mode.endswith("+awkward")
            if not awkward:
                x._data["bad"] = object()         # not serialisable
            tr = crash.Tracer()
            tr.install()
            err = None
            try:
                if awkward:
                    # valid JSON text that encoders tend to trip over: unpaired surrogates, control
                    # characters, U+2028, an integer of 5000 digits is NOT included (int->str limit)
                    x["awk"] = ["\ud83d tail \udead", "\u2028\x00\x1f", {"\ud800": 2 ** 200}]
                else:
                    x._save()
            except Exception as e:  # noqa: BLE001
                err = type(e).__name__
            tr.active = False
            tr.uninstall()
            lines, _ = crash.canonical(tr.events, [p])
            with open(out, "w") as f:
                json.dump(dict(err=err, lines=lines), f)
        code = crash.run_child(child)
        if code != 0:
            return dict(kind="oracle", fam=0, seed=seed, profile="c08unser/" + mode, crash="child exit %s" % code)
        r = json.load(open(out))
        muts = [l for l in r["lines"] if l != "encode"]
        with open(p, "rb") as f:
            now = f.read()
        if mode.endswith("+awkward"):
            want = dict(old, awk=["\ud83d tail \udead", "\u2028\x00\x1f", {"\ud800": 2 ** 200}])
            if r["err"] is None:
                try:
                    ok = json.loads(now) == want
                except Exception:  # noqa: BLE001
                    ok = False
                if not ok:
                    res["violations"].append(dict(props=["C08", "C12"], msg="a save of valid JSON data with unpaired surrogates / control characters returned but the file holds %r (%s mode)" % (now[:80], mode),
                                                  fam="json", kind="c08u", ops=None, extra=dict(mode=mode)))
            elif now != json.dumps(old).encode():
                res["violations"].append(dict(props=["C08"], msg="a save that raised %s (valid JSON data with unpaired surrogates) damaged the file in %s mode: file now %r" % (r["err"], mode, now[:60]),
                                              fam="json", kind="c08u", ops=None, extra=dict(mode=mode)))
            else:
                res["violations"].append(dict(props=["C12"], msg="valid JSON data with unpaired surrogates was rejected with %s (%s mode)" % (r["err"], mode),
                                              fam="json", kind="c08u", ops=None, extra=dict(mode=mode)))
        elif r["err"] is None:
            res["violations"].append(dict(props=["C08"], msg="saving unserialisable content did not raise (%s mode)" % mode, fam="json", kind="c08u", ops=None, extra=dict(mode=mode)))
        elif muts or now != json.dumps(old).encode():
            res["violations"].append(dict(props=["C08"], msg="unserialisable content damaged the file in %s mode: file operations %s, file now %r" % (mode, muts, now[:60]),
                                          fam="json", kind="c08u", ops=None, extra=dict(mode=mode)))
    except Exception:  # noqa: BLE001
        return dict(kind="oracle", fam=0, seed=seed, profile="c08unser/" + mode, crash=traceback.format_exc())
    finally:
        shutil.rmtree(d, ignore_errors=True)
    return res
