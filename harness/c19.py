"""C19: classification never depends on history - warm-up histories in fresh interpreters."""
import json
import os
import random
import subprocess
import sys
import traceback

import env

HERE = os.path.dirname(os.path.abspath(__file__))
BASE_POOL = ["dict", "list", "tuple", "str", "int", "float", "bool", "none", "bytes", "mystr", "mydict", "mylist", "mytuple",
             "userdict", "userlist", "ordered", "mymap", "myseq", "row", "row2", "seqmap", "neither", "named", "range", "dotdict",
             "badleaf", "dictofrow", "listofuser", "myset", "tmp_dict", "tmp_list", "tmp_set", "tmp_obj",
             "nan", "inf", "nanlist", "half"]
# a class created on the fly must be classified like the equivalent class that lives for the whole process
ANALOG = {"tmp_dict": "mydict", "tmp_list": "mylist", "tmp_set": "myset", "tmp_obj": "neither"}


def analog_problems(out):
    for tmp, static in ANALOG.items():
        for probe, want in out.get(static, {}).items():
            have = out.get(tmp, {}).get(probe)
            if have is not None and _strip(have) != _strip(want):
                yield tmp, static, probe, want, have


def _strip(x):
    """outcomes without the class names of leaves (TmpO vs Neither)"""
    s = json.dumps(x)
    for a in ("TmpD", "TmpL", "TmpS", "TmpO", "MyDict", "MyList", "MySet", "Neither"):
        s = s.replace(a, "C")
    import re
    return re.sub(r"0x[0-9a-f]+", "ADDR", s)
NP_POOL = ["nd0", "nd1", "nd2", "sub0", "sub1", "sub1bad", "npnum", "npbool"]


# values of ONE exact type that fall into different categories (what the cache blocklist is for):
# classification must not carry over from one to the next, so histories and probe orders contain
# runs of them
SAME_TYPE = [["nd0", "nd1", "nd2"], ["sub0", "sub1", "sub1bad"]]


def pick_history(rng, pool, n):
    hist = []
    for _ in range(n):
        grp = next((g for g in SAME_TYPE if hist and hist[-1] in g and g[0] in pool), None)
        if grp and rng.random() < 0.45:
            hist.append(rng.choice([x for x in grp if x != hist[-1]]))
        else:
            hist.append(rng.choice(pool))
    return hist


def cluster(order, rng):
    """the shuffled probe order with the members of each same-type group made adjacent (half of the time)"""
    order = list(order)
    for g in SAME_TYPE:
        if all(x in order for x in g) and rng.random() < 0.5:
            members = list(g)
            rng.shuffle(members)
            at = min(order.index(x) for x in g)
            order = [x for x in order if x not in g]
            order[at:at] = members
    return order


def run_child(spec):
    p = subprocess.run([sys.executable, os.path.join(HERE, "c19_child.py")], input=json.dumps(spec), capture_output=True, text=True, timeout=120)
    if p.returncode != 0:
        raise RuntimeError("c19 child failed: " + p.stderr[-800:])
    return json.loads(p.stdout.strip().splitlines()[-1])


def unit_c19(args):
    """args: (seed, numpy stand-in?, n_histories)"""
    seed, use_np, n_hist = args
    res = dict(kind="oracle", fam=0, seed=seed, profile="c19/%s" % ("numpy-standin" if use_np else "plain"), steps=0, stats={}, violations=[])
    rng = random.Random(seed * 313 + (1 if use_np else 0))
    pool = BASE_POOL + (NP_POOL if use_np else [])
    try:
        probes = list(pool)
        base = run_child(dict(numpy=use_np, repo=env.REPO, history=[], probes=probes))
        n = 0
        for h in range(n_hist):
            hist = pick_history(rng, pool, rng.randint(1, 6))
            order = list(probes)
            rng.shuffle(order)
            order = cluster(order, rng)
            got = run_child(dict(numpy=use_np, repo=env.REPO, history=hist, probes=order, order_seed=seed * 131 + h))
            n += 1
            for tmp, static, probe, want, have in analog_problems(got):
                if not res["violations"]:
                    res["violations"].append(dict(
                        props=["C19"], fam="json", kind="c19", sig="C19:dynamic-class:" + probe, ops=None,
                        msg="%s on a value of a class created on the fly (%s) gives %r, on the equivalent long-lived class (%s) %r, after processing %s" % (
                            probe, tmp, have, static, want, hist),
                        extra=dict(seed=seed, numpy=use_np, history=hist, probes=order, value=tmp, probe=probe, analog=static, order_seed=seed * 131 + h)))
            for name in probes:
                if name in ANALOG:
                    continue       # judged against its analog above (fresh classes differ in name only)
                for probe, want in base.get(name, {}).items():
                    have = got.get(name, {}).get(probe)
                    if have != want and not res["violations"]:
                        res["violations"].append(dict(
                            props=["C19"], fam="json", kind="c19", sig="C19:" + probe, ops=None,
                            msg="%s on a %s value gives %r in a fresh process but %r after processing %s (and the probes before it)" % (
                                probe, name, want, have, hist),
                            extra=dict(seed=seed, numpy=use_np, history=hist, probes=order, value=name, probe=probe, order_seed=seed * 131 + h)))
        res["steps"] = n
        res["stats"] = {"histories": n, "pool": len(pool), "probes_per_history": len(probes) * 12}
    except Exception:  # noqa: BLE001
        return dict(kind="oracle", fam=0, seed=seed, profile="c19", crash=traceback.format_exc())
    return res


def unit_c19_model(args):
    """correspondence of the cache algorithm: a fresh copy of every module-level resolver is run
    over a history; its answers must be those of SC/Resolver.lean `runHistory` for the same
    abstract history (type ids, blocklist membership, cache-free category)"""
    seed, use_np = args
    import suites
    ns = env.load()
    res = dict(kind="corr", fam=0, seed=seed, profile="c19/model/%s" % ("np" if use_np else "plain"), steps=0, hist={}, errors=0, diff=None, suite="unit_c19_model")
    rng = random.Random(seed * 271 + (7 if use_np else 0))
    pool = BASE_POOL + (NP_POOL if use_np else [])
    try:
        md = suites.model_driver(ns)
        hist = pick_history(rng, pool, 14)
        got = run_child(dict(numpy=use_np, repo=env.REPO, history=hist, probes=[], resolver_trace=True))
        mode = md.query("resmode")
        n = 0
        for rname, rows in got["__resolver_traces__"].items():
            line = "res " + " ".join("%d:%d:%d:%d" % (r["ty"], 1 if r["exact_blocked"] else 0, 1 if r["sub_blocked"] else 0, r["fresh"]) for r in rows)
            ans = md.query(line)
            want = "answers: " + " ".join(str(r["answer"]) for r in rows)
            n += len(rows)
            if ans != want and res["diff"] is None:
                res["diff"] = dict(at=0, ops=[("resolver", rname)], line="resolver %s over %s" % (rname, hist), real=want, model=ans + " (" + mode + ")")
        res["steps"] = n
        res["hist"] = {"get_type_calls": n}
    except Exception:  # noqa: BLE001
        return dict(kind="corr", fam=0, seed=seed, profile="c19/model", crash=traceback.format_exc())
    return res
