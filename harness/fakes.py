"""Fake stores for the Redis / MongoDB / Zarr backends, and a uniform `World`
that creates collection objects on numbered resources, reads a resource
independently of the library and plays the outside writer.

The fakes are *not* the real servers: a byte store, a deep-copying document
store with BSON's string-key rule, and a one-element array that round-trips
through JSON (what numcodecs.JSON does).  Evidence files say so.
"""
import copy
import json
import os
import sys


class FakeRedis:
    def __init__(self):
        self.data = {}
        self.writes = 0

    def get(self, key):
        return self.data.get(key)

    def set(self, key, value):
        assert isinstance(value, (bytes, str, int, float))
        self.writes += 1
        self.data[key] = value if isinstance(value, bytes) else str(value).encode()


def _check_bson(doc):
    bson = sys.modules["bson"]
    if isinstance(doc, dict):
        for k, v in doc.items():
            if not isinstance(k, str):
                raise bson.errors.InvalidDocument("documents must have only string keys, key was %r" % (k,))
            _check_bson(v)
    elif isinstance(doc, (list, tuple)):
        for v in doc:
            _check_bson(v)
    elif not isinstance(doc, (str, int, float, bool, type(None), bytes)):
        raise bson.errors.InvalidDocument("cannot encode object: %r" % (doc,))


class FakeMongoCollection:
    def __init__(self):
        self.docs = []
        self.writes = 0

    def _match(self, doc, flt):
        return all(doc.get(k) == v for k, v in flt.items())

    def find_one(self, flt):
        for d in self.docs:
            if self._match(d, flt):
                return copy.deepcopy(d)
        return None

    def replace_one(self, flt, doc, upsert=False):
        _check_bson(doc)
        self.writes += 1
        doc = copy.deepcopy(doc)
        for i, d in enumerate(self.docs):
            if self._match(d, flt):
                self.docs[i] = doc
                return
        if upsert:
            self.docs.append(doc)


class _FakeZarrArray:
    def __init__(self, group, name):
        self._group = group
        self._name = name

    def __getitem__(self, i):
        assert i == 0
        return json.loads(self._group.blobs[self._name])

    def __setitem__(self, i, value):
        assert i == 0
        self._group.writes += 1
        self._group.blobs[self._name] = json.dumps(value)


class FakeZarrGroup:
    def __init__(self):
        self.blobs = {}
        self.writes = 0

    def __getitem__(self, name):
        if name not in self.blobs:
            raise KeyError(name)
        return _FakeZarrArray(self, name)

    def require_dataset(self, name, overwrite=False, shape=None, dtype=None, object_codec=None):
        return _FakeZarrArray(self, name)


class _Missing:
    def __repr__(self):
        return "MISSING"

    def __reduce__(self):
        return (_get_missing, ())


def _get_missing():
    return MISSING


MISSING = _Missing()


class Corrupt:
    """content of a resource that is not parseable as JSON"""

    def __init__(self, raw):
        self.raw = raw

    def __repr__(self):
        return "Corrupt(%r)" % (self.raw[:80],)

    def __eq__(self, other):
        return False

    __hash__ = None


class World:
    """Resources `0, 1, 2, ...` of one backend family."""

    def __init__(self, ns, fam, tmpdir, write_concern=False):
        self.ns = ns
        self.fam = fam
        self.tmpdir = tmpdir
        self.write_concern = write_concern
        self.redis = FakeRedis()
        self.mongo = FakeMongoCollection()
        self.zarr = FakeZarrGroup()

    # -- naming
    def path(self, res):
        return os.path.join(self.tmpdir, "r%d.json" % res)

    def _kw(self, res):
        s = self.fam.store
        if s == "json":
            return dict(filename=self.path(res), write_concern=self.write_concern)
        if s == "redis":
            return dict(client=self.redis, key="r%d" % res)
        if s == "mongo":
            return dict(collection=self.mongo, uid={"res": "r%d" % res})
        if s == "zarr":
            return dict(group=self.zarr, name="r%d" % res)
        raise ValueError(s)

    def open(self, is_dict, res, data=MISSING):
        cls = self.fam.dict_cls if is_dict else self.fam.list_cls
        kw = self._kw(res)
        if data is not MISSING:
            kw["data"] = data
        return cls(**kw)

    # -- independent access to the resource
    def read(self, res):
        """Content of the resource as plain data, or MISSING."""
        s = self.fam.store
        if s == "json":
            try:
                with open(self.path(res), "rb") as f:
                    raw = f.read()
            except FileNotFoundError:
                return MISSING
            try:
                return json.loads(raw)
            except ValueError:
                return Corrupt(raw)
        if s == "redis":
            b = self.redis.data.get("r%d" % res)
            return MISSING if b is None else json.loads(b)
        if s == "mongo":
            for d in self.mongo.docs:
                if d.get("res") == "r%d" % res:
                    return copy.deepcopy(d["data"])
            return MISSING
        if s == "zarr":
            b = self.zarr.blobs.get("r%d" % res)
            return MISSING if b is None else json.loads(b)
        raise ValueError(s)

    def write(self, res, data, older=None):
        """The outside writer.  Its write always changes (st_size, st_mtime_ns); the new mtime is
        normally later than every earlier one, but an outside writer may also leave an OLDER
        timestamp (a restored backup, `cp -p`, `mv` of a file prepared earlier, a clock that is
        behind): `older=True`, or - by a deterministic function of the content - one in three of the
        rewrites that keep the file's size."""
        s = self.fam.store
        if s == "json":
            import zlib
            p = self.path(res)
            blob = json.dumps(data).encode()
            try:
                before = os.stat(p)
            except FileNotFoundError:
                before = None
            with open(p, "wb") as f:
                f.write(blob)
            # make sure (st_size, st_mtime_ns) differs from any earlier state
            st = os.stat(p)
            self._bump = getattr(self, "_bump", 0) + 1
            if older is None:
                older = before is not None and before.st_size == len(blob) and zlib.crc32(blob) % 3 == 0
            if older and before is not None:
                os.utime(p, ns=(st.st_atime_ns, before.st_mtime_ns - 10_000_000 - 1000 * self._bump))
            else:
                os.utime(p, ns=(st.st_atime_ns, st.st_mtime_ns + 1000 * self._bump))
        elif s == "redis":
            self.redis.data["r%d" % res] = json.dumps(data).encode()
        elif s == "mongo":
            uid = {"res": "r%d" % res}
            doc = {**uid, "data": copy.deepcopy(data)}
            for i, d in enumerate(self.mongo.docs):
                if d.get("res") == uid["res"]:
                    self.mongo.docs[i] = doc
                    break
            else:
                self.mongo.docs.append(doc)
        elif s == "zarr":
            self.zarr.blobs["r%d" % res] = json.dumps(data)

    def delete(self, res):
        s = self.fam.store
        if s == "json":
            try:
                os.unlink(self.path(res))
            except FileNotFoundError:
                pass
        elif s == "redis":
            self.redis.data.pop("r%d" % res, None)
        elif s == "mongo":
            self.mongo.docs = [d for d in self.mongo.docs if d.get("res") != "r%d" % res]
        elif s == "zarr":
            self.zarr.blobs.pop("r%d" % res, None)

    def resources(self):
        s = self.fam.store
        if s == "json":
            out = []
            for fn in os.listdir(self.tmpdir):
                if fn.startswith("r") and fn.endswith(".json"):
                    out.append(int(fn[1:-5]))
            return sorted(out)
        if s == "redis":
            return sorted(int(k[1:]) for k in self.redis.data)
        if s == "mongo":
            return sorted(int(d["res"][1:]) for d in self.mongo.docs)
        if s == "zarr":
            return sorted(int(k[1:]) for k in self.zarr.blobs)

    def write_count(self):
        s = self.fam.store
        if s == "redis":
            return self.redis.writes
        if s == "mongo":
            return self.mongo.writes
        if s == "zarr":
            return self.zarr.writes
        return None
