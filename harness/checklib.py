"""The check pipeline: regenerate tables from the source, build the Lean model and
proofs, audit the theorems, run correspondence and oracles, report."""
import collections
import fcntl
import glob
import json
import multiprocessing
import os
import re
import subprocess
import sys
import time

HERE = os.path.dirname(os.path.abspath(__file__))
VERIF = os.path.dirname(HERE)
LEAN = os.path.join(VERIF, "lean")
PY = "/venv/bin/python"
ALLOWED_AXIOMS = {"propext", "Classical.choice", "Quot.sound"}
FORBIDDEN_TOKENS = re.compile(r"\b(sorry|admit|native_decide|bv_decide|implemented_by|unsafe)\b|^\s*axiom\s|maxHeartbeats\s+0")

TRUSTED_BASE = [
    "Lean 4.33.0 kernel (lake build; thorough tier re-checks the .olean files with leanchecker)",
    "axioms admitted: propext, Classical.choice, Quot.sound only (audited with #print axioms on every property theorem); no sorry/admit/own axioms/native_decide/bv_decide",
    "translator harness/extract.py (registry, validators, protected keys, method brackets, resolver predicates read from /repo's working tree by import and AST)",
    "correspondence harness (generators, canonicalisation, diff, fakes for Redis/MongoDB/Zarr, deterministic scheduler, crash injector)",
    "modelled, not verified: CPython dict/list/json/isinstance/with semantics, os.replace atomicity, os.stat (size, mtime_ns) change on every outside write, md5/uuid4 collision-freeness, the Redis/MongoDB/Zarr servers (fakes), numpy (absent)",
]


class Lock:
    def __init__(self, path):
        self.path = path

    def __enter__(self):
        self.f = open(self.path, "w")
        fcntl.flock(self.f, fcntl.LOCK_EX)

    def __exit__(self, *a):
        fcntl.flock(self.f, fcntl.LOCK_UN)
        self.f.close()


def sh(cmd, cwd=None, timeout=3000):
    p = subprocess.run(cmd, cwd=cwd, stdout=subprocess.PIPE, stderr=subprocess.STDOUT, text=True, timeout=timeout)
    return p.returncode, p.stdout


def build(prop_module=None):
    """extract tables, build the driver (model) and the property's proof module.
    Returns dict(driver_ok, proofs_ok, log, failed)"""
    os.makedirs(os.path.join(VERIF, "work"), exist_ok=True)
    with Lock(os.path.join(VERIF, "work", "build.lock")):
        rc, out = sh([PY, os.path.join(HERE, "extract.py")], cwd=HERE)
        res = dict(extract_ok=rc == 0, extract_log=out[-4000:])
        rc, out = sh(["lake", "build", "driver"], cwd=LEAN)
        res["driver_ok"] = rc == 0
        res["driver_log"] = out[-6000:]
        targets = [prop_module] if prop_module else ["SC"]
        rc, out = sh(["lake", "build"] + targets, cwd=LEAN)
        res["proofs_ok"] = rc == 0
        res["proofs_log"] = out[-8000:]
        res["failed"] = sorted(set(re.findall(r"error: (SC/[\w/]+\.lean):(\d+):\d+", out)))
    return res


def theorem_names(prop):
    path = os.path.join(LEAN, "SC", "Props", "%s.lean" % prop)
    if not os.path.exists(path):
        return []
    src = open(path).read()
    return ["SC.Props." + m for m in re.findall(r"^theorem\s+(%s_\w+)" % prop, src, re.M)]


def scan_forbidden():
    """forbidden tokens in the Lean sources, ignoring comments"""
    hits = []
    for path in glob.glob(os.path.join(LEAN, "SC", "**", "*.lean"), recursive=True) + [os.path.join(LEAN, "Main.lean")]:
        src = open(path).read()
        src = re.sub(r"/-.*?-/", lambda m: "\n" * m.group(0).count("\n"), src, flags=re.S)
        for i, line in enumerate(src.split("\n"), 1):
            line = line.split("--")[0]
            if FORBIDDEN_TOKENS.search(line):
                hits.append("%s:%d: %s" % (os.path.relpath(path, VERIF), i, line.strip()[:80]))
    return hits


def audit(prop):
    """#print axioms for every property theorem; returns (obligations, discharged, details)"""
    names = theorem_names(prop)
    if not names:
        return 0, 0, {"error": "no theorems"}
    work = os.path.join(VERIF, "work")
    path = os.path.join(work, "Audit_%s_%d.lean" % (prop, os.getpid()))
    with open(path, "w") as f:
        f.write("import SC.Props.%s\n" % prop)
        for n in names:
            f.write("#print axioms %s\n" % n)
    rc, out = sh(["lake", "env", "lean", path], cwd=LEAN)
    os.unlink(path)
    details = {}
    text = out.replace("\n  ", " ")
    for n in names:
        m = re.search(r"'%s' depends on axioms: \[(.*?)\]" % re.escape(n), text, re.S)
        if m:
            ax = {a.strip() for a in m.group(1).split(",") if a.strip()}
            details[n] = sorted(ax)
        elif re.search(r"'%s' does not depend on any axioms" % re.escape(n), text):
            details[n] = []
        else:
            details[n] = None
    ok = [n for n, ax in details.items() if ax is not None and set(ax) <= ALLOWED_AXIOMS]
    return len(names), len(ok), details


def leanchecker(prop):
    rc, out = sh(["lake", "env", "leanchecker", "SC.Props.%s" % prop], cwd=LEAN, timeout=3000)
    return rc == 0, out[-2000:]


# ------------------------------------------------------------------ running units

def _run_unit(task):
    sys.path.insert(0, HERE)
    import suites
    fn = getattr(suites, task[0])
    try:
        return fn(task[1])
    except Exception:  # noqa: BLE001
        import traceback
        return dict(kind="crash", task=repr(task), crash=traceback.format_exc())


def run_units(tasks, procs=None):
    """run the work units on a process pool.  A unit that reports a model/code disagreement or
    crashes is re-run once in a fresh process (units share long-lived worker processes and one
    model-driver pipe per worker; a disagreement must not depend on what ran before it): only
    what reproduces is reported, the rest is counted in `NOT_REPRODUCED`."""
    procs = procs or min(16, os.cpu_count() or 4)
    if not tasks:
        return []
    ctx = multiprocessing.get_context("fork")
    with ctx.Pool(procs, maxtasksperchild=200) as pool:
        results = pool.map(_run_unit, tasks, chunksize=4)
    suspicious = [i for i, r in enumerate(results) if r and (r.get("crash") or r.get("diff"))]
    for i in suspicious[:12]:
        with ctx.Pool(1, maxtasksperchild=1) as pool:
            again = pool.map(_run_unit, [tasks[i]])[0]
        if again and (again.get("crash") or again.get("diff")):
            results[i] = again
        else:
            NOT_REPRODUCED.append(repr(tasks[i])[:200])
            results[i] = again
    return results


NOT_REPRODUCED = []


# ------------------------------------------------------------------ known findings / reporting

def load_known():
    path = os.path.join(VERIF, "known_findings.json")
    if os.path.exists(path):
        return json.load(open(path))
    return {"findings": [], "fixed": []}


def write_replay(prop, tag, payload):
    d = os.path.join(VERIF, "work", "replays")
    os.makedirs(d, exist_ok=True)
    path = os.path.join(d, "%s_%s.json" % (prop, tag))
    with open(path, "w") as f:
        json.dump(payload, f, indent=1, default=repr)
    return path


def write_evidence(prop, tier, seed, coverage, assumptions, wall, violations):
    os.makedirs(os.path.join(VERIF, "evidence"), exist_ok=True)
    ev = dict(property_id=prop, tier=tier, seed=seed, level="proof", coverage=coverage,
              assumptions=assumptions, wall_s=round(wall, 2), violations=violations)
    with open(os.path.join(VERIF, "evidence", "%s.json" % prop), "w") as f:
        json.dump(ev, f, indent=1, default=repr)
