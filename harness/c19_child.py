"""Child process of the C19 check: optional numpy stand-in, a warm-up history, then probes.
Usage: c19_child.py <json spec on stdin> ; prints one JSON line with the probe outcomes."""
import json
import os
import sys
import tempfile
import types
import warnings


def install_fake_numpy():
    np = types.ModuleType("numpy")

    class ndarray:
        def __init__(self, data):
            self._d = data
            d, n = data, 0
            while isinstance(d, list):
                n += 1
                d = d[0] if d else None
            self.ndim = n
            self.shape = (len(data),) if isinstance(data, list) else ()

        def tolist(self):
            return self._d

        def item(self):
            return self._d

        def __iter__(self):
            return iter(self._d)

        def __len__(self):
            return len(self._d)

        def __getitem__(self, i):
            return self._d[i]

        def __eq__(self, other):
            return self._d == (other._d if isinstance(other, ndarray) else other)

        __hash__ = None

    class number:
        def __init__(self, v):
            self._v = v

        def item(self):
            return self._v

    class bool_:
        def __init__(self, v):
            self._v = v

        def item(self):
            return bool(self._v)

    class MaskedLike(ndarray):
        """an ndarray subclass (numpy has several: matrix, recarray, ma.MaskedArray)"""

    np.iscomplexobj = lambda x: isinstance(x, complex) or isinstance(getattr(x, "_d", None), complex)
    np.ndarray, np.number, np.bool_, np.MaskedLike = ndarray, number, bool_, MaskedLike
    np.__version__ = "0.0-standin"
    sys.modules["numpy"] = np
    return np


def build_pool(np):
    from collections import OrderedDict, UserDict, UserList, namedtuple
    from collections.abc import Mapping, Sequence

    class MyStr(str):
        pass

    class MyDict(dict):
        pass

    class MyList(list):
        pass

    class MyTuple(tuple):
        pass

    class MyMap(Mapping):
        def __init__(self, d):
            self._d = d

        def __getitem__(self, k):
            return self._d[k]

        def __iter__(self):
            return iter(self._d)

        def __len__(self):
            return len(self._d)

    class MySeq(Sequence):
        def __init__(self, xs):
            self._x = xs

        def __getitem__(self, i):
            return self._x[i]

        def __len__(self):
            return len(self._x)

    class Row(UserDict, Sequence):
        """both a Mapping and a Sequence"""

    class SeqMap(MySeq, Mapping):
        def __iter__(self):
            return iter(range(len(self._x)))

    class Neither:
        pass

    class MySet(set):
        pass

    P = namedtuple("P", "x y")
    pool = {
        "dict": lambda: {"a": 1}, "list": lambda: [1, 2], "tuple": lambda: (1, 2), "str": lambda: "s", "int": lambda: 3,
        "float": lambda: 2.5, "bool": lambda: True, "none": lambda: None, "bytes": lambda: b"ab",
        "mystr": lambda: MyStr("m"), "mydict": lambda: MyDict(a=1), "mylist": lambda: MyList([1]), "mytuple": lambda: MyTuple((1,)),
        "userdict": lambda: UserDict({"u": 1}), "userlist": lambda: UserList([1]), "ordered": lambda: OrderedDict(o=1),
        "mymap": lambda: MyMap({"m": 1}), "myseq": lambda: MySeq([1, 2]), "row": lambda: Row({"a.b": 1}),
        "row2": lambda: Row({"k": 2 + 3j}), "seqmap": lambda: SeqMap([5]), "neither": lambda: Neither(), "named": lambda: P(1, 2),
        "range": lambda: range(2), "dotdict": lambda: {"a.b": 1}, "badleaf": lambda: [1, Neither()],
        "dictofrow": lambda: {"r": Row({"z": 1})}, "listofuser": lambda: [UserDict({"q": 1}), UserList([2])],
        "myset": lambda: MySet({1}),
        # non-finite floats: Python's json writes them, and their TYPE is the type of every float
        "nan": lambda: float("nan"), "inf": lambda: float("inf"), "nanlist": lambda: [1.5, float("nan")], "half": lambda: 0.5,
        # classes created on the fly (every call makes a NEW class, which becomes garbage afterwards):
        # a later class may reuse the address - and id() - of a dead one
        "tmp_dict": lambda: type("TmpD", (dict,), {})({"a": 1}), "tmp_list": lambda: type("TmpL", (list,), {})([1]),
        "tmp_set": lambda: type("TmpS", (set,), {})({1}), "tmp_obj": lambda: type("TmpO", (), {})(),
    }
    if np is not None:
        pool.update({
            "nd0": lambda: np.ndarray(5), "nd1": lambda: np.ndarray([1, 2]), "nd2": lambda: np.ndarray([[1], [2]]),
            "sub0": lambda: np.MaskedLike(7), "sub1": lambda: np.MaskedLike([1, 2]), "sub1bad": lambda: np.MaskedLike([1, Neither()]),
            "npnum": lambda: np.number(4), "npbool": lambda: np.bool_(1),
        })
    return pool


def describe(v):
    if isinstance(v, dict):
        return {"dict": {str(k): describe(x) for k, x in v.items()}}
    if isinstance(v, list):
        return {"list": [describe(x) for x in v]}
    return "%s:%r" % (type(v).__name__, v)


def outcome(fn):
    try:
        with warnings.catch_warnings():
            warnings.simplefilter("ignore")
            return ["ok", fn()]
    except Exception as e:  # noqa: BLE001
        return ["err", type(e).__name__]


def main():
    spec = json.load(sys.stdin)
    np = install_fake_numpy() if spec.get("numpy") else None
    repo = spec.get("repo", "/repo")
    sys.path.insert(0, repo)
    import synced_collections  # noqa: F401
    assert os.path.realpath(synced_collections.__file__).startswith(os.path.realpath(repo) + os.sep)
    from synced_collections import validators
    from synced_collections.backends import collection_json as J
    from synced_collections.data_types import synced_collection as scmod
    from synced_collections.data_types import synced_dict as sdmod
    from synced_collections.data_types import synced_list as slmod
    pool = build_pool(np)
    tmp = tempfile.mkdtemp(prefix="scverif_c19_")
    cnt = [0]

    def fresh(cls):
        cnt[0] += 1
        return cls(filename=os.path.join(tmp, "f%d.json" % cnt[0]))

    import random as _random
    order_rng = _random.Random(spec["order_seed"]) if spec.get("order_seed") is not None else None


    def feed(name):
        """process a value through validators and collections (warm-up)"""
        v = pool[name]()
        vals = [validators.require_string_key, validators.json_format_validator, validators.no_dot_in_key, J.json_attr_dict_validator]
        if order_rng is not None:
            order_rng.shuffle(vals)
        for val in vals:
            outcome(lambda: val(v))
        outcome(lambda: fresh(J.JSONDict).__setitem__("k", v))
        outcome(lambda: fresh(J.JSONAttrDict).__setitem__("k", v))
        outcome(lambda: fresh(J.JSONList).append(v))
        outcome(lambda: fresh(J.JSONDict).update({"u": v}))
        outcome(lambda: fresh(J.JSONList).reset(v))
        outcome(lambda: fresh(J.JSONDict).reset(v))
        if name.startswith("tmp_"):
            del v
            import gc
            gc.collect()      # the class is dead now; its address is free for the next one

    class _Ordered(dict):
        """probe name -> thunk; evaluated in canonical order, or - when the run has an order seed -
        in a shuffled order: the outcome of a probe must not depend on which probes (through which
        validator / resolver) came before it"""

    def probes(name):
        todo = []
        mk = pool[name]
        todo.append(("require_string_key", lambda: validators.require_string_key(mk())))
        todo.append(("json_format", lambda: validators.json_format_validator(mk())))
        todo.append(("no_dot", lambda: validators.no_dot_in_key(mk())))
        todo.append(("json_attr", lambda: J.json_attr_dict_validator(mk())))
        todo.append(("dict_base", lambda: J.JSONDict.is_base_type(mk())))
        todo.append(("list_base", lambda: J.JSONList.is_base_type(mk())))

        def setitem(cls):
            x = fresh(cls)
            x["k"] = mk()
            return [describe(x()), type(x._data["k"]).__name__]
        todo.append(("dict_setitem", lambda: setitem(J.JSONDict)))
        todo.append(("attr_setitem", lambda: setitem(J.JSONAttrDict)))

        def append():
            x = fresh(J.JSONList)
            x.append(mk())
            return [describe(x()), type(x._data[0]).__name__]
        todo.append(("list_append", append))

        def update():
            x = fresh(J.JSONDict)
            x["u"] = [0]
            x.update({"u": mk()})
            return describe(x())
        todo.append(("dict_update", update))

        def lreset():
            x = fresh(J.JSONList)
            x.reset(mk())
            return describe(x())
        todo.append(("list_reset", lreset))

        def dreset():
            x = fresh(J.JSONDict)
            x.reset(mk())
            return describe(x())
        todo.append(("dict_reset", dreset))
        if order_rng is not None:
            order_rng.shuffle(todo)
        return {k: outcome(f) for k, f in todo}

    for name in spec["history"]:
        if name in pool:
            feed(name)
    res = {}
    for name in spec["probes"]:
        if name in pool:
            res[name] = probes(name)
    # resolver-level trace for the model correspondence: answers of a FRESH copy of every
    # module-level resolver over the history + probes
    if spec.get("resolver_trace"):
        from synced_collections.utils import AbstractTypeResolver
        traces = {}
        names = [n for n in spec["history"] + spec["probes"] if n in pool]
        mods = {"validators": validators, "collection_json": J, "synced_collection": scmod, "synced_dict": sdmod, "synced_list": slmod}
        for mname, mod in mods.items():
            for attr, r in vars(mod).items():
                if isinstance(r, AbstractTypeResolver) and attr.startswith("_"):
                    cats = list(r.abstract_type_identifiers)
                    bl = tuple(r.cache_blocklist or ())
                    copy_r = AbstractTypeResolver(dict(r.abstract_type_identifiers), r.cache_blocklist)
                    tids = {}
                    rows = []
                    for n in names:
                        v = pool[n]()
                        t = type(v)
                        tid = tids.setdefault(t, len(tids))
                        freshcat = None
                        for c, f in r.abstract_type_identifiers.items():
                            if f(v):
                                freshcat = cats.index(c)
                                break
                        ans = copy_r.get_type(v)
                        rows.append(dict(ty=tid, exact_blocked=t in bl, sub_blocked=bool(bl) and issubclass(t, bl) and t not in bl,
                                         fresh=-1 if freshcat is None else freshcat, answer=-1 if ans is None else cats.index(ans)))
                    traces["%s.%s" % (mname, attr)] = rows
        res["__resolver_traces__"] = traces
    import shutil
    shutil.rmtree(tmp, ignore_errors=True)
    print(json.dumps(res, default=repr))


if __name__ == "__main__":
    main()
