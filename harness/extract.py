"""Translator: /repo working tree -> lean/SC/Generated/*.lean.

Emits *data* about the code as it is now (class registry, validator lists,
protected keys, constructor-assigned attributes, public API inventory with the
synchronisation bracket of every method defined in the repo, resolver tables).
It has no knowledge of expected answers: an unknown validator / context
manager / predicate is emitted as `.unknown`, which makes the dependent Lean
obligations fail rather than pass.
"""
import ast
import inspect
import os
import sys
import tempfile
import textwrap

HERE = os.path.dirname(os.path.abspath(__file__))
sys.path.insert(0, HERE)
import env  # noqa: E402
from fakes import World  # noqa: E402

OUT_DIR = os.path.join(os.path.dirname(HERE), "lean", "SC", "Generated")

VALIDATOR_LEAN = {
    "require_string_key": ".requireStringKey",
    "json_format_validator": ".jsonFormat",
    "no_dot_in_key": ".noDotInKey",
    "json_attr_dict_validator": ".jsonAttrDict",
}


def lstr(s):
    return '"' + s.replace("\\", "\\\\").replace('"', '\\"') + '"'


def llist(xs):
    return "[" + ", ".join(xs) + "]"


def lbool(b):
    return "true" if b else "false"


def validators_of(cls):
    out = []
    for i, v in enumerate(cls._all_validators):
        out.append(VALIDATOR_LEAN.get(getattr(v, "__name__", None), "(.unknown %d)" % i))
    return out


# ---------------------------------------------------------------- method brackets (AST)

CTX_NAMES = {"_load_and_save": ".loadAndSave", "_suspend_sync": ".suspendSync",
             "_thread_lock": ".threadLock", "_buffer_lock": ".bufferLock",
             "_overwrite_context": ".overwrite"}


def method_summary(func):
    """Shallow AST summary of a method defined in the repo."""
    try:
        src = textwrap.dedent(inspect.getsource(func))
        tree = ast.parse(src).body[0]
    except (OSError, TypeError, IndexError, SyntaxError):
        return None
    ctxs, validate_before, rebinds, loads, saves = [], False, False, False, False
    seen_with = False
    for node in ast.walk(tree):
        if isinstance(node, ast.With):
            for item in node.items:
                e = item.context_expr
                if isinstance(e, ast.Call):
                    e = e.func
                if isinstance(e, ast.Attribute) and isinstance(e.value, ast.Name) and e.value.id == "self":
                    ctxs.append(CTX_NAMES.get(e.attr, "(.unknown %s)" % lstr(e.attr)))
                else:
                    ctxs.append("(.unknown %s)" % lstr(ast.dump(e)[:40]))
        if isinstance(node, (ast.Assign, ast.AugAssign)):
            targets = node.targets if isinstance(node, ast.Assign) else [node.target]
            for t in targets:
                if isinstance(t, ast.Attribute) and t.attr == "_data" and isinstance(t.value, ast.Name) \
                        and t.value.id == "self" and isinstance(node, ast.Assign):
                    rebinds = True
        if isinstance(node, ast.Call) and isinstance(node.func, ast.Attribute) and \
                isinstance(node.func.value, ast.Name) and node.func.value.id == "self":
            if node.func.attr == "_load":
                loads = True
            if node.func.attr == "_save":
                saves = True
    # is `self._validate(...)` called before the first `with`?
    for stmt in tree.body:
        if isinstance(stmt, ast.With):
            seen_with = True
            break
        for node in ast.walk(stmt):
            if isinstance(node, ast.Call) and isinstance(node.func, ast.Attribute) and node.func.attr == "_validate":
                validate_before = True
    return dict(ctxs=ctxs, validate_before=validate_before and seen_with, rebinds=rebinds,
                explicit_load=loads, explicit_save=saves)


MUTATING_ABC = {
    "dict": ["__setitem__", "__delitem__", "pop", "popitem", "clear", "update", "setdefault"],
    "list": ["__setitem__", "__delitem__", "insert", "append", "reverse", "extend", "pop", "remove",
             "__iadd__", "clear"],
}
READING_ABC = {
    "dict": ["__getitem__", "__iter__", "__len__", "__contains__", "keys", "items", "values", "get",
             "__eq__", "__ne__"],
    "list": ["__getitem__", "__iter__", "__len__", "__contains__", "__reversed__", "index", "count",
             "__eq__", "__ne__", "__lt__", "__le__", "__gt__", "__ge__"],
}
EXTRA = {"dict": (["reset"], ["__call__", "__repr__", "__str__"]),
         "list": (["reset"], ["__call__", "__repr__", "__str__"])}


def api_of(cls, kind, repo_root):
    """(name, mutates, defined_in_repo, summary) for the public collection API of `cls`."""
    out = []
    muts = MUTATING_ABC[kind] + EXTRA[kind][0]
    reads = READING_ABC[kind] + EXTRA[kind][1]
    for name in muts + reads:
        func = None
        for base in cls.__mro__:
            if name in vars(base):
                func = vars(base)[name]
                owner = base
                break
        if func is None:
            out.append((name, name in muts, False, None))
            continue
        try:
            fn = inspect.getsourcefile(func) or ""
        except TypeError:
            fn = ""
        in_repo = os.path.realpath(fn).startswith(os.path.realpath(repo_root) + os.sep)
        out.append((name, name in muts, in_repo, method_summary(func) if in_repo else None))
    return out


def merge_summary(cls, repo_root):
    """What the in-place merge `_update` (every load goes through it) does with the collection's
    own API: the public mutators it calls on `self` and the contexts it enters.  A merge that calls
    a public mutator enters that mutator's load-and-save context, i.e. takes the thread lock."""
    func = None
    for base in cls.__mro__:
        if "_update" in vars(base):
            func = vars(base)["_update"]
            break
    calls, ctxs = [], []
    if func is None:
        return ["<no _update>"], ctxs
    try:
        tree = ast.parse(textwrap.dedent(inspect.getsource(func))).body[0]
    except (OSError, TypeError, IndexError, SyntaxError):
        return ["<no source>"], ctxs
    public = set(MUTATING_ABC["dict"] + MUTATING_ABC["list"] + ["reset"])
    for node in ast.walk(tree):
        if isinstance(node, ast.Call) and isinstance(node.func, ast.Attribute) and \
                isinstance(node.func.value, ast.Name) and node.func.value.id == "self" and node.func.attr in public:
            calls.append(node.func.attr)
        if isinstance(node, ast.With):
            for item in node.items:
                e = item.context_expr
                if isinstance(e, ast.Call):
                    e = e.func
                if isinstance(e, ast.Attribute) and isinstance(e.value, ast.Name) and e.value.id == "self":
                    ctxs.append(CTX_NAMES.get(e.attr, "(.unknown %s)" % lstr(e.attr)))
                else:
                    ctxs.append("(.unknown %s)" % lstr(ast.dump(e)[:40]))
    return sorted(set(calls)), ctxs


def emit_summary(s):
    if s is None:
        return "none"
    return "(some ⟨%s, %s, %s, %s, %s⟩)" % (llist(s["ctxs"]), lbool(s["validate_before"]), lbool(s["rebinds"]),
                                             lbool(s["explicit_load"]), lbool(s["explicit_save"]))


# ---------------------------------------------------------------- resolvers (AST)

def resolver_tables(ns):
    """Every module-level AbstractTypeResolver: its predicates classified from their AST."""
    import synced_collections.numpy_utils as nu
    mods = [ns.validators, ns.json_mod, sys.modules["synced_collections.data_types.synced_collection"],
            sys.modules["synced_collections.data_types.synced_dict"],
            sys.modules["synced_collections.data_types.synced_list"]]
    out = []
    for mod in mods:
        try:
            tree = ast.parse(inspect.getsource(mod))
        except OSError:
            continue
        for node in tree.body:
            if not (isinstance(node, ast.Assign) and isinstance(node.value, ast.Call)):
                continue
            f = node.value.func
            if not (isinstance(f, ast.Name) and f.id == "AbstractTypeResolver"):
                continue
            name = node.targets[0].id
            obj = getattr(mod, name)
            preds = []
            d = node.value.args[0]
            for k, v in zip(d.keys, d.values):
                cls = classify_predicate(v)
                preds.append((k.value, cls))
            bl = [getattr(t, "__name__", repr(t)) for t in obj.cache_blocklist]
            # does get_type test the blocklist by exact type or by subclass?
            out.append((mod.__name__.rsplit(".", 1)[-1] + "." + name, preds, bl))
    gt_src = inspect.getsource(ns.utils.AbstractTypeResolver.get_type)
    exact = "obj_type not in self.cache_blocklist" in gt_src
    subclass = "issubclass" in gt_src or "isinstance(obj, self.cache_blocklist" in gt_src
    mode = ".exactType" if exact and not subclass else (".subclassAware" if subclass else ".unknownMode")
    return out, mode, bool(nu.NUMPY)


NUMPY_HELPERS = {"_is_atleast_1d_numpy_array", "_is_numpy_scalar"}


def classify_predicate(lam):
    """`.typeDetermined` if the lambda body is a boolean combination of isinstance(obj, ...)
    only; `.instanceDependentOnNdarray` if it additionally calls the numpy helpers (whose
    answer depends on ndim for ndarray and its subclasses); else `.unknownPred`."""
    if not isinstance(lam, ast.Lambda):
        return ".unknownPred"
    uses_numpy = False

    def ok(e):
        nonlocal uses_numpy
        if isinstance(e, ast.BoolOp):
            return all(ok(x) for x in e.values)
        if isinstance(e, ast.UnaryOp) and isinstance(e.op, ast.Not):
            return ok(e.operand)
        if isinstance(e, ast.Call) and isinstance(e.func, ast.Name):
            if e.func.id == "isinstance":
                return True
            if e.func.id in NUMPY_HELPERS:
                uses_numpy = True
                return True
        return False

    if not ok(lam.body):
        return ".unknownPred"
    return ".instanceDependentOnNdarray" if uses_numpy else ".typeDetermined"


# ---------------------------------------------------------------- main

def generate():
    ns = env.load()
    repo_root = os.path.join(env.REPO, "synced_collections")
    lines = ["/- GENERATED by harness/extract.py from %s — do not edit. -/" % "the /repo working tree",
             "import SC.Table", "namespace SC.Generated", "open SC", ""]
    fam_names = []
    with tempfile.TemporaryDirectory(prefix="scverif_x_") as tmp:
        for fam in ns.families:
            world = World(ns, fam, tmp)
            cls_entries = []
            for cls in fam.classes:
                is_dict = issubclass(cls, ns.SyncedDict)
                kind = "dict" if is_dict else "list"
                inst = world.open(is_dict, 900 + fam.index)
                child_d = type(inst._from_base({}, parent=inst)).__name__
                child_l = type(inst._from_base([], parent=inst)).__name__
                # data that is itself a synced collection of ANOTHER family
                ofam = [f for f in ns.families if f.index != fam.index][0 if fam.index != 0 else 1]
                ow = World(ns, ofam, tmp)
                fd, fl = ow.open(True, 800 + fam.index, {"a": 1}), ow.open(False, 820 + fam.index, [1])
                child_df = type(inst._from_base(fd, parent=inst)).__name__
                child_lf = type(inst._from_base(fl, parent=inst)).__name__
                inst_attrs = sorted(vars(inst).keys())
                assigned = assigned_on_self(cls)
                protected = sorted(getattr(cls, "_PROTECTED_KEYS", ())) if hasattr(cls, "_PROTECTED_KEYS") else []
                is_attr = any(b.__name__ == "AttrDict" for b in cls.__mro__)
                api = api_of(cls, kind, repo_root)
                api_l = llist(["⟨%s, %s, %s, %s⟩" % (lstr(n), lbool(m), lbool(r), emit_summary(s)) for n, m, r, s in api])
                cls_entries.append(
                    "  { name := %s, isDict := %s, validators := %s, supportsThreading := %s,\n"
                    "    attrAccess := %s, protectedKeys := %s,\n    instAttrs := %s,\n    assignedAttrs := %s,\n    classAttrs := %s,\n"
                    "    childDict := %s, childList := %s, childDictForeign := %s, childListForeign := %s,\n    api := %s,\n"
                    "    mergeCalls := %s, mergeCtxs := %s }" % (
                        lstr(cls.__name__), lbool(is_dict), llist(validators_of(cls)),
                        lbool(bool(cls._supports_threading)), lbool(is_attr),
                        llist([lstr(k) for k in protected]), llist([lstr(k) for k in inst_attrs]),
                        llist([lstr(k) for k in assigned]),
                        llist([lstr(k) for k in sorted(dir(cls))]),
                        lstr(child_d), lstr(child_l), lstr(child_df), lstr(child_lf), api_l,
                        llist([lstr(c) for c in merge_summary(cls, repo_root)[0]]), llist(merge_summary(cls, repo_root)[1])))
            store = {"json": ".json", "redis": ".redis", "mongo": ".mongo", "zarr": ".zarr"}.get(fam.store, ".unknownStore")
            buf = {None: ".none", "serialized": ".serialized", "memory": ".sharedMemory"}[fam.buffered]
            nm = "fam%d" % fam.index
            fam_names.append(nm)
            lines.append("def %s : FamInfo :=\n  { backend := %s, store := %s, buffering := %s,\n    classes := [\n%s] }\n" % (
                nm, lstr(fam.backend), store, buf, ",\n".join(cls_entries)))
    lines.append("def families : List FamInfo := %s\n" % llist(fam_names))
    res, mode, has_numpy = resolver_tables(ns)
    rl = []
    for name, preds, bl in res:
        rl.append("  { name := %s, preds := %s, blocklist := %s }" % (
            lstr(name), llist(["(%s, %s)" % (lstr(k), c) for k, c in preds]), llist([lstr(b) for b in bl])))
    lines.append("def resolvers : List ResolverInfo := [\n%s]\n" % ",\n".join(rl))
    lines.append("def blocklistMode : BlocklistMode := %s\n" % mode)
    lines.append("def bufferHash : HashKind := %s\n" % buffer_hash_kind(ns))
    lines.append("def numpyPresent : Bool := %s\n" % lbool(has_numpy))
    lines.append("end SC.Generated")
    return "\n".join(lines) + "\n"


def buffer_hash_kind(ns):
    """`.cryptographic` iff every `return` of SerializedFileBufferedCollection._hash that returns a
    value returns `<m>.hexdigest()` / `.digest()` of an object built by hashlib.<known algorithm>
    (directly or through one local variable) and nothing else is returned"""
    import inspect
    import textwrap
    good = {"md5", "sha1", "sha224", "sha256", "sha384", "sha512", "sha3_224", "sha3_256", "sha3_384", "sha3_512", "blake2b", "blake2s"}
    try:
        mod = __import__("synced_collections.buffers.serialized_file_buffered_collection", fromlist=["x"])
        fn = mod.SerializedFileBufferedCollection.__dict__["_hash"]
        fn = getattr(fn, "__func__", fn)
        tree = ast.parse(textwrap.dedent(inspect.getsource(fn)))
    except Exception:  # noqa: BLE001
        return ".otherHash"

    def is_hashlib_ctor(e):
        return isinstance(e, ast.Call) and isinstance(e.func, ast.Attribute) and e.func.attr in good and \
            isinstance(e.func.value, ast.Name) and e.func.value.id == "hashlib"
    hvars = set()
    for node in ast.walk(tree):
        if isinstance(node, ast.Assign) and is_hashlib_ctor(node.value):
            for t in node.targets:
                if isinstance(t, ast.Name):
                    hvars.add(t.id)
    rets = [n for n in ast.walk(tree) if isinstance(n, ast.Return) and n.value is not None
            and not (isinstance(n.value, ast.Constant) and n.value.value is None)]
    if not rets:
        return ".otherHash"
    for r in rets:
        v = r.value
        ok = isinstance(v, ast.Call) and isinstance(v.func, ast.Attribute) and v.func.attr in ("hexdigest", "digest") and (
            (isinstance(v.func.value, ast.Name) and v.func.value.id in hvars) or is_hashlib_ctor(v.func.value))
        if not ok:
            return ".otherHash"
    return ".cryptographic"


def assigned_on_self(cls):
    """every non-dunder attribute name assigned on `self` (Assign / AugAssign / AnnAssign targets,
    tuple targets included) in the source of the class and of its bases inside the package"""
    import inspect
    import textwrap
    out = set()
    root = os.path.realpath(env.REPO)
    for b in cls.__mro__:
        try:
            f = inspect.getsourcefile(b)
            if not f or not os.path.realpath(f).startswith(root + os.sep):
                continue
            tree = ast.parse(textwrap.dedent(inspect.getsource(b)))
        except (TypeError, OSError):
            continue
        for node in ast.walk(tree):
            tg = []
            if isinstance(node, ast.Assign):
                tg = node.targets
            elif isinstance(node, (ast.AugAssign, ast.AnnAssign)):
                tg = [node.target]
            for t in tg:
                for tt in ast.walk(t):
                    if isinstance(tt, ast.Attribute) and isinstance(tt.value, ast.Name) and tt.value.id == "self" \
                            and isinstance(tt.ctx, ast.Store) and not tt.attr.startswith("__"):
                        out.add(tt.attr)
    return sorted(out)


def main():
    text = generate()
    os.makedirs(OUT_DIR, exist_ok=True)
    path = os.path.join(OUT_DIR, "Tables.lean")
    old = open(path).read() if os.path.exists(path) else None
    if old != text:
        with open(path, "w") as f:
            f.write(text)
        print("extract: wrote", path)
    else:
        print("extract: unchanged")


if __name__ == "__main__":
    main()
