"""Import synced_collections from /repo's working tree with stand-ins for the
optional third-party packages, and describe the concrete classes.

Nothing here knows what the library is supposed to do; it only makes all 18
registered classes constructible against fake stores (see fakes.py).
"""
import importlib
import os
import sys
import types

REPO = os.environ.get("VERIF_REPO", "/repo")
os.environ.setdefault("SYNCED_COLLECTIONS_VERIF", "1")


def _install_stubs():
    if "bson" not in sys.modules:
        bson = types.ModuleType("bson")
        errors = types.ModuleType("bson.errors")

        class InvalidDocument(Exception):
            pass

        errors.InvalidDocument = InvalidDocument
        bson.errors = errors
        sys.modules["bson"] = bson
        sys.modules["bson.errors"] = errors
    if "numcodecs" not in sys.modules:
        numcodecs = types.ModuleType("numcodecs")

        class JSON:
            """Stand-in for numcodecs.JSON: the fake zarr group encodes with json."""

            codec_id = "json2"

        numcodecs.JSON = JSON
        sys.modules["numcodecs"] = numcodecs


_loaded = None


def load():
    """Import the package (once) and return a namespace of what the harness needs."""
    global _loaded
    if _loaded is not None:
        return _loaded
    _install_stubs()
    if REPO not in sys.path:
        sys.path.insert(0, REPO)
    sc = importlib.import_module("synced_collections")
    assert os.path.realpath(sc.__file__).startswith(os.path.realpath(REPO) + os.sep), (
        "synced_collections imported from %s, not from %s" % (sc.__file__, REPO)
    )
    ns = types.SimpleNamespace()
    ns.sc = sc
    ns.json_mod = importlib.import_module("synced_collections.backends.collection_json")
    ns.redis_mod = importlib.import_module("synced_collections.backends.collection_redis")
    ns.mongo_mod = importlib.import_module("synced_collections.backends.collection_mongodb")
    ns.zarr_mod = importlib.import_module("synced_collections.backends.collection_zarr")
    ns.validators = importlib.import_module("synced_collections.validators")
    ns.errors = importlib.import_module("synced_collections.errors")
    ns.utils = importlib.import_module("synced_collections.utils")
    ns.SyncedCollection = sc.SyncedCollection
    ns.SyncedDict = sc.SyncedDict
    ns.SyncedList = sc.SyncedList
    ns.registry = sc.SyncedCollection.registry
    ns.families = describe_families(ns)
    _loaded = ns
    return ns


VALIDATOR_CODES = {
    "require_string_key": "r",
    "json_format_validator": "j",
    "no_dot_in_key": "d",
    "json_attr_dict_validator": "a",
}


def validator_code(cls):
    code = "".join(VALIDATOR_CODES.get(getattr(v, "__name__", "?"), "u") for v in cls._all_validators)
    return code or "-"


def describe_families(ns):
    """One record per registry entry (backend string), in registry order."""
    fams = []
    for backend, classes in ns.registry.items():
        dict_cls = [c for c in classes if issubclass(c, ns.SyncedDict)]
        list_cls = [c for c in classes if issubclass(c, ns.SyncedList)]
        short = backend.rsplit(".", 1)[-1] if "collection_json" not in backend else (
            "json" + backend.split("collection_json", 1)[1].replace(".", "_"))
        kind = ("json" if "collection_json" in backend else
                "redis" if "redis" in backend else
                "mongo" if "mongodb" in backend else
                "zarr" if "zarr" in backend else "unknown")
        fams.append(types.SimpleNamespace(
            index=len(fams), backend=backend, short=short, store=kind,
            classes=classes, dict_cls=dict_cls[0] if dict_cls else None,
            list_cls=list_cls[0] if list_cls else None,
            buffered=("memory" if "memory_buffered" in backend else
                      "serialized" if "buffered" in backend else None),
            attr="attr" in backend,
        ))
    return fams
