"""Multi-threaded programs on the real classes under the deterministic scheduler (sched.py),
their serial reference outcomes, and the work units for C09 / C10 / C13 / C14."""
import collections
import itertools
import json
import os
import random
import traceback

import drive
import env
import sched as S
from fakes import MISSING, World
from oracles import MUTATORS, err_class, strict_eq, to_plain
from proto import apply_call, enc


def _sorted(v):
    """key order of dicts is unspecified after merges: canonicalise by sorting keys"""
    if isinstance(v, dict):
        return {k: _sorted(v[k]) for k in sorted(v, key=repr)}
    if isinstance(v, (list, tuple)):
        return [_sorted(x) for x in v]
    return v


def canon(v):
    try:
        return enc(_sorted(v))
    except Exception:  # noqa: BLE001
        return repr(v)


class Program:
    """kind: 'dict'|'list'; init: {res: content}; objs: [res per object]; handles: [(obj index,
    path tuple)] navigated before the threads start; threads: [[(target, name, args...)]];
    buffered: None or ('class', cap) - the threads run inside Class.buffer_backend(cap)"""

    def __init__(self, is_dict, init, objs, handles, threads, buffered=None, pre=()):
        self.pre = list(pre)       # operations run by the main thread (inside the buffered context) before the threads start
        self.is_dict = is_dict
        self.init = init
        self.objs = objs
        self.handles = handles
        self.threads = threads
        self.buffered = buffered

    def __repr__(self):
        return "Program(is_dict=%r, init=%r, objs=%r, handles=%r, threads=%r, buffered=%r, pre=%r)" % (
            self.is_dict, self.init, self.objs, self.handles, self.threads, self.buffered, self.pre)


def _setup(ns, fam, prog, tmp):
    world = World(ns, fam, tmp)
    for res, content in prog.init.items():
        world.write(res, content)
    objs = [world.open(prog.is_dict, res) for res in prog.objs]
    handles = []
    for oi, path in prog.handles:
        cur = objs[oi]
        for k in path:
            cur = cur[k]
        handles.append(cur)
    return world, objs, handles


def _target(objs, handles, t):
    return objs[int(t[1:])] if t[0] == "o" else handles[int(t[1:])]


def _snapshot(ns, r):
    """results as plain data; a returned *live child* (synced collection) is only identified by
    its kind: its content can legitimately change through other handles between the return of the
    operation and the moment the harness looks at it"""
    if isinstance(r, ns.SyncedCollection):
        return "<child dict>" if isinstance(r, ns.SyncedDict) else "<child list>"
    if isinstance(r, (list, tuple)):
        return [_snapshot(ns, x) for x in r]
    return to_plain(ns, r)


def _do(ns, objs, handles, op):
    t, name, *args = op
    if name == "setfilename":
        try:
            import os
            tgt = _target(objs, handles, t)
            tgt.filename = os.path.join(os.path.dirname(tgt.filename), "moved%d.json" % args[0])
            return ("ok", "rebound")
        except S.DeadlockAbort:
            raise
        except Exception as e:  # noqa: BLE001
            return ("err", type(e).__name__)
    if name in ("center", "cexit", "enter", "exit"):
        try:
            if name == "center":
                cls = type(objs[0])
                (cls.buffer_backend(args[0]) if args and args[0] is not None else cls.buffer_backend()).__enter__()
            elif name == "cexit":
                type(objs[0])._buffer_context.__exit__(None, None, None)
            elif name == "enter":
                _target(objs, handles, t).buffered.__enter__()
            else:
                _target(objs, handles, t).buffered.__exit__(None, None, None)
            return ("ok", "ctx")
        except S.DeadlockAbort:
            raise
        except Exception as e:  # noqa: BLE001
            return ("err", type(e).__name__)
    try:
        # ("@o", i): the i-th root object itself as the argument (a synced operand on another file)
        args = [objs[a[1]] if isinstance(a, tuple) and len(a) == 2 and a[0] == "@o" else a for a in args]
        r = apply_call(_target(objs, handles, t), name, list(args))
        if name == "dkeys":
            r = sorted(r, key=repr)
        return ("ok", canon(_snapshot(ns, r)))
    except S.DeadlockAbort:
        raise
    except Exception as e:  # noqa: BLE001
        return ("err", type(e).__name__)


def _finals(ns, world, prog, objs):
    out = {}
    for res in sorted(set(prog.objs)):
        d = world.read(res)
        out[res] = None if d is MISSING else canon(d)
    return out


def bcls_of(fam, prog):
    return fam.dict_cls if prog.is_dict else fam.list_cls


def run_serial(ns, fam, prog, order):
    """ops executed one at a time in the main thread in the given order of thread ids"""
    drive.reset_class_state(ns)
    with drive.Scratch() as tmp:
        world, objs, handles = _setup(ns, fam, prog, tmp)
        results = [[] for _ in prog.threads]
        nxt = [0] * len(prog.threads)
        ctx = None
        err = None
        if prog.buffered:
            cls = bcls_of(fam, prog)
            ctx = cls.buffer_backend(prog.buffered[1]) if prog.buffered[1] is not None else cls.buffer_backend()
            ctx.__enter__()
        for op in getattr(prog, "pre", ()):
            _do(ns, objs, handles, op)
        for t in order:
            results[t].append(_do(ns, objs, handles, prog.threads[t][nxt[t]]))
            nxt[t] += 1
        if ctx is not None:
            try:
                bcls_of(fam, prog)._buffer_context.__exit__(None, None, None)
            except Exception as e:  # noqa: BLE001
                err = type(e).__name__
        fin = _finals(ns, world, prog, objs)
        size = bcls_of(fam, prog).get_current_buffer_size() if prog.buffered else 0
    drive.reset_class_state(ns)
    return dict(results=results, finals=fin, exit_error=err, size=size)


def serial_orders(prog):
    lens = [len(t) for t in prog.threads]
    base = []
    for t, n in enumerate(lens):
        base += [t] * n
    return sorted(set(itertools.permutations(base)))


def run_scheduled(ns, fam, prog, chooser, line_level=False, hooks=True):
    """the program under the scheduler with the given chooser"""
    drive.reset_class_state(ns)
    classes = list(fam.classes)
    S.instrument_locks(ns, classes)
    if hooks:
        S.install_event_hooks(ns)
    out = dict(results=None, finals=None, deadlock=None, leaks=[], exit_error=None, size=0, thread_exc=[], trace=[])
    try:
        with drive.Scratch() as tmp:
            world, objs, handles = _setup(ns, fam, prog, tmp)
            S.name_locks(classes)
            ctx_cls = None
            if prog.buffered:
                ctx_cls = bcls_of(fam, prog)
                c = ctx_cls.buffer_backend(prog.buffered[1]) if prog.buffered[1] is not None else ctx_cls.buffer_backend()
                c.__enter__()
            for op in getattr(prog, "pre", ()):
                _do(ns, objs, handles, op)
            results = [[] for _ in prog.threads]
            sc = S.Sched(chooser, line_level=line_level, pkg_dir=os.path.dirname(ns.sc.__file__))
            chooser.all_tids = list(range(len(prog.threads)))
            S._current[0] = sc

            def make(t):
                def fn():
                    for j, op in enumerate(prog.threads[t]):
                        # operation boundaries in the trace (not scheduling points)
                        sc.trace.append((sc.points, t, "op-start", j))
                        try:
                            results[t].append(_do(ns, objs, handles, op))
                        finally:
                            sc.trace.append((sc.points, t, "op-end", j))
                return fn
            for t in range(len(prog.threads)):
                sc.spawn(t, make(t))
            sc.run()
            S._current[0] = None
            S.name_locks(classes)
            out["deadlock"] = sc.deadlock
            out["trace"] = sc.trace
            out["points"] = sc.points
            for t, st in sc.threads.items():
                if st["exc"] is not None:
                    out["thread_exc"].append("T%s: %s" % (t, "".join(traceback.format_exception_only(type(st["exc"]), st["exc"])).strip()))
            out["leaks"] = ["%s still held by T%s" % (lk.role, lk.owner) for lk in sc.locks if lk.owner is not None]
            if sc.deadlock is None and not out["leaks"]:
                if ctx_cls is not None:
                    try:
                        ctx_cls._buffer_context.__exit__(None, None, None)
                    except Exception as e:  # noqa: BLE001
                        out["exit_error"] = type(e).__name__
                    out["size"] = ctx_cls.get_current_buffer_size()
                out["finals"] = _finals(ns, world, prog, objs)
            out["results"] = results
    finally:
        S._current[0] = None
        S.restore_locks(ns, classes)
        drive.reset_class_state(ns)
    return out


# ------------------------------------------------------------------ program generation

VALS = [1, True, "v", None, [7], {"n": 1}, 2.5]


def gen_program(rng, fam, profile):
    """profile: 'writers' (C09), 'readers' (C14), 'buffered' (C13)"""
    is_dict = rng.random() < 0.5
    if is_dict:
        init = {"a": 1, "d": {"x": 1}, "l": [1, 2]}
        child_paths = [("d",), ("l",)]
    else:
        init = [1, {"x": 1}, [1, 2], 3]
        child_paths = [(1,), (2,)]
    buffered = None
    n_files = 1
    if profile in ("buffered", "bufctx", "bufreaders"):
        n_files = rng.choice([1, 2, 2])
        # serialized sizes are bytes (one document is about 40), shared-memory sizes count files
        buffered = ("class", rng.choice([None, 0, 1, 2, 30, 60] if profile != "bufreaders" else [None, 0, 1, 2, 45, 60, 60, 80]))
        if n_files == 2 and getattr(fam, "buffered", None) == "serialized" and rng.random() < 0.5:
            # one document fits, two do not: the FIRST LOAD of the second file - also a plain read,
            # which holds no lock - forces the flush of the first
            buffered = ("class", 60)
    two_objs = rng.random() < 0.5
    objs = []
    for f in range(n_files):
        objs.append(f)
    if two_objs or len(objs) == 1 and rng.random() < 0.3:
        objs.append(0)
    inits = {f: json.loads(json.dumps(init)) for f in range(n_files)}
    handles = []
    if profile in ("readers", "writers") and rng.random() < 0.2:
        # the file does not exist yet: the first save creates it
        inits = {}
        init = {} if is_dict else []
        child_paths = []
        if len(objs) == 1:
            objs.append(0)
    for oi in range(len(objs)):
        for p in child_paths:
            if rng.random() < 0.6:
                handles.append((oi, p))
    n_threads = 2 if rng.random() < (0.8 if profile != "bufreaders" else 0.45) else 3
    threads = []
    if profile == "rebind":
        # `obj.filename = other` through one object while another thread writes through a second
        # object on the same file (container values: nested collections are constructed under the
        # file lock).  Only the lock discipline (C10) is judged.
        if len(objs) == 1:
            objs.append(0)
        t0 = [("o1", "setfilename", 7)]
        if rng.random() < 0.5:
            t0.append(gen_op(rng, is_dict, init, [0, 0], [], False, profile)[:0] + ("o1",) + gen_op(rng, is_dict, init, [0, 0], [], False, profile)[1:])
        t1 = []
        for _ in range(rng.choice([1, 2])):
            op = gen_op(rng, is_dict, init, [0], [hd for hd in handles if hd[0] == 0], False, profile)
            t1.append(op)
        if rng.random() < 0.7:
            t1.insert(0, ("o0", "dsetitem", "n", {"m": {"k": 1}}) if is_dict else ("o0", "lappend", {"m": {"k": 1}}))
        return Program(is_dict, inits, objs, [hd for hd in handles if hd[0] == 0], [t0, t1], None)
    if profile == "cross":
        # two files, one object each; each thread writes INTO its own object FROM the other one
        # (`a.update(b)` / `a[k] = b` / `a.append(b)` ... next to the mirror image).  Reading the
        # operand must not take a lock while the own file lock is held, or the two threads can
        # wait for each other forever.  Only deadlock / leaked locks (C10) are judged.
        inits = {0: json.loads(json.dumps(init)), 1: json.loads(json.dumps(init))}
        def cross_op(me, you):
            if is_dict:
                return rng.choice([("o%d" % me, "dupdate", ("@o", you), {}), ("o%d" % me, "dsetitem", "peer", ("@o", you)),
                                   ("o%d" % me, "dsetdefault", "peer", ("@o", you)), ("o%d" % me, "dreset", ("@o", you))])
            return rng.choice([("o%d" % me, "lappend", ("@o", you)), ("o%d" % me, "lextend", ("@o", you)),
                               ("o%d" % me, "liadd", ("@o", you)), ("o%d" % me, "lsetitem", 0, ("@o", you)),
                               ("o%d" % me, "linsert", 0, ("@o", you)), ("o%d" % me, "lreset", ("@o", you))])
        return Program(is_dict, inits, [0, 1], [], [[cross_op(0, 1)], [cross_op(1, 0)]], None)
    if profile == "bufctx":
        buffered = None
        n_threads = 2
        inner = [gen_op(rng, is_dict, init, objs, handles, False, profile) for _ in range(rng.choice([1, 1, 2]))]
        if rng.random() < 0.6:
            threads.append([("o0", "center", rng.choice([None, 0, 1, 40]))] + inner + [("o0", "cexit")])
        else:
            threads.append([("o0", "enter")] + inner + [("o0", "exit")])
        threads.append([gen_op(rng, is_dict, init, objs, handles, False, profile) for _ in range(rng.choice([1, 2]))])
        return Program(is_dict, inits, objs, handles, threads, None)
    if profile == "writers" and inits and rng.random() < 0.22:
        # a whole-content overwrite (root clear / reset: the operations that skip the load) racing an
        # operation whose RESULT depends on the content, through an object that has not loaded yet
        # (no handle was navigated through it), or through a second object on the file
        objs = [0] if rng.random() < 0.6 else [0, 0]
        a = "o0"
        b = "o%d" % rng.randrange(len(objs))
        v = rng.choice(VALS)
        if is_dict:
            over = rng.choice([(a, "dclear"), (a, "dreset", {rng.choice(["r", "a"]): v})])
            # (setdefault of an existing key is the informative partner: what it returns says
            # whether it ran before the overwrite, what it leaves says whether it ran after)
            dep = rng.choice([(b, "dpop", "a", None), (b, "dsetdefault", "a", v), (b, "ddelitem", "a"),
                              (b, "dpopitem"), (b, "dsetdefault", "new", v), (b, "dsetdefault", "a", "s"),
                              (b, "dsetdefault", "d", v), (b, "dsetdefault", "l", 0)])
        else:
            over = rng.choice([(a, "lclear"), (a, "lreset", [v])])
            dep = rng.choice([(b, "lpop", -1), (b, "lpop", 0), (b, "lremove", 1), (b, "ldelitem", 0), (b, "lremove", 3)])
        threads = [[over], [dep]]
        if rng.random() < 0.3:
            threads[rng.randrange(2)].append(gen_op(rng, is_dict, init, objs, [], False, profile))
        if rng.random() < 0.5:
            threads.reverse()
        return Program(is_dict, inits, objs, [], threads, None)
    if profile == "buffered" and getattr(fam, "buffered", None) == "serialized" and rng.random() < 0.25:
        # the forced flush of file 0, triggered by the FIRST LOAD of file 1 through a private object
        # (a plain read: no collection lock), racing a writer of file 0: the writer modifies file 0
        # (it enters the buffer, modified), then mutates it again while the reader's load of file 1
        # overflows the capacity (one document fits, two do not)
        objs = [0, 1]
        inits = {0: json.loads(json.dumps(init)), 1: json.loads(json.dumps(init))}
        w1 = gen_op(rng, is_dict, init, [0], [], False, profile)
        w2 = gen_op(rng, is_dict, init, [0], [], False, profile)
        rd = rng.choice([("dlen",), ("dget", "a", None), ("dgetitem", "a"), ("dcontains", "a")] if is_dict else
                        [("llen",), ("lgetitem", 0), ("lgetitem", 3)])
        threads = [[w2], [("o1",) + rd]]
        if rng.random() < 0.5:
            threads.reverse()
        # (the first modification is made before the threads start, so that one preemption - inside
        # the reader's flush - is enough; capacity: one document fits, two do not)
        return Program(is_dict, inits, objs, [], threads, ("class", len(json.dumps(init)) + 10), pre=[w1])
    for t in range(n_threads):
        ops = []
        n_ops = 1 if n_threads == 3 or rng.random() < 0.6 else 2
        for j in range(n_ops):
            reader = profile in ("readers", "bufreaders") and (t == 0 or rng.random() < 0.3)
            ops.append(gen_op(rng, is_dict, init, objs, handles, reader, profile))
        threads.append(ops)
    if profile == "buffered" and inits and rng.random() < 0.45:
        # C13 quantifies over reads "on objects no other thread is using": give one thread a
        # private object on one of the files and let it start with a single-load read through it
        # (len / get / item of a scalar / membership: one load, one atomic container access)
        t = rng.randrange(len(threads))
        p = len(objs)
        objs.append(rng.choice(sorted(inits)))
        if is_dict:
            rd = rng.choice([("dlen",), ("dget", "a", None), ("dgetitem", "a"), ("dcontains", "a"), ("dcontains", "new")])
        else:
            rd = rng.choice([("llen",), ("lgetitem", 0), ("lgetitem", 3)])
        threads[t].insert(rng.choice([0, 0, len(threads[t])]), ("o%d" % p,) + rd)
    return Program(is_dict, inits, objs, handles, threads, buffered)


def gen_op(rng, is_dict, init, objs, handles, reader, profile):
    # choose the target: a root object or a pre-navigated child handle
    if handles and rng.random() < 0.45:
        hi = rng.randrange(len(handles))
        tgt = "h%d" % hi
        node = init
        for k in handles[hi][1]:
            node = node[k]
        tdict = isinstance(node, dict)
    else:
        tgt = "o%d" % rng.randrange(len(objs))
        node = init
        tdict = is_dict
    v = rng.choice(VALS)
    if tdict:
        keys = list(node) + ["new", "k2"]
        if reader:
            name = rng.choice(["dgetitem", "dget", "dlen", "dcall", "dcontains", "dkeys", "deq"] if node else ["dget", "dlen", "dcall", "dcontains", "dkeys"])
            if name == "dgetitem":
                return (tgt, name, rng.choice(list(node)))
            if name == "dget":
                return (tgt, name, rng.choice(keys), None)
            if name == "dcontains":
                return (tgt, name, rng.choice(keys))
            if name == "deq":
                return (tgt, name, json.loads(json.dumps(node)))
            return (tgt, name)
        name = rng.choice(["dsetitem", "dsetitem", "ddelitem", "dpop", "dclear", "dupdate", "dsetdefault", "dreset"] if node else
                          ["dsetitem", "dsetitem", "dpop", "dupdate", "dsetdefault", "dreset"])
        if name == "dsetitem":
            return (tgt, name, rng.choice(keys), v)
        if name in ("ddelitem",):
            return (tgt, name, rng.choice(list(node)))
        if name == "dpop":
            return (tgt, name, rng.choice(keys), None)
        if name == "dupdate":
            if rng.random() < 0.5:
                # several keys in one call: an operation whose effect could be applied in part
                k1, k2 = rng.sample(keys, 2)
                return (tgt, name, {k1: v, k2: rng.choice(VALS)}, {})
            return (tgt, name, {rng.choice(keys): v}, {})
        if name == "dsetdefault":
            return (tgt, name, rng.choice(keys), v)
        if name == "dreset":
            return (tgt, name, {rng.choice(["r", "a"]): v})
        return (tgt, name)
    n = len(node)
    if n == 0:
        if reader:
            return (tgt, rng.choice(["llen", "lcall", "liter"]))
        name = rng.choice(["lappend", "lextend", "linsert", "lreset"])
        return {"lappend": (tgt, name, v), "lextend": (tgt, name, [v, 9]), "linsert": (tgt, name, 0, v), "lreset": (tgt, name, [v])}[name]
    if reader:
        name = rng.choice(["lgetitem", "llen", "lcall", "lcontains", "liter", "leq", "lcount"])
        if name == "lgetitem":
            return (tgt, name, rng.randrange(n))
        if name in ("lcontains", "lcount"):
            return (tgt, name, rng.choice([1, 2, 99]))
        if name == "leq":
            return (tgt, name, json.loads(json.dumps(node)))
        return (tgt, name)
    name = rng.choice(["lsetitem", "ldelitem", "linsert", "lappend", "lappend", "lextend", "liadd", "lremove", "lclear", "lpop", "lreverse", "lreset"])
    if name == "lsetitem":
        return (tgt, name, rng.randrange(n), v)
    if name == "ldelitem":
        return (tgt, name, rng.randrange(n))
    if name == "linsert":
        return (tgt, name, rng.choice([0, 1, n]), v)
    if name == "lappend":
        return (tgt, name, v)
    if name in ("lextend", "liadd"):
        return (tgt, name, [v, 9])
    if name == "lremove":
        return (tgt, name, node[0] if not isinstance(node[0], (dict, list)) else 1)
    if name == "lpop":
        return (tgt, name, rng.choice([-1, 0]))
    if name == "lreset":
        return (tgt, name, [v])
    return (tgt, name)


# ------------------------------------------------------------------ verdicts

def outcome_key(results, finals):
    return json.dumps([results, sorted((finals or {}).items())], sort_keys=True, default=str)


def judge(prog, serial, run, profile):
    """compare one scheduled run with the serial outcomes.  Returns list of (props, kind, message)."""
    v = []
    if run["deadlock"]:
        v.append((("C10",) + (("C13",) if prog.buffered else ()), "deadlock", "deadlock: %s" % run["deadlock"]))
        return v
    if run["leaks"]:
        # a lock that is still held when every thread has finished: some operation did not complete
        # its protocol because of the interleaving (C10; for programs of writers also C09 / C13)
        has_rd = any(op[1] not in MUTATORS and op[1] not in ("center", "cexit", "enter", "exit", "setfilename") for t in prog.threads for op in t)
        extra = () if has_rd else (("C13",) if prog.buffered else ("C09",))
        v.append((("C10",) + extra, "leak", "after all threads finished: %s" % "; ".join(run["leaks"])))
        return v
    if run["thread_exc"]:
        v.append((("C09", "C13", "C14"), "crash", "a thread died: %s" % run["thread_exc"][0]))
        return v
    CTX = ("center", "cexit", "enter", "exit", "setfilename")
    has_reader = any(op[1] not in MUTATORS and op[1] not in CTX for t in prog.threads for op in t)
    if any(op[1] in CTX for t in prog.threads for op in t):
        prog_buffered = True
    else:
        prog_buffered = bool(prog.buffered)
    if any(isinstance(a, tuple) and len(a) == 2 and a[0] == "@o" for t in prog.threads for op in t for a in op[2:]):
        # synced operands read without a lock while another thread writes them: only C10 is judged
        return v
    if any(op[1] in CTX for t in prog.threads for op in t):
        # contexts entered / left concurrently with other threads' operations: only the lock
        # discipline (C10) is claimed for such programs, not serial equivalence
        return v
    if has_reader and shared_reader_object(prog):
        # some root object is used by two threads and one of them reads through it: whatever
        # goes wrong - also the buffer accounting - is the lock-free-read finding of C14
        return [(("C14",), k, m) for _, k, m in _judge_rest(prog, serial, run, has_reader, prog_buffered)]
    return v + _judge_rest(prog, serial, run, has_reader, prog_buffered)


def _judge_rest(prog, serial, run, has_reader, prog_buffered):
    v = []
    main = "C13" if prog_buffered else ("C14" if has_reader else "C09")
    if prog.buffered:
        if run["exit_error"] and not any(s["exit_error"] for s in serial):
            v.append((("C13",), "exit-error", "leaving buffer_backend raised %s" % run["exit_error"]))
        if run["size"] != 0:
            v.append((("C13", "C15"), "size", "buffer size is %d after the context exited" % run["size"]))
    if not has_reader:
        keys = {outcome_key(s["results"], s["finals"]) for s in serial}
        if outcome_key(run["results"], run["finals"]) not in keys:
            # which part is unexplainable?
            fin_ok = any(s["finals"] == run["finals"] for s in serial)
            res_ok = any(s["results"] == run["results"] for s in serial)
            what = ("final content %s is not the result of any serial order" % run["finals"] if not fin_ok else
                    "results %s do not occur in any serial order" % run["results"] if not res_ok else
                    "results %s and final content %s do not occur together in any serial order" % (run["results"], run["finals"]))
            v.append(((main,), "not-linearizable", what))
        return v
    # readers present: per-op membership
    fins = [s["finals"] for s in serial]
    if prog.buffered and not shared_reader_object(prog):
        # reads only through objects no other thread uses: this is C13's territory
        if run["finals"] not in fins:
            v.append((("C13", "C14"), "lost-update", "final content %s is not the result of the writers in any serial order (a buffered update was lost or invented)" % run["finals"]))
        for t, ops in enumerate(prog.threads):
            for j, op in enumerate(ops):
                got = run["results"][t][j] if j < len(run["results"][t]) else ("missing",)
                allowed = {tuple(s["results"][t][j]) for s in serial}
                if tuple(got) not in allowed:
                    # a read that completes with a value no serial order gives is C14's clause
                    # ("returns a value the collection actually had"); an operation that fails, or
                    # a mutator's wrong result, also concerns C13 ("completes without errors")
                    props = ("C14",) if (op[1] not in MUTATORS and got[0] == "ok") else ("C13", "C14")
                    # the same kind names as for unbuffered programs, so that one mechanism (e.g. the
                    # multi-load Sequence mix-ins) has one signature
                    kind = "read-error" if got[0] == "err" else "impossible-value"
                    if op[1] in MUTATORS:
                        kind = "writer-" + kind
                    if got[0] == "err":
                        kind = kind + "=" + str(got[1])
                    v.append((props, kind + ":" + op[1], "T%d op %s returned %s; serially it returns one of %s" % (t, op, got, sorted(allowed))))
        return v
    if run["finals"] not in fins:
        v.append((("C14",) + (("C13",) if prog.buffered else ()), "lost-update", "final content %s is not the result of the writers in any serial order (a writer's update was lost or invented)" % run["finals"]))
    for t, ops in enumerate(prog.threads):
        for j, op in enumerate(ops):
            got = run["results"][t][j] if j < len(run["results"][t]) else ("missing",)
            allowed = {tuple(s["results"][t][j]) for s in serial}
            if tuple(got) not in allowed:
                kind = "read-error" if got[0] == "err" else "impossible-value"
                if op[1] in MUTATORS:
                    kind = "writer-" + kind
                if got[0] == "err":
                    kind = kind + "=" + str(got[1])
                v.append((("C14",), kind + ":" + op[1], "T%d op %s returned %s; serially it returns one of %s" % (t, op, got, sorted(allowed))))
    return v


# ------------------------------------------------------------------ signatures and units

def shared_reader_object(prog):
    """is some root object used by two threads, one of which reads through it?  (Lock-free
    reads on an object that another thread uses are the documented design limitation.)"""
    use = collections.defaultdict(lambda: [set(), False])
    for t, ops in enumerate(prog.threads):
        for op in ops:
            root = int(op[0][1:]) if op[0][0] == "o" else prog.handles[int(op[0][1:])][0]
            use[root][0].add(t)
            if op[1] not in MUTATORS:
                use[root][1] = True
    return any(len(ts) >= 2 and rd for ts, rd in use.values())


def c14_signature(prog, run, viol_kind):
    """root-cause signature of a reader/writer violation, from the event trace"""
    same = shared_reader_object(prog)
    if same:
        # A thread reads through a root object (or a child of it) that another thread uses.  Reads
        # take no lock (documented design), so on the unchanged tree such a program can already
        # lose updates, return impossible values and raise from the unlocked merge in many ways;
        # all of them are ONE finding, identified by this call pattern, not by the symptom.
        return "C14:same-object:lock-free-read"
    if prog.buffered and flush_into_reader(prog, run):
        # a read (which takes no lock) through an object of its own, and DURING the read another
        # thread's flush of that file merges the buffered contents into the very same object
        # (`_flush` runs on every registered collection, whichever thread triggers it)
        return "C14:buffered:flush-by-another-thread-during-lock-free-read"
    if prog.buffered and getattr(prog, "strategy", None) == "memory":
        # inside a shared-memory buffered context the objects bound to one file ARE one container:
        # the lock-free read races with the writer exactly as on a single object.  What the race
        # spoils on the unchanged tree is the READ (an impossible value, an error from the container
        # changing under the reader); the writers' own results and the final content stay those of a
        # serial order - a lost or invented update there is a different thing and is not excused.
        if viol_kind == "lost-update" or viol_kind.startswith("writer-"):
            return "C14:shared-memory-buffered-objects:" + viol_kind.partition(":")[0]
        return "C14:shared-memory-buffered-objects:lock-free-read"
    where = "separate-objects:"
    if viol_kind != "lost-update":
        # per-operation kinds carry the operation name: the cause is specific to the operation
        base, _, opname = viol_kind.partition(":")
        if opname in ("lcount", "lcontains", "lindex"):
            # the Sequence mix-ins are loops of separately loading reads: one call sees several
            # versions of the file - whatever the symptom (wrong count, error from a vanished item)
            return "C14:" + where + "multi-load-read:" + opname
        return "C14:" + where + base + ":" + opname
    return "C14:" + where + _lost_update_mechanism(prog, run)


def _file_of(prog, tgt):
    oi = int(tgt[1:]) if tgt[0] == "o" else prog.handles[int(tgt[1:])][0]
    return prog.objs[oi]


def flush_into_reader(prog, run):
    """does some thread's flush of file f fall inside another thread's read on an object bound to f?"""
    tr = run.get("trace") or []
    for t, ops in enumerate(prog.threads):
        for j, op in enumerate(ops):
            if op[1] in MUTATORS or op[1] in ("center", "cexit", "enter", "exit", "setfilename"):
                continue
            f = "r%d.json" % _file_of(prog, op[0])
            inside = False
            for e in tr:
                if e[1] == t and e[2] == "op-start" and e[3] == j:
                    inside = True
                elif e[1] == t and e[2] == "op-end" and e[3] == j:
                    inside = False
                elif inside and e[1] != t and e[2] == "flush" and e[3] == f:
                    return True
    return False


def _lost_update_mechanism(prog, run):
    tr = run["trace"]
    readers = {t for t, ops in enumerate(prog.threads) if all(op[1] not in MUTATORS for op in ops)}
    # critical sections of the file lock per thread
    depth = collections.Counter()
    start = {}
    sections = []
    for i, (n, t, kind, info) in enumerate(tr):
        if kind == "acq" and str(info).startswith("file("):
            if depth[t] == 0:
                start[t] = i
            depth[t] += 1
        elif kind == "rel" and str(info).startswith("file("):
            depth[t] -= 1
            if depth[t] == 0:
                sections.append((t, start[t], i))
    skipped = False
    merged = False
    for t, a, b in sections:
        if t in readers:
            continue
        inside = tr[a:b + 1]
        wrote = [j for j, e in enumerate(inside) if e[1] == t and e[2] == "write/done"]
        other_merge = [j for j, e in enumerate(inside) if e[1] != t and e[1] in readers and e[2] == "merge"]
        if not wrote:
            skipped = True
        elif other_merge and other_merge[0] < wrote[0]:
            merged = True
    if skipped:
        return "reader-suspend-skips-writer-save"
    if merged:
        return "reader-merge-overwrites-writer-memory"
    return "lost-update-other"


def replay_conc(ns, fam, prog, switches, start, line_level=False):
    ch = S.Forced(dict(switches), start)
    return run_scheduled(ns, fam, prog, ch, line_level=line_level)


def unit_conc(args):
    """args: (fam_index, seed, profile, bound, budget).  One generated program, its serial
    outcomes, and a preemption-bounded enumeration of schedules at event level."""
    fam_index, seed, profile, bound, budget = args[:5]
    nrand = args[5] if len(args) > 5 else 0
    ns = env.load()
    fam = ns.families[fam_index]
    rng = random.Random((seed * 50021 + fam_index) * 7 + sum(map(ord, profile)))
    res = dict(kind="oracle", fam=fam_index, seed=seed, profile="conc/" + profile, steps=0, stats={}, violations=[])
    try:
        prog = gen_program(rng, fam, profile)
        prog.strategy = fam.buffered
        prog._ctx = (ns, fam)
        serial = [run_serial(ns, fam, prog, o) for o in serial_orders(prog)]
        n = 0
        found = {}
        tids = list(range(len(prog.threads)))

        def run_once(ch):
            return run_scheduled(ns, fam, prog, ch)

        starts = [None] + tids[1:]
        hung = [False]      # a thread got stuck outside the instrumented locks: stop exploring this program

        def stuck(run):
            if run.get("deadlock") and "scheduler timeout" in str(run["deadlock"]):
                hung[0] = True
            return hung[0]
        for st in starts:
            if hung[0]:
                break
            # (deadlocks depend on the order of lock acquisitions only: the mirror-image programs
            # are explored at acquisition points, which makes a deeper bound affordable)
            kinds = ("acq",) if profile == "cross" else None
            for switches, start, run in S.explore(lambda ch, st=st: run_once(_with_start(ch, st)), bound, max(budget // len(starts), 1), kinds):
                n += 1
                for props, kind, msg in judge(prog, serial, run, profile):
                    sig = c14_signature(prog, run, kind) if "C14" in props else "%s:%s" % (props[0], kind)
                    if sig not in found:
                        found[sig] = dict(props=list(props), msg=msg, fam=fam.short, kind="conc", sig=sig, ops=None,
                                          extra=dict(prog=repr(prog), switches=list(switches), start=st, fam_index=fam_index))
                if stuck(run):
                    break
        if profile in ("writers", "buffered") and not hung[0]:
            # one more preemption, at lock transitions only (cheap: few such points): races in the
            # locking itself need a thread to be interrupted twice
            for switches, start, run in S.explore(lambda ch: run_once(ch), bound + 1, max(budget // 2, 1), ("acq", "rel")):
                n += 1
                for props, kind, msg in judge(prog, serial, run, profile):
                    sig = c14_signature(prog, run, kind) if "C14" in props else "%s:%s" % (props[0], kind)
                    if sig not in found:
                        found[sig] = dict(props=list(props), msg=msg, fam=fam.short, kind="conc", sig=sig, ops=None,
                                          extra=dict(prog=repr(prog), switches=list(switches), start=None, fam_index=fam_index))
                if stuck(run):
                    break
        n_line = 0
        if nrand and not hung[0]:
            base = run_scheduled(ns, fam, prog, S.Forced(), line_level=True)
            npts = base.get("points", 0) or 1
            for i in range(nrand):
                r2 = random.Random(seed * 977 + i)
                ch = S.RandomSwitch(r2, npts, r2.choice([1, 1, 2, 3]))
                run = run_scheduled(ns, fam, prog, ch, line_level=True)
                n_line += 1
                for props, kind, msg in judge(prog, serial, run, profile):
                    sig = c14_signature(prog, run, kind) if "C14" in props else "%s:%s" % (props[0], kind)
                    if sig not in found:
                        found[sig] = dict(props=list(props), msg=msg + " [line-level random schedule %d]" % i, fam=fam.short, kind="conc-line", sig=sig, ops=None,
                                          extra=dict(prog=repr(prog), rand_index=i, seed=seed, npts=npts, fam_index=fam_index))
        res["steps"] = n + n_line
        res["stats"] = {"schedules": n, "line_level_schedules": n_line, "serial_orders": len(serial), "ops": sum(len(t) for t in prog.threads)}
        res["violations"] = list(found.values())
    except Exception:  # noqa: BLE001
        return dict(kind="oracle", fam=fam_index, seed=seed, profile="conc/" + profile, crash=traceback.format_exc())
    return res


def _with_start(ch, st):
    ch.start = st
    return ch
