"""Correspondence driver: run structured programs on the real classes, feed the
same lines to the Lean model driver, diff the canonical outputs."""
import os
import shutil
import subprocess
import tempfile

import env
from fakes import MISSING, World
from proto import ProgramInvalid, Runner, op_line

VERIF = os.path.dirname(os.path.dirname(os.path.abspath(__file__)))
DRIVER = os.path.join(VERIF, "lean", ".lake", "build", "bin", "driver")


def fam_header(ns):
    return ["fam %s %s" % (env.validator_code(f.dict_cls), env.validator_code(f.list_cls)) for f in ns.families]


def float_table(values):
    out = []
    for v in values:
        if isinstance(v, float):
            n, d = v.as_integer_ratio()
            out.append("flt %d %d %d" % (n, d, len(repr(v))))
    return out


def op_lines(ops, fam_index):
    out = []
    for op in ops:
        if op[0] == "open":
            op = op[:4] + (fam_index,)
        out.append(op_line(op))
    return out


class Scratch:
    """A scratch directory outside /repo and /verif, removed on exit."""

    def __enter__(self):
        self.dir = tempfile.mkdtemp(prefix="scverif_")
        return self.dir

    def __exit__(self, *a):
        shutil.rmtree(self.dir, ignore_errors=True)


def reset_class_state(ns):
    """Make runs independent: empty buffers/locks left over by an earlier program."""
    import proto
    proto.FAILING.clear()
    del proto.KEPT_ITERATORS[:]
    for fam in ns.families:
        for cls in fam.classes:
            if hasattr(cls, "_locks"):
                cls._locks.clear()
            if hasattr(cls, "_buffer"):
                cls._buffer.clear()
                cls._buffered_collections.clear()
                cls._CURRENT_BUFFER_SIZE = 0
                if "_BUFFER_CAPACITY" in cls.__dict__:
                    delattr(cls, "_BUFFER_CAPACITY")
                ctx = cls._buffer_context
                ctx._count = 0
                if hasattr(ctx, "_original_buffer_capacitys"):
                    del ctx._original_buffer_capacitys[:]
                    ctx._buffer_capacity = None


def run_real(ns, fam, ops, write_concern=False):
    """Replay a fixed op list on the real classes; returns expected lines per op."""
    reset_class_state(ns)
    with Scratch() as tmp:
        world = World(ns, fam, tmp, write_concern)
        runner = Runner(ns, world)
        return [runner.exec(op) for op in ops]


def generate(ns, fam, make_gen, n_steps, setup):
    """Online generation: `setup(runner, gen)` yields the initial ops, then `n_steps`
    ops are drawn from the generator.  Returns (ops, expected_lines_per_op)."""
    reset_class_state(ns)
    with Scratch() as tmp:
        world = World(ns, fam, tmp)
        runner = Runner(ns, world)
        gen = make_gen(runner)
        ops, lines = [], []
        for op in setup(runner, gen):
            ops.append(op)
            lines.append(runner.exec(op))
        for _ in range(n_steps):
            op = gen.step()
            if op is None:
                break
            ops.append(op)
            lines.append(runner.exec(op))
        return ops, lines


class ModelDriver:
    """One long-lived driver process; programs are separated by `reset`."""

    def __init__(self, ns):
        if not os.path.exists(DRIVER):
            raise RuntimeError("model driver not built: " + DRIVER)
        self.p = subprocess.Popen([DRIVER], stdin=subprocess.PIPE, stdout=subprocess.PIPE, text=True, bufsize=1)
        import gen
        for line in fam_header(ns) + float_table(gen.SCALARS):
            self._send(line)
            assert self._recv() == "ok"

    def _send(self, line):
        self.p.stdin.write(line + "\n")
        self.p.stdin.flush()

    def _recv(self):
        return self.p.stdout.readline().rstrip("\n")

    def run(self, lines, reset="reset"):
        """Returns, per input line, the list of output lines (1 for bad-op, else 2)."""
        self._send(reset)
        assert self._recv() == "ok"
        out = []
        for line in lines:
            self._send(line)
            first = self._recv()
            if first == "bad-op" or first == "":
                out.append([first])
            else:
                out.append([first, self._recv()])
        return out

    def query(self, line):
        """one-line queries (`fs ...`)"""
        self._send(line)
        return self._recv()

    def close(self):
        try:
            self.p.stdin.close()
            self.p.wait(timeout=5)
        except Exception:  # noqa: BLE001
            self.p.kill()


def first_diff(expected, got):
    for i, (e, g) in enumerate(zip(expected, got)):
        if e != g:
            return i
    if len(expected) != len(got):
        return min(len(expected), len(got))
    return None


def valid_program(ops):
    """static well-formedness: objects exist before they are used, contexts are matched"""
    n_obj = 0
    cnt = {}
    cls = 0
    for op in ops:
        k = op[0]
        if k == "open":
            n_obj += 1
        elif k in ("enter", "exit"):
            if not (0 <= op[1] < n_obj):
                return False
            cnt[op[1]] = cnt.get(op[1], 0) + (1 if k == "enter" else -1)
            if cnt[op[1]] < 0:
                return False
        elif k == "center":
            cls += 1
        elif k == "cexit":
            cls -= 1
            if cls < 0:
                return False
        elif k == "call":
            h = op[1]
            if h[0] == "o" and not (0 <= int(h[1:]) < n_obj):
                return False
    return n_obj > 0


def shrink(ops, still_fails):
    """Greedy minimisation of an op list (drop one op at a time, keep `open`s that
    later ops need); `still_fails(ops)` must be deterministic."""
    cur = list(ops)
    changed = True
    while changed:
        changed = False
        for i in range(len(cur) - 1, -1, -1):
            cand = cur[:i] + cur[i + 1:]
            if not valid_program(cand):
                continue
            try:
                if still_fails(cand):
                    cur = cand
                    changed = True
            except Exception:  # noqa: BLE001
                continue
    return cur
