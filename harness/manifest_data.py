"""What MANIFEST.json claims, per property (kept next to the code that implements it)."""

COMMON_NOTE = ("Trusted: Lean 4.33 kernel; axioms propext/Classical.choice/Quot.sound only (audited per theorem on every run); "
               "the translator harness/extract.py; the correspondence harness (generators, canonicalisation, fakes for Redis/MongoDB/Zarr). "
               "The theorems are about the hand-written executable model lean/SC/*.lean; the model is tied to /repo's working tree on every run by "
               "(i) tables regenerated from the source that feed `decide`d obligations and (ii) differential correspondence of model and real classes on "
               "generated operation programs, plus direct oracles on the real classes that supply the concrete failing input when something breaks. ")

CLAIMS = {
    "C01": dict(
        text="Theorem C01_write_through: for every model state, handle (root or child at any depth) and mutating op, a normal return implies backend == plain content of the owner's tree; the content refinement to built-in dict/list is C03's naturality theorems. Unbounded in program length, depth, values. The model's `call` is tied to the 18 real classes by correspondence on generated programs (all 9 families) and a shadow-structure oracle replaying built-in dict/list.",
        design_ref="§5 C01", technique="Lean 4 theorem over executable model + differential correspondence + built-in shadow oracle",
        note=COMMON_NOTE + "Backend content compared as parsed data; Redis/MongoDB/Zarr through fakes."),
    "C02": dict(
        text="Obligation C02_reads_table (decide over the regenerated API table: every read method loads first) and theorem C02_reads_load_first (every read is answered from the merge of the backend's current content); C02_merge_post: whenever _update(data) returns normally - for EVERY in-memory tree and EVERY data with unique keys, any depth - the merged tree has exactly the content of the data (same structure, identical scalar constructors, same key sets), incl. positions that became null, a scalar or the other container kind (mutual induction over the dict loop and list loop); C02_load_reflects_backend lifts it to objects. C02_handle_stays_attached (SC/Lemmas/Attach.lean): for valid data and ANY path along which memory and data hold containers of the same kind, the merge does not raise, the node at the path keeps its identity (the user's handle is still the object in the tree) and its content is the data at that path - induction over the path through the dict and list loops, using 'merging valid data raises at most the ValueError of a root kind mismatch' (mutual induction); C02_load_keeps_handles lifts it to objects. Also exercised by correspondence with outside rewrites at random positions and by the shadow oracle's attachment rule.",
        design_ref="§5 C02", technique="Lean 4 theorem + decide over generated table + differential correspondence with outside writers",
        note=COMMON_NOTE + "Detachment (a handle whose position was reassigned, removed or changed kind stops following the tree) is validated by correspondence and the shadow oracle, not stated as a theorem."),
    "C03": dict(
        text="Theorems C03_{dict,list}_{mutators,reads}_refine_builtin: every plain dict/list method the library forwards to (incl. all slice forms, negative/out-of-range indices, comparisons with TypeError cases) commutes with forgetting child identities, i.e. equals the built-in operation on plain content, for all sizes and arguments; C03_error_leaves_unchanged_*. The built-in semantics functions (SC/Builtin.lean) are themselves diffed against real dict/list through the three-way oracle.",
        design_ref="§5 C03", technique="Lean 4 naturality theorems + three-way differential (real class / model / built-in)",
        note=COMMON_NOTE + "update/reset/setdefault bodies (which merge) are covered by correspondence and the C11 merge theorem, not by the naturality theorems."),
    "C04": dict(
        text="Obligation C04_brackets_table (decide over the regenerated API table: every public mutator of every class is defined in the repo, runs inside the load-and-save or overwrite context and does not rebind _data) and theorems C04_child_ops_load_first / C04_root_ops_load_first / C04_load_is_merge: every op through a child handle, clear/reset included, is applied to the backend's current content merged into memory. Histories over 2-3 objects and stale handles by correspondence and shadow oracle.",
        design_ref="§5 C04", technique="Lean 4 theorem + decide over AST-derived table + multi-object differential histories",
        note=COMMON_NOTE + "The AST summary of method brackets is shallow (first `with` item, rebinding of self._data)."),
    "C11": dict(
        text="Theorems (unbounded depth/width): validators characterised exactly (validate vs t = none <-> every key/leaf meets the requirement); C11_table by decide over the regenerated class table (both the dict and the list class of every family implement the family's requirement - i.e. every class _from_base can pick); C11_merge_never_admits: the in-place merge used by reload/update()/reset() never lets forbidden data into memory or detached nodes, even when it stops with an error; C11_error_class; C11_rejected_changes_nothing.",
        design_ref="§5 C11", technique="Lean 4 mutual-induction theorems + decide over generated validator table + planted-defect differential stream",
        note=COMMON_NOTE + "For the Zarr family the requirement is string keys only (what leaves are storable depends on the codec)."),
    "C12": dict(
        text="Theorems C12_accept / C12_accept_item (every clean value of any depth is accepted by both classes of every family of the current source) and C12_roundtrip_fromBase (conversion to a synced tree and back is the identity on content incl. scalar constructors), C12_roundtrip_merge (the merge-based entry points update/reset and every reload leave exactly the stored value, 1 / True / 1.0 being different leaves); strict-type round trip through a fresh object by oracle on values from a ==-colliding scalar alphabet.",
        design_ref="§5 C12", technique="Lean 4 theorems + strict-type round-trip oracle",
        note=COMMON_NOTE + "The JSON text layer (json.dumps/loads, BSON, numcodecs) is exercised by value, not modelled; ±0.0 are identified."),
    "C17": dict(
        text="Theorems C17_read_pure / C17_reads_pure: in the model no read operation (any handle, any state, returned or raised) changes any backend or creates a missing one; tied by correspondence and an oracle that re-reads the resource independently after every read. Buffered read-only contexts: correspondence + oracle on file bytes/inode/mtime (model theorem in progress).",
        design_ref="§5 C17", technique="Lean 4 theorem + differential correspondence + independent resource re-read",
        note=COMMON_NOTE),
}

BUF_NOTE = COMMON_NOTE + ("The buffer state machine (both strategies, both context kinds, forced flushes, metadata stamps) is the hand-written Lean model SC/Buffer.lean, "
    "tied to the four buffered JSON families by correspondence after every step (result, disk content, reported size, capacity, set of buffered files). "
    "Conflict detection is relative to (st_size, st_mtime_ns) changing; json.dumps length is modelled for the generated value alphabet. ")

CLAIMS.update({
    "C05": dict(
        text="Theorems C05_buffered_save_defers (a save while buffered changes no file's content or metadata unless the size exceeds the capacity, and then it is exactly the forced flush), C05_exit_writes_buffered_{memory,serialized} (the flush at exit writes the buffered data and drops the entry), C05_exit_writes_buffered_serialized_content (what the serialized flush writes has exactly the content of the buffered copy, by the merge post-condition). Transparency (every result equals the unbuffered result, incl. clear/reset, dict and list, all four classes) is decided by correspondence with the model plus a twin oracle that executes each program on the unbuffered class.",
        design_ref="§5 C05", technique="Lean 4 theorems on the buffer machine + differential correspondence + unbuffered-twin oracle",
        note=BUF_NOTE + "Partial: transparency (every buffered result equals the unbuffered one over whole histories) is not a Lean theorem; it is checked by correspondence/twin."),
    "C06": dict(
        text="Theorems C06_memory_objects_share (after a buffered load the object's data IS the buffered container), C06_serialized_load_merges_entry, C06_memory_flush_writes_buffered and C06_serialized_flush_decides_from_entry: what is written, and whether, is determined by the shared entry for EVERY flushing object, so no pop order or reader/writer assignment can lose a write. Histories with k=2 objects per file entering/leaving together by correspondence and twin oracle.",
        design_ref="§5 C06", technique="Lean 4 theorems on the buffer machine + joint-context differential histories + twin oracle",
        note=BUF_NOTE),
    "C07": dict(
        text="Theorems C07_conflict_raises_and_preserves_{serialized,memory} (modified entry + changed metadata => MetadataError, no file content or metadata changes), C07_readonly_silent_* (only-read entries never raise, never write), C07_settings_restored (capacity and stack restored at context exit in every state, i.e. also when the exit raises). BufferedError naming exactly the conflicting files, other files still written, usable afterwards: exhaustive (role x outside-write) scenarios on the real classes and generated programs with outside writers in correspondence with the model.",
        design_ref="§5 C07", technique="Lean 4 theorems + exhaustive conflict scenarios + outside-writer differential programs",
        note=BUF_NOTE + "After a forced flush has reported a conflict for a file, what later writes to that file do is not claimed."),
    "C15": dict(
        text="Theorems over the buffer machine SC/Buffer.lean, each for EVERY history (operations through root and child handles, both context kinds in any nesting, capacity changes, forced and failing flushes, new objects, outside writes) from the initial state, both strategies: C15_size_exact (reported size = sum of encoded lengths of the buffered files / number of buffered files with unflushed modifications; no file buffered twice), C15_bounded_and_zero_outside (after every operation size <= capacity; when the backend-wide counter is 0 and no object is inside obj.buffered the buffer is empty and the size is 0 - via the invariant 'every buffered file has a registered object that is currently buffered', proved through all 9 kinds of steps), C15_forced_flush_zero (a capacity-forced flush leaves size 0), C15_capacity_restored / C15_set_capacity / C15_enter_pushes. 'A forced flush loses nothing' is C05/C06's content theorem plus the twin oracle.",
        design_ref="§5 C15", technique="Lean 4 invariants by induction over histories + correspondence on size/capacity after every step + independent recomputation from twin files + I/O-fault scenarios",
        note=BUF_NOTE + "I/O errors during a flush (OSError) are outside the Lean machine; they are exercised by the fault scenarios on the real code."),
})
CLAIMS["C17"]["text"] = ("Theorems C17_read_pure / C17_reads_pure: in the model no read operation (any handle, any state, returned or raised) changes any backend or creates a missing one; "
    "buffered: C17_readonly_history_never_writes - from any state whose buffered copies are clean, ANY history of reads, context enters/exits of both kinds in any nesting, capacity changes and new objects (with every flush they trigger) leaves content, metadata and stamp of every file unchanged, both strategies (an invariant proved through every function of the buffer machine) - and C17_buffered_readonly_not_written_*. Tied by correspondence, an oracle that re-reads the resource after every read, and the buffered twin oracle "
    "(bytes, inode and mtime_ns of files on which no mutator was called are unchanged across all contexts).")

CLAIMS["C08"] = dict(
    text="Theorems over the file-operation model SC/FS.lean (committed content + pending bytes that a crash may have persisted to any prefix; os.replace atomic and carrying the pending bytes): C08_atomic_save (every crash point of open-tmp/write/close/replace leaves the target wholly old or wholly new, any blob, any disk), C08_flush_atomic (the same for every file of a flush of any number of files, by induction), C08_unserialisable_harmless, and two witnesses that the crash model is strong enough to break plain mode and replace-before-close. Tie: the traced mutating file operations of 13 real save scenarios (both buffer strategies, forced and exit flushes, write_concern, threading off) must equal the model's saveSteps, serialisation first; search: the process is killed at every file operation x write prefixes x (bytes flushed / still buffered), then files, reopen and a later save are checked.",
    design_ref="§5 C08", technique="Lean 4 theorems over a crash model of file operations + trace correspondence + crash-point enumeration (fault injection) on the real save paths",
    note=COMMON_NOTE + "Assumed: os.replace atomic within a directory; process crash only (no fsync, OS/power failure outside the claim); uuid4 names do not collide. The crash enumeration covers file-operation boundaries and write prefixes, not every Python line.")

CONC_NOTE = COMMON_NOTE + ("Concurrency: the theorems are about the one-lock machine SC/Conc.lean (operations = sequences of actions executed inside one lock, any number of threads, any schedule). "
    "The tie to the code: (i) the regenerated API table says every public mutator's outermost context is the load-and-save/overwrite bracket (decide); (ii) on every run the lock events and I/O events of every mutator, under every injected fault, are compared with the model's bracket (first event acquires the root/buffer lock, last releases it, all reads/writes/merges in between); "
    "(iii) small multi-threaded programs are executed on the real classes under a deterministic scheduler (event level: preemption-bounded systematic; line level: seeded random) and every outcome must be a serial outcome. Interleavings inside one event-level step are explored by the line-level sampling only. ")

CLAIMS.update({
    "C09": dict(
        text="Theorem C09_linearizable: for every number of threads, programs and EVERY schedule running them to completion, the final shared state equals the serial execution in lock-entry order, which contains every thread's operations in program order - proved by an invariant over schedules (unbounded). C09_all_mutators_bracketed (decide over the regenerated table). Schedules on the real code: all mutators incl. clear/reset/pop/reverse, same object / second object / child handles.",
        design_ref="§5 C09", technique="Lean 4 invariant proof over all schedules of a lock machine + AST-table obligation + event-trace tie + systematic schedule exploration of the real code against serial outcomes",
        note=CONC_NOTE),
    "C10": dict(
        text="Theorems C10_no_lock_leaked (the bracket of _LoadAndSave/_BufferedLoadAndSave as written holds no lock after any failure point, all 16 cases), C10_bracket_lock_order, C10_no_deadlock (lock-hierarchy theorem for any number of threads and locks), C10_old_bracket_leaks (the model exhibits the pre-fix defect), C10_no_deadlock_audited (the hierarchy hypothesis as the acquisition audit Locks.acquireOk that the harness evaluates, through the model driver, on every lock acquisition it observes on the real code: buffer < file < class registry). Real code: fault injection of every operation x 6 fault kinds x root/child x unbuffered/buffered/capacity 0 on six families with instrumented locks (no lock owned afterwards; a second object completes a write); filename rebinding; deadlock detection under the scheduler incl. contexts entered/left by a concurrent thread and `obj.filename = other` concurrent with writers.",
        design_ref="§5 C10", technique="Lean 4 theorems (finite bracket table by decide, general lock-hierarchy theorem) + fault injection with instrumented locks + scheduler deadlock detection",
        note=CONC_NOTE),
    "C13": dict(
        text="Theorems C13_buffer_serialised (the linearizability theorem instantiated with the buffer-machine state: buffered mutators hold the class-wide buffer lock around load-modify-save incl. forced flushes) and C13_accounting_survives_interleaving (every concurrent execution of buffer-machine steps keeps the C15 size invariant). Real code: threads inside buffer_backend(cap), cap in {default,0,1,2,30,60}, 1-2 files, same/different objects; outcome must be serial, size 0 after exit, no buffer-related error.",
        design_ref="§5 C13", technique="Lean 4 linearizability theorem instantiated on the buffer machine + schedule exploration of the real buffered classes",
        note=CONC_NOTE),
    "C14": dict(
        text="The full property is FALSE of the design (reads take no lock) and is recorded as known findings with root-cause signatures; proved: C14_partial_writers_only (= C09) and C14_counterexample_suspend, a kernel-checked schedule of the reader/writer machine (shared memory + suspend counter) that loses the writer's update. The check explores reader/writer programs on the real code, unbuffered and inside buffer_backend(cap) of both strategies (capacities that make a reader's load force a flush); every violation whose signature (same-object vs separate objects, mechanism from the event trace, error class, operation) is not a listed finding is reported.",
        design_ref="§5 C14", technique="Lean 4 partial theorem + kernel-checked counter-example schedule + schedule exploration with signature-keyed known findings",
        note=CONC_NOTE + "Known findings, by call pattern: a lock-free read through a root object another thread uses (any symptom), the same through two objects sharing one container in a shared-memory buffered context, and the multi-load Sequence mix-ins count/index/__contains__ against a concurrent writer on another object."),
})

CLAIMS["C16"] = dict(
    text="Theorems C16_copy_in_fresh (every node _from_base builds - from plain data or from data containing synced nodes - has an identity in the allocator's fresh range, all distinct; mutual induction, any depth), C16_assign_synced_is_copy, C16_copy_out_plain_{dict,list} ((), values(), items() are identity-free plain data by type), C16_removed_detached (a popped/deleted value shares no identity with what remains). Real code: identity audit with id() over all entry points x targets x 9 families (buffered ones also inside buffer_backend()), followed by mutation of every container of the argument / result.",
    design_ref="§5 C16", technique="Lean 4 freshness theorems over identity-carrying trees + id()-level aliasing audit and mutate-after tests on the real classes",
    note=COMMON_NOTE + "Identity is a modelled notion (node ids vs id()); keys() and __getitem__ intentionally return live objects and are outside the claim.")
CLAIMS["C18"] = dict(
    text="Obligations by decide over the regenerated class table: C18_family_closed (the classes _from_base picks for nested mappings/sequences - for plain data AND for synced collections of another family - are the family's own dict/list class) and C18_ctor_attrs_protected. Theorems over SC/Attr.lean: C18_attr_eq_item (get/set/del through attribute syntax equal item syntax with KeyError->AttributeError for every eligible key, any node), C18_missing_is_attribute_error, C18_protected_addresses_object, C18_protected_get_addresses_object, C18_item_never_disturbs; C18_counterexample_stale_protected_get is the known finding. Real code: family walk after every entry point incl. foreign synced data and kind-changing reloads; key pool x {get,set,del} x {attr,item} x depth 0-2 against an item-syntax twin; route correspondence with the model.",
    design_ref="§5 C18", technique="decide over regenerated class table + Lean 4 routing theorems + route correspondence + twin oracle over a key pool",
    note=COMMON_NOTE + "Known finding: getattr of a protected name that is not an attribute of the object falls through to the data (pinned by the repository's tests). Python's attribute lookup order is modelled.")

CLAIMS["C19"] = dict(
    text="Theorems over SC/Resolver.lean (ordered predicates, per-type cache, blocklist): C19_cache_transparent (if the predicates are type-determined on every cacheable type, then after ANY history of get_type calls every answer equals the cache-free classification and the cache stays correct - induction over histories), C19_outcome_history_free, C19_type_determined_of_preds; C19_resolvers_table (decide over the regenerated table of all 7 module-level resolvers: isinstance-only predicates, or numpy-dependent ones with ndarray blocklisted and a subclass-aware blocklist test); C19_exact_blocklist_is_history_dependent (the model exhibits the defect that was fixed). Real code: warm-up histories in fresh interpreters (with and without a numpy stand-in) against history-free probes; resolver-algorithm correspondence with the model.",
    design_ref="§5 C19", technique="Lean 4 invariant over call histories + decide over AST-derived resolver table + fresh-interpreter differential histories + resolver correspondence",
    note=COMMON_NOTE + "isinstance is assumed type-determined; numpy is exercised through a stand-in.")

NOT_YET = {}

NOTES = ("All checks share one pipeline (./check): regenerate lean/SC/Generated/Tables.lean from /repo, lake build the model driver and the property's "
         "theorem module, audit axioms, run model-vs-code correspondence and direct oracles on the real classes, write evidence. "
         "A broken obligation or correspondence without a concrete failing input is reported as `VIOLATION ... no-failing-input-found`.")
