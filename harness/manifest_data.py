"""What MANIFEST.json claims, per property (kept next to the code that implements it)."""

COMMON_NOTE = ("Trusted: Lean 4.33 kernel; axioms propext/Classical.choice/Quot.sound only (audited per theorem on every run); "
               "the translator harness/extract.py; the correspondence harness (generators, canonicalisation, fakes for Redis/MongoDB/Zarr). "
               "The theorems are about the hand-written executable model lean/SC/*.lean; the model is tied to /repo's working tree on every run by "
               "(i) tables regenerated from the source that feed `decide`d obligations and (ii) differential correspondence of model and real classes on "
               "generated operation programs, plus direct oracles on the real classes that supply the concrete failing input when something breaks. ")

CLAIMS = {
    "C01": dict(
        text="Theorem C01_write_through: for every model state, handle (root or child at any depth) and mutating op, a normal return implies backend == plain content of the owner's tree; the content refinement to built-in dict/list is C03's naturality theorems. Unbounded in program length, depth, values. The model's `call` is tied to the 18 real classes by correspondence on generated programs (all 9 families) and a shadow-structure oracle replaying built-in dict/list.",
        design_ref="§5 C01", technique="Lean 4 theorem over executable model + differential correspondence + built-in shadow oracle",
        note=COMMON_NOTE + "Backend content compared as parsed data; Redis/MongoDB/Zarr through fakes."),
    "C02": dict(
        text="Obligation C02_reads_table (decide over the regenerated API table: every read method loads first) and theorem C02_reads_load_first (every read is answered from the merge of the backend's current content); handle attachment across reloads is exercised by correspondence with outside rewrites at random positions and by the shadow oracle's attachment rule. The merge post-condition (content after merge == data) is tied by correspondence, its proof is work in progress.",
        design_ref="§5 C02", technique="Lean 4 theorem + decide over generated table + differential correspondence with outside writers",
        note=COMMON_NOTE + "Partial: `update_post` (merge result equals the data up to key order) is validated by correspondence, not yet proved."),
    "C03": dict(
        text="Theorems C03_{dict,list}_{mutators,reads}_refine_builtin: every plain dict/list method the library forwards to (incl. all slice forms, negative/out-of-range indices, comparisons with TypeError cases) commutes with forgetting child identities, i.e. equals the built-in operation on plain content, for all sizes and arguments; C03_error_leaves_unchanged_*. The built-in semantics functions (SC/Builtin.lean) are themselves diffed against real dict/list through the three-way oracle.",
        design_ref="§5 C03", technique="Lean 4 naturality theorems + three-way differential (real class / model / built-in)",
        note=COMMON_NOTE + "update/reset/setdefault bodies (which merge) are covered by correspondence and the C11 merge theorem, not by the naturality theorems."),
    "C04": dict(
        text="Obligation C04_brackets_table (decide over the regenerated API table: every public mutator of every class is defined in the repo, runs inside the load-and-save or overwrite context and does not rebind _data) and theorems C04_child_ops_load_first / C04_root_ops_load_first / C04_load_is_merge: every op through a child handle, clear/reset included, is applied to the backend's current content merged into memory. Histories over 2-3 objects and stale handles by correspondence and shadow oracle.",
        design_ref="§5 C04", technique="Lean 4 theorem + decide over AST-derived table + multi-object differential histories",
        note=COMMON_NOTE + "The AST summary of method brackets is shallow (first `with` item, rebinding of self._data)."),
    "C11": dict(
        text="Theorems (unbounded depth/width): validators characterised exactly (validate vs t = none <-> every key/leaf meets the requirement); C11_table by decide over the regenerated class table (both the dict and the list class of every family implement the family's requirement - i.e. every class _from_base can pick); C11_merge_never_admits: the in-place merge used by reload/update()/reset() never lets forbidden data into memory or detached nodes, even when it stops with an error; C11_error_class; C11_rejected_changes_nothing.",
        design_ref="§5 C11", technique="Lean 4 mutual-induction theorems + decide over generated validator table + planted-defect differential stream",
        note=COMMON_NOTE + "For the Zarr family the requirement is string keys only (what leaves are storable depends on the codec)."),
    "C12": dict(
        text="Theorems C12_accept / C12_accept_item (every clean value of any depth is accepted by both classes of every family of the current source) and C12_roundtrip_fromBase (conversion to a synced tree and back is the identity on content incl. scalar constructors); strict-type round trip through a fresh object by oracle on values from a ==-colliding scalar alphabet.",
        design_ref="§5 C12", technique="Lean 4 theorems + strict-type round-trip oracle",
        note=COMMON_NOTE + "The JSON text layer (json.dumps/loads, BSON, numcodecs) is exercised by value, not modelled; ±0.0 are identified."),
    "C17": dict(
        text="Theorems C17_read_pure / C17_reads_pure: in the model no read operation (any handle, any state, returned or raised) changes any backend or creates a missing one; tied by correspondence and an oracle that re-reads the resource independently after every read. Buffered read-only contexts: correspondence + oracle on file bytes/inode/mtime (model theorem in progress).",
        design_ref="§5 C17", technique="Lean 4 theorem + differential correspondence + independent resource re-read",
        note=COMMON_NOTE),
}

NOT_YET = {}

NOTES = ("All checks share one pipeline (./check): regenerate lean/SC/Generated/Tables.lean from /repo, lake build the model driver and the property's "
         "theorem module, audit axioms, run model-vs-code correspondence and direct oracles on the real classes, write evidence. "
         "A broken obligation or correspondence without a concrete failing input is reported as `VIOLATION ... no-failing-input-found`.")
