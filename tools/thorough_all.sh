#!/bin/bash
# thorough_all.sh [seed]: every claimed check at the thorough tier, one after the other
cd "$(dirname "$0")/.."
(cd lean && lake build driver SC > /dev/null 2>&1)
for p in $(python3 -c "import json;print(' '.join(c['property_id'] for c in json.load(open('MANIFEST.json'))['checks']))"); do
  out=$(VERIF_SEED=${1:-0} timeout 14400 ./check $p --tier thorough 2>&1); rc=$?
  echo "$p rc=$rc :: $(echo "$out" | grep "^check " | tail -1)"
  if [ $rc -ne 0 ]; then echo "$out" | grep -v "KNOWN-FINDING\|conda" | head -12; fi
done
echo THOROUGH-DONE
