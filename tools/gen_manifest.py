#!/usr/bin/env python3
"""Regenerate MANIFEST.json from harness/manifest_data.py (claimed checks) and properties.jsonl."""
import json, os, sys
V = os.path.dirname(os.path.dirname(os.path.abspath(__file__)))
sys.path.insert(0, os.path.join(V, "harness"))
import manifest_data as md
props = [json.loads(l) for l in open(os.path.join(V, "properties.jsonl"))]
checks = []
for p in props:
    pid = p["id"]
    if pid not in md.CLAIMS:
        continue
    c = md.CLAIMS[pid]
    checks.append(dict(
        property_id=pid,
        quick_cmd="./check %s --tier quick" % pid,
        thorough_cmd="./check %s --tier thorough" % pid,
        evidence_file="evidence/%s.json" % pid,
        replay_cmd_template="./check %s --replay {path}" % pid,
        engine="lean4-model+correspondence",
        level_claimed=dict(category="proof", text=c["text"], design_ref=c["design_ref"]),
        level_note=c["note"],
        technique=c["technique"],
    ))
na = [dict(property_id=p["id"], reason=md.NOT_YET.get(p["id"], "not yet claimed: machinery for this property is still being built (see DESIGN.md)"))
      for p in props if p["id"] not in md.CLAIMS]
m = dict(
    version=1,
    setup_cmd="cd lean && lake build driver SC",
    hooks=dict(guard="SYNCED_COLLECTIONS_VERIF", enable="no source hooks: the harness instruments by rebinding module globals in-process (RLock, open/os in collection_json, _CounterContext); the variable is reserved",
               baseline_off_cmd="cd /repo && /venv/bin/python -m pytest -ra -q -p no:cacheprovider --timeout=900 --continue-on-collection-errors",
               source_commits=[], add_only=True),
    engines=[dict(name="lean4-model+correspondence", path="lean/ harness/ check", serves_properties=sorted(md.CLAIMS),
                  kind_free_text="Lean 4 executable model with machine-checked theorems; tables regenerated from /repo by harness/extract.py; differential correspondence and direct oracles on the real classes")],
    checks=checks,
    notes=md.NOTES,
    not_applicable=na,
)
json.dump(m, open(os.path.join(V, "MANIFEST.json"), "w"), indent=1)
print("MANIFEST.json: %d checks, %d not claimed" % (len(checks), len(na)))
