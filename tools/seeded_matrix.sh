#!/bin/bash
# seeded_matrix.sh [tier] (env SEED=n for another seed): apply every seeded change to /repo in turn, run the check of the property it breaks, undo it.
# Must not run while anything else uses /repo.
TIER=${1:-quick}
cd /verif
EVBAK=$(mktemp -d); cp evidence/*.json $EVBAK/   # evidence written while a seeded change is applied is not evidence
git -C /repo status --short | grep -q . && { echo "repo dirty"; exit 2; }
for d in seeded/*/; do
  name=$(basename $d)
  prop=${name%%_*}
  if ! git -C /repo apply /verif/$d/patch.diff 2>/dev/null; then echo "$name: PATCH DOES NOT APPLY"; continue; fi
  out=$(timeout 3600 ./check $prop --tier $TIER ${SEED:+--seed $SEED} 2>&1); rc=$?
  git -C /repo checkout -- .
  first=$(echo "$out" | grep -A1 "^VIOLATION" | grep -v "^VIOLATION\|^--" | head -1 | cut -c1-220)
  kind=$(echo "$out" | grep "^VIOLATION" | head -1 | grep -q "no-failing-input-found" && echo "tie-only" || echo "input")
  echo "$name: exit=$rc $( [ $rc -eq 1 ] && echo CAUGHT/$kind || echo MISSED ) :: $first"
done
(cd harness && /venv/bin/python extract.py >/dev/null)
cp $EVBAK/*.json evidence/; rm -rf $EVBAK
echo MATRIX-DONE
