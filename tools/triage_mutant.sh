#!/bin/bash
# triage_mutant.sh <worktree> <prop> <name>: confirm a seeded change (keep_mutant.sh), archive it, and run the
# property's quick check against the worktree (VERIF_REPO) without touching /repo.
WT=$1; P=$2; NAME=$3
bash /verif/tools/keep_mutant.sh $WT $P $NAME 2>&1 | tail -1
[ -f $WT/NOTES.md ] && cp $WT/NOTES.md /verif/seeded/$NAME/
cd /verif
EVBAK=$(mktemp -d); cp evidence/*.json $EVBAK/
out=$(VERIF_REPO=$WT timeout 3600 ./check $P --tier ${4:-quick} 2>&1); rc=$?
echo "$NAME: check exit=$rc"
echo "$out" | grep -A1 "^VIOLATION" | grep -v "^--" | cut -c1-260 | head -6
echo "$out" | grep "^check" | tail -1
(cd harness && /venv/bin/python extract.py >/dev/null)
cp $EVBAK/*.json evidence/; rm -rf $EVBAK
