#!/bin/bash
# sweep_conc.sh <seed...>: the schedule-exploration checks (C09 C10 C13 C14) with many seeds on the unchanged tree
cd "$(dirname "$0")/.."
(cd lean && lake build driver SC > /dev/null 2>&1)
for seed in "$@"; do
  for p in C14 C13 C09 C10; do
    out=$(VERIF_SEED=$seed timeout 7200 ./check $p --tier quick 2>&1); rc=$?
    echo "seed=$seed $p rc=$rc :: $(echo "$out" | grep "^check " | tail -1)"
    if [ $rc -ne 0 ]; then echo "$out" | grep -v "KNOWN-FINDING\|conda" | head -8; fi
  done
done
echo SWEEP-DONE
