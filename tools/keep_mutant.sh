#!/bin/bash
# keep_mutant.sh <worktree> <prop> <name> : verify a seeded change (suite passes, demo fails with / passes without) and archive it
WT=$1; P=$2; NAME=$3
D=/verif/seeded/$NAME
mkdir -p $D
cd $WT || exit 1
git diff -- synced_collections > $D/patch.diff
DEMO=$(ls demo_*.py | head -1)
cp $DEMO $D/demo.py
W=$(/venv/bin/python $DEMO 2>&1 | tail -4); RW=$?
/venv/bin/python $DEMO > /tmp/keep_with.txt 2>&1; RW=$?
T=$(/venv/bin/python -m pytest -q -p no:cacheprovider --timeout=900 2>&1 | tail -1)
git stash -q
/venv/bin/python $DEMO > /tmp/keep_without.txt 2>&1; RO=$?
git stash pop -q
python3 - "$P" "$NAME" "$RW" "$RO" "$T" <<'PY'
import json,sys
p,name,rw,ro,t=sys.argv[1:6]
meta=dict(property=p,name=name,demo_exit_with_change=int(rw),demo_exit_without_change=int(ro),suite_with_change=t,
          demo_output_with_change=open('/tmp/keep_with.txt').read()[-1500:],
          ran=["demo.py with the change (must exit 1)","git stash; demo.py (must exit 0)","full pytest suite with the change (must report 578 passed)"],
          needs="(filled in by hand)", caught_by="(filled in after running the checks)")
json.dump(meta,open('/verif/seeded/%s/meta.json'%name,'w'),indent=1)
print(name,"with:",rw,"without:",ro,"suite:",t)
PY
