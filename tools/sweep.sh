#!/bin/bash
# sweep.sh <tier> <seed...> : run every claimed check with several seeds on the unchanged tree; print what is not clean
TIER=$1; shift
cd "$(dirname "$0")/.."
(cd lean && lake build driver SC > /dev/null 2>&1)
for seed in "$@"; do
  for p in $(python3 -c "import json;print(' '.join(c['property_id'] for c in json.load(open('MANIFEST.json'))['checks']))"); do
    out=$(VERIF_SEED=$seed timeout 7200 ./check $p --tier $TIER 2>&1); rc=$?
    line=$(echo "$out" | grep "^check " | tail -1)
    echo "seed=$seed $p rc=$rc :: $line"
    if [ $rc -ne 0 ]; then echo "$out" | grep -v "KNOWN-FINDING\|conda" | head -12; fi
  done
done
echo SWEEP-DONE
