#!/bin/bash
# Run the unedited baseline suite on every commit after the pinned snapshot (each in a scratch worktree).
BASE=${1:-b7c0952}
OUT=${2:-/tmp/fix_commit_validation.txt}
: > $OUT
for c in $(git -C /repo rev-list --reverse $BASE..HEAD); do
  d=/tmp/wt_$c
  git -C /repo worktree add -q --detach $d $c || continue
  (cd $d && timeout 1500 /venv/bin/python -m pytest -q -p no:cacheprovider --timeout=900 --continue-on-collection-errors 2>&1 | tail -1 | sed "s/^/$c $(git -C /repo log -1 --format=%s $c | cut -c1-60) :: /") >> $OUT
  git -C /repo worktree remove --force $d
done
echo DONE >> $OUT
