#!/bin/bash
# run_seeded.sh <seeded-name> <prop> [<prop>...] : apply a seeded change to /repo, run the checks, undo it
NAME=$1; shift
cd /repo && git status --short | grep -q . && { echo "repo dirty"; exit 2; }
git -C /repo apply /verif/seeded/$NAME/patch.diff || exit 2
for p in "$@"; do
  out=$(cd /verif && timeout 1800 ./check $p ${TIER:+--tier $TIER} 2>&1)
  rc=$?
  echo "== $NAME / $p: exit $rc"
  echo "$out" | grep -E "VIOLATION|KNOWN|check C" | head -6
  echo "$out" | grep -A1 "VIOLATION" | grep -v "VIOLATION\|--" | head -3
done
git -C /repo checkout -- . 
cd /verif/harness && /venv/bin/python extract.py > /dev/null
