"""Which lines of synced_collections do the correspondence / oracle programs execute?
One-off measurement (sys.settrace line tracer, stdlib only): prints, per source file, the share of
executable lines reached and the unreached line ranges.  Usage:
    /venv/bin/python tools/coverage_probe.py [n_programs_per_profile]
"""
import dis
import os
import sys
import threading

sys.path.insert(0, os.path.join(os.path.dirname(os.path.abspath(__file__)), "..", "harness"))
import env  # noqa: E402

ns = env.load()
PKG = os.path.dirname(ns.sc.__file__)
hit = {}


def tracer(frame, event, arg):
    fn = frame.f_code.co_filename
    if not fn.startswith(PKG):
        return None
    if event == "line":
        hit.setdefault(fn, set()).add(frame.f_lineno)
    return tracer


def executable_lines(path):
    src = open(path).read()
    code = compile(src, path, "exec")
    out = set()
    stack = [(code, False)]
    while stack:
        c, is_func = stack.pop()
        if is_func:      # only lines inside function bodies: module/class level runs at import
            for _, ln in dis.findlinestarts(c):
                if ln and ln != c.co_firstlineno:
                    out.add(ln)
        for k in c.co_consts:
            if hasattr(k, "co_code"):
                # class bodies are code objects too: their name is the class name and they are
                # run once at import; functions are what we want
                stack.append((k, not (k.co_name[:1].isupper() and "." not in k.co_qualname) or is_func))
    return out


def main():
    n = int(sys.argv[1]) if len(sys.argv) > 1 else 15
    import suites
    import boracles
    import propconf
    sys.settrace(tracer)
    threading.settrace(tracer)
    for fam in range(len(ns.families)):
        for prof in ("single", "ext", "multi", "invalid", "plainfile"):
            for seed in range(n):
                try:
                    suites.unit_seq_corr((fam, seed, prof, 30))
                except Exception:  # noqa: BLE001
                    pass
    for fam in (1, 2, 4, 5):
        for prof in suites.BUF_PROFILES:
            for seed in range(n):
                suites.unit_buf_corr((fam, seed, prof, 30))
        for prof in boracles.TWIN_PROFILES:
            for seed in range(max(n // 2, 2)):
                boracles.unit_buf_twin((fam, seed, prof, 30))
    for prop in ("C08", "C09", "C10", "C13", "C14", "C16", "C18"):
        for unit, args in propconf.tasks(prop, "quick", 0)[:: max(1, 40 // n)]:
            try:
                getattr(suites, unit)(args)
            except Exception:  # noqa: BLE001
                pass
    sys.settrace(None)
    threading.settrace(None)
    tot_e = tot_h = 0
    for root, _, files in os.walk(PKG):
        for f in sorted(files):
            if not f.endswith(".py") or f.startswith("_version"):
                continue
            p = os.path.join(root, f)
            ex = executable_lines(p)
            h = hit.get(p, set()) & ex
            tot_e += len(ex)
            tot_h += len(h)
            miss = sorted(ex - h)
            ranges = []
            for ln in miss:
                if ranges and ln <= ranges[-1][1] + 2:
                    ranges[-1][1] = ln
                else:
                    ranges.append([ln, ln])
            print("%-62s %4d/%4d  missing: %s" % (os.path.relpath(p, PKG), len(h), len(ex),
                                                  " ".join("%d-%d" % (a, b) if a != b else str(a) for a, b in ranges)[:300]))
    print("TOTAL %d/%d = %.1f%%" % (tot_h, tot_e, 100.0 * tot_h / max(tot_e, 1)))


if __name__ == "__main__":
    main()
