/-
Line-protocol driver: reads commands on stdin, runs the executable model,
prints one canonical result line (and a state line) per command.
-/
import SC.Proto
import SC.Buffer
import SC.FS
import SC.Conc
import SC.Attr
import SC.Resolver
import SC.Generated.Tables
open SC SC.Proto

structure Drv where
  st : State
  /-- L2 machine (buffered class), when the program runs in buffered mode -/
  bst : Option B.State := none
  flen : List ((Int × Nat) × Nat) := []
  /-- handle number ↦ node identity, in order of first appearance -/
  hmap : Array Nat := #[]

def Drv.handleNo (d : Drv) (id : Nat) : Drv × Nat :=
  match d.hmap.toList.findIdx? (· == id) with
  | some k => (d, k)
  | none => ({ d with hmap := d.hmap.push id }, d.hmap.size)

def showNode (d : Drv) (v : T) : Drv × String :=
  match v.id? with
  | none => (d, showVal v)
  | some id =>
    let (d', k) := d.handleNo id
    (d', s!"H{k}:{showVal v}")

def showOut (d : Drv) : Out Nat → Drv × String
  | .unit => (d, "U")
  | .node v => showNode d v
  | .nodes vs =>
    let (d', strs) := vs.foldl (fun (acc : Drv × List String) v =>
      let (d1, s) := showNode acc.1 v; (d1, acc.2 ++ [s])) (d, [])
    (d', "( " ++ String.join (strs.map (· ++ " ")) ++ ")")
  | .pair k v =>
    let (d', s) := showNode d v
    (d', s!"( {showKey k} {s} )")
  | .plain j => (d, showVal j)

def showState (s : State) : String :=
  let stores := s.stores.toArray.qsort (fun a b => a.1 < b.1) |>.toList
  let st := String.join (stores.map (fun p => s!" r{p.1}={showVal p.2}"))
  let mem := String.join (s.objs.zipIdx.map (fun p => s!" o{p.2}={showVal p.1.root}"))
  s!"st{st} | mem{mem}"

def showBState (s : B.State) : String :=
  let stores := s.stores.toArray.qsort (fun a b => a.1 < b.1) |>.toList
  let st := String.join (stores.map (fun p => s!" r{p.1}={showVal p.2}"))
  let ents := (s.entries.map (·.1)).toArray.qsort (· < ·) |>.toList
  s!"st{st} | buf size={s.size} cap={s.capacity} files={ents}"

def errName (e : Err) : String :=
  match e with
  | .other n => if n.startsWith "BufferedError:" then "BufferedError " ++ (n.drop 14).toString else n
  | e => e.name

def bstep (d : Drv) (b : B.State) (toks : List String) : Drv × List String :=
  let fin (b' : B.State) (first : String) : Drv × List String :=
    ({ d with bst := some b' }, [first, showBState b'])
  let finE (r : B.State × Option Err) : Drv × List String :=
    match r.2 with
    | some e => fin r.1 s!"err {errName e}"
    | none => fin r.1 "ok"
  match toks with
  | "open" :: _ :: kind :: res :: rest =>
    match res.toNat? with
    | some r =>
      let data := match rest with
        | [] => some none
        | _ => (parseVal rest).map (fun p => some p.1)
      match data with
      | none => (d, ["bad-op"])
      | some data =>
        let (b', e) := B.openObj b (kind == "d") r data
        match e with
        | some e => fin b' s!"err {e.name}"
        | none => fin b' s!"ok o{b'.objs.length - 1}"
    | none => (d, ["bad-op"])
  | "ext" :: res :: rest =>
    match res.toNat?, parseVal rest with
    | some r, some (v, _) => fin (B.extWrite b r v) "ok"
    | _, _ => (d, ["bad-op"])
  | ["extdel", res] =>
    match res.toNat? with
    | some r => fin (b.deleteFile r) "ok"
    | none => (d, ["bad-op"])
  | ["enter", o] =>
    match (rest1 o).toNat? with
    | some oi => fin (B.enterObj b oi) "ok"
    | none => (d, ["bad-op"])
  | ["exit", o] =>
    match (rest1 o).toNat? with
    | some oi => finE (B.exitObj b oi)
    | none => (d, ["bad-op"])
  | ["center"] => finE (B.enterCls b none)
  | ["center", c] =>
    match c.toNat? with
    | some c => finE (B.enterCls b (some c))
    | none => (d, ["bad-op"])
  | ["cexit"] => finE (B.exitCls b)
  | ["setcap", c] =>
    match c.toNat? with
    | some c => finE (B.setCapacity b c)
    | none => (d, ["bad-op"])
  | "fail" :: rs =>
    match rs.mapM String.toNat? with
    | some rs => fin { b with failing := rs } "ok"
    | none => (d, ["bad-op"])
  | "call" :: h :: rest =>
    let hd : Option Handle :=
      if h.startsWith "o" then (rest1 h).toNat?.map Handle.root
      else if h.startsWith "h" then
        match (rest1 h).toNat? with
        | some k => (d.hmap[k]?).map Handle.node
        | none => none
      else none
    match hd, parseOp rest with
    | some h, some op =>
      let (b', out) := B.call b h op
      let d1 := { d with bst := some b' }
      match out with
      | .error e => (d1, [s!"err {errName e}", showBState b'])
      | .ok o =>
        let (d2, str) := showOut d1 o
        (d2, [s!"ok {str}", showBState b'])
    | _, _ => (d, ["bad-op"])
  | _ => (d, ["bad-op"])

def parseHandle (d : Drv) (tok : String) : Option Handle :=
  if tok.startsWith "o" then (rest1 tok).toNat?.map Handle.root
  else if tok.startsWith "h" then
    match (rest1 tok).toNat? with
    | some k => (d.hmap[k]?).map Handle.node
    | none => none
  else none

def stepL1 (d : Drv) (toks : List String) : Drv × List String :=
  match toks with
  | [] => (d, [])
  | "#" :: _ => (d, [])
  | ["reset"] => ({ st := State.empty d.st.fams, flen := d.flen }, ["ok"])
  | ["flt", n, dn, l] =>
    match parseInt? n, dn.toNat?, l.toNat? with
    | some n, some dn, some l => ({ d with flen := ((n, dn), l) :: d.flen }, ["ok"])
    | _, _, _ => (d, ["bad-op"])
  | ["breset", fam, strat] =>
    match fam.toNat? with
    | some f =>
      let fm := d.st.fams.getD f default
      let st : Buffering := if strat == "mem" then .sharedMemory else .serialized
      ({ st := State.empty d.st.fams, flen := d.flen, bst := some (B.State.init fm st d.flen) }, ["ok"])
    | none => (d, ["bad-op"])
  | ["fam", dv, lv] =>
    ({ d with st := { d.st with fams := d.st.fams ++ [⟨parseValidators dv, parseValidators lv⟩] } }, ["ok"])
  | "open" :: fam :: kind :: res :: rest =>
    match fam.toNat?, res.toNat? with
    | some f, some r =>
      let data := match rest with
        | [] => some none
        | _ => (parseVal rest).map (fun p => some p.1)
      match data with
      | none => (d, ["bad-op"])
      | some data =>
        let (s', e) := openObj d.st f (kind == "d") r data
        match e with
        | some e => ({ d with st := s' }, [s!"err {e.name}", showState s'])
        | none => ({ d with st := s' }, [s!"ok o{s'.objs.length - 1}", showState s'])
    | _, _ => (d, ["bad-op"])
  | "ext" :: res :: rest =>
    match res.toNat?, parseVal rest with
    | some r, some (v, _) =>
      let s' := extWrite d.st r v
      ({ d with st := s' }, ["ok", showState s'])
    | _, _ => (d, ["bad-op"])
  | ["extdel", res] =>
    match res.toNat? with
    | some r => let s' := d.st.delStore r; ({ d with st := s' }, ["ok", showState s'])
    | none => (d, ["bad-op"])
  | "call" :: h :: rest =>
    match parseHandle d h, parseOp rest with
    | some h, some op =>
      let (s', out) := call d.st h op
      let d1 := { d with st := s' }
      match out with
      | .error e => (d1, [s!"err {e.name}", showState s'])
      | .ok o =>
        let (d2, str) := showOut d1 o
        (d2, [s!"ok {str}", showState s'])
    | _, _ => (d, ["bad-op"])
  | _ => (d, ["bad-op"])


/-! ### L4 queries (one output line each) -/

def showFsOp : FS.FsOp → String
  | .openTrunc p => s!"open {p}"
  | .write p bs => s!"write {p} {bs.length}"
  | .close p => s!"close {p}"
  | .replace a b => s!"replace {a} {b}"
  | .stat p => s!"stat {p}"

/-- classify the content of `target` in a crash state relative to old / new content -/
def classify (old new : Option FS.Bytes) (cur : Option FS.Bytes) : String :=
  if cur == new then "new"
  else if cur == old then "old"
  else match cur with
    | none => "missing"
    | some [] => "empty"
    | some b => s!"prefix{b.length}"

def fsQuery (toks : List String) : String :=
  let nats := toks.filterMap String.toNat?
  match toks, nats with
  | "save" :: _, [atomic, encOk, target, tmp, len] =>
    let ops := FS.saveProgram (atomic == 1) target tmp (if encOk == 1 then some (List.range len) else none)
    "ops: " ++ "; ".intercalate (ops.map showFsOp)
  | "crash" :: _, [atomic, target, tmp, len, oldlen] =>
    -- old content: `oldlen` zeros (absent when oldlen = 0); new content: 1..len
    let old : Option FS.Bytes := if oldlen == 0 then none else some (List.replicate oldlen 0)
    let blob : FS.Bytes := (List.range len).map (· + 1)
    let d : FS.Disk := ⟨match old with | some b => [(target, b)] | none => [], []⟩
    let cs := FS.crashContents d (FS.saveSteps (atomic == 1) target tmp blob) target
    let cls := (cs.map (fun x => classify old (some blob) x)).eraseDups
    "outcomes: " ++ " ".intercalate ((cls.toArray.qsort (· < ·)).toList)
  | "load" :: _, [target] =>
    "ops: " ++ "; ".intercalate ((FS.loadProgram target).map showFsOp)
  | "flush" :: _, atomic :: rest =>
    let rec items : List Nat → List FS.FlushItem
      | t :: tmp :: len :: more => ⟨t, tmp, List.range len⟩ :: items more
      | _ => []
    "ops: " ++ "; ".intercalate ((FS.flushSteps (atomic == 1) (items rest)).map showFsOp)
  | _, _ => "bad-query"

def showLock : Conc.Bracket.Lock → String
  | .buffer => "buffer"
  | .file => "file"

def showEv : Conc.Bracket.Ev → String
  | .acq l => s!"acq {showLock l}"
  | .rel l => s!"rel {showLock l}"
  | .load => "load"
  | .body => "body"
  | .save => "save"

/-- `br <buffered> <noLoad> <fail>`: the lock bracket of one operation -/
def brQuery (toks : List String) : String :=
  match toks with
  | [b, n, f] =>
    let fail : Option Conc.Bracket.Fail := match f with
      | "none" => some .none | "load" => some .load | "body" => some .body | "save" => some .save | _ => none
    match fail with
    | some fl => "events: " ++ "; ".intercalate ((Conc.Bracket.trace (b == "1") (n == "1") fl).map showEv)
    | none => "bad-query"
  | _ => "bad-query"

/-- `lockorder <held role>* / <acquired role>`: the acquisition audit `Locks.acquireOk` -/
def lockOrderQuery (toks : List String) : String :=
  let role : String → Option Conc.Locks.Role
    | "buffer" => some .buffer | "file" => some .file | "cls" => some .cls | _ => none
  let held := toks.takeWhile (· ≠ "/")
  let rest := (toks.dropWhile (· ≠ "/")).drop 1
  match rest with
  | [acq] =>
    match held.mapM role, role acq with
    | some hs, some a => if Conc.Locks.acquireOk hs a then "order: ok" else "order: inversion"
    | _, _ => "bad-query"
  | _ => "bad-query"

/-- `attr <family> <get|set|del> <dunder 0/1> <key>`: routing of an attribute-syntax access on
the family's dict class, from the regenerated class table -/
def attrQuery (toks : List String) : String :=
  match toks with
  | [f, op, du, key] =>
    match f.toNat?, parseKey key with
    | some fi, some (.s k) =>
      match (Generated.families[fi]?).bind (·.dictClass) with
      | some ci =>
        let c := Attr.Cls.ofInfo ci
        let r := match op with
          | "get" => Attr.getRoute c (du == "1") k
          | _ => Attr.setRoute c (du == "1") k
        "route: " ++ (match r with | .item => "item" | .object => "object" | .attributeError => "attributeError")
      | none => "bad-query"
    | _, _ => "bad-query"
  | _ => "bad-query"

/-- `res ty:exactBlocked:subBlocked:freshCat ...`: answers of the resolver model over a history;
the predicates are "the value's own cache-free category is c", so instance-dependent
classification is expressible; the blocklist mode is the one read from the source -/
def resQuery (toks : List String) : String :=
  let rows := toks.filterMap (fun t =>
    match (t.splitOn ":").map String.toInt? with
    | [some ty, some eb, some sb, some fr] => some (ty.toNat, eb == 1, sb == 1, fr)
    | _ => none)
  let preds : List (Nat × (Resolver.Obj → Bool)) := (List.range 8).map (fun c => (c, fun o => o.inst == c + 1))
  let bl := (rows.filter (·.2.1)).map (·.1)
  let mode : Resolver.BlockMode := match Generated.blocklistMode with
    | .subclassAware => .subclassAware
    | _ => .exactType
  let objs : List Resolver.Obj := rows.map (fun r => ⟨r.1, r.2.2.1, if r.2.2.2 < 0 then 0 else r.2.2.2.toNat + 1⟩)
  let ans := (Resolver.runHistory ⟨preds, bl, mode, []⟩ objs).2
  "answers: " ++ " ".intercalate (ans.map (fun a => match a with | some c => toString c | none => "-1"))

def step (d : Drv) (line : String) : Drv × List String :=
  let toks := (line.splitOn " ").filter (· ≠ "")
  match d.bst, toks with
  | _, "fs" :: rest => (d, [fsQuery rest])
  | _, "br" :: rest => (d, [brQuery rest])
  | _, "lockorder" :: rest => (d, [lockOrderQuery rest])
  | _, "attr" :: rest => (d, [attrQuery rest])
  | _, "res" :: rest => (d, [resQuery rest])
  | _, ["resmode"] => (d, [match Generated.blocklistMode with | .subclassAware => "mode: subclassAware" | .exactType => "mode: exactType" | .unknownMode => "mode: unknown"])
  | some b, t :: ts =>
    if t == "reset" || t == "breset" || t == "flt" || t == "fam" || t == "#" then stepL1 d toks
    else bstep d b (t :: ts)
  | _, _ => stepL1 d toks


partial def loop (h : IO.FS.Stream) (out : IO.FS.Stream) (d : Drv) : IO Unit := do
  let line ← h.getLine
  if line.isEmpty then return ()
  let (d', outs) := step d (line.trimAscii.toString)
  for o in outs do out.putStrLn o
  out.flush
  loop h out d'

def main : IO Unit := do
  let stdin ← IO.getStdin
  let stdout ← IO.getStdout
  loop stdin stdout { st := State.empty [] }
