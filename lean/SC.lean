import SC.Json
import SC.Validators
import SC.Tree
import SC.Builtin
import SC.Seq
import SC.Proto
