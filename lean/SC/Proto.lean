/-
Line protocol shared with the Python harness: value syntax (parse / print) and
command parsing.  Values are whitespace-separated tokens:
  N | T | F | I<int> | R<num>/<den> | S<cp.cp...> | O<tag> | [ v* ] | { (key v)* }
with keys `S<cp.cp...>` (string) or `K<int>` (non-string).
-/
import SC.Seq
namespace SC.Proto

def rest1 (s : String) : String := String.ofList (s.toList.drop 1)

def parseInt? (s : String) : Option Int :=
  if s.startsWith "-" then (rest1 s).toNat?.map (fun n => -(n : Int))
  else s.toNat?.map (fun n => (n : Int))

def parseStr (body : String) : Option String :=
  if body.isEmpty then some "" else
  let parts := body.splitOn "."
  parts.foldlM (fun acc p => p.toNat?.map (fun n => acc.push (Char.ofNat n))) ""

def parseKey (tok : String) : Option Key :=
  if tok.startsWith "S" then (parseStr (rest1 tok)).map Key.s
  else if tok.startsWith "K" then (parseInt? (rest1 tok)).map Key.n
  else none

def parseScalar (tok : String) : Option Scalar :=
  if tok == "N" then some .null
  else if tok == "T" then some (.bool true)
  else if tok == "F" then some (.bool false)
  else if tok.startsWith "I" then (parseInt? (rest1 tok)).map Scalar.int
  else if tok.startsWith "R" then
    match (rest1 tok).splitOn "/" with
    | [a, b] => do let n ← parseInt? a; let d ← b.toNat?; pure (.flt n d)
    | _ => none
  else if tok.startsWith "S" then (parseStr (rest1 tok)).map Scalar.str
  else if tok.startsWith "O" then ((rest1 tok).toNat?).map Scalar.other
  else none

/-- stack-based parser of one value from a token list; returns the value and the rest -/
partial def parseVal : List String → Option (J × List String)
  | [] => none
  | "[" :: rest =>
    let rec items (acc : List J) (ts : List String) : Option (J × List String) :=
      match ts with
      | "]" :: r => some (.list () acc.reverse, r)
      | _ => match parseVal ts with
        | some (v, r) => items (v :: acc) r
        | none => none
    items [] rest
  | "{" :: rest =>
    let rec kvs (acc : List (Key × J)) (ts : List String) : Option (J × List String) :=
      match ts with
      | "}" :: r => some (.dict () acc.reverse, r)
      | k :: r => match parseKey k, parseVal r with
        | some key, some (v, r') => kvs ((key, v) :: acc) r'
        | _, _ => none
      | [] => none
    kvs [] rest
  | tok :: rest => (parseScalar tok).map (fun s => (.leaf s, rest))

def showStr (s : String) : String :=
  ".".intercalate (s.toList.map (fun c => toString c.toNat))

def showKey : Key → String
  | .s k => "S" ++ showStr k
  | .n i => "K" ++ toString i

def showScalar : Scalar → String
  | .null => "N"
  | .bool true => "T"
  | .bool false => "F"
  | .int i => "I" ++ toString i
  | .flt n d => "R" ++ toString n ++ "/" ++ toString d
  | .str s => "S" ++ showStr s
  | .other t => "O" ++ toString t

partial def showVal {ι : Type} : Tr ι → String
  | .leaf s => showScalar s
  | .list _ xs => "[ " ++ String.join (xs.map (fun x => showVal x ++ " ")) ++ "]"
  | .dict _ kvs => "{ " ++ String.join (kvs.map (fun kv => showKey kv.1 ++ " " ++ showVal kv.2 ++ " ")) ++ "}"

def parseOptInt (tok : String) : Option (Option Int) :=
  if tok == "_" then some none else (parseInt? tok).map some

def parseIdx (tok : String) : Option Idx :=
  if tok.startsWith "i" then (parseInt? (rest1 tok)).map Idx.i
  else if tok.startsWith "s" then
    match (rest1 tok).splitOn "," with
    | [a, b, c] => do
      let a ← parseOptInt a; let b ← parseOptInt b; let c ← parseOptInt c
      pure (.sl ⟨a, b, c⟩)
    | _ => none
  else none

def parseCmp : String → Option Cmp
  | "lt" => some .lt | "le" => some .le | "gt" => some .gt | "ge" => some .ge
  | _ => none

def dictItems : J → Option (List (Key × J))
  | .dict _ kvs => some kvs
  | .leaf .null => some []
  | _ => none

/-- parse `<opname> args...` -/
def parseOp : List String → Option Op
  | "dsetitem" :: k :: r => do let k ← parseKey k; let (v, _) ← parseVal r; pure (.dSetitem k v)
  | ["ddelitem", k] => (parseKey k).map Op.dDelitem
  | "dpop" :: k :: r => do let k ← parseKey k; let (v, _) ← parseVal r; pure (.dPop k v)
  | ["dpopitem"] => some .dPopitem
  | ["dclear"] => some .dClear
  | "dupdate" :: r => do
    let (a, r') ← parseVal r
    let (b, _) ← parseVal r'
    pure (.dUpdate (← dictItems a) (← dictItems b))
  | "dsetdefault" :: k :: r => do let k ← parseKey k; let (v, _) ← parseVal r; pure (.dSetdefault k v)
  | "dreset" :: r => do let (v, _) ← parseVal r; pure (.dReset v)
  | ["dgetitem", k] => (parseKey k).map (fun k => .dRead (.getitem k))
  | ["dcontains", k] => (parseKey k).map (fun k => .dRead (.contains k))
  | ["dlen"] => some (.dRead .len)
  | ["diter"] => some (.dRead .iter)
  | ["dcall"] => some (.dRead .call)
  | ["drepr"] => some (.dRead .repr)
  | ["dkeys"] => some (.dRead .keys)
  | ["dvalues"] => some (.dRead .values)
  | ["ditems"] => some (.dRead .items)
  | "deq" :: r => do let (v, _) ← parseVal r; pure (.dRead (.eq v))
  | "dne" :: r => do let (v, _) ← parseVal r; pure (.dRead (.ne v))
  | "dget" :: k :: r => do let k ← parseKey k; let (v, _) ← parseVal r; pure (.dRead (.get k v))
  | "lsetitem" :: ix :: r => do let ix ← parseIdx ix; let (v, _) ← parseVal r; pure (.lSetitem ix v)
  | ["ldelitem", ix] => (parseIdx ix).map Op.lDelitem
  | "linsert" :: i :: r => do let i ← parseInt? i; let (v, _) ← parseVal r; pure (.lInsert i v)
  | "lappend" :: r => do let (v, _) ← parseVal r; pure (.lAppend v)
  | "lextend" :: r => do let (v, _) ← parseVal r; pure (.lExtend v)
  | "liadd" :: r => do let (v, _) ← parseVal r; pure (.lIadd v)
  | "lremove" :: r => do let (v, _) ← parseVal r; pure (.lRemove v)
  | ["lclear"] => some .lClear
  | ["lpop", i] => (parseInt? i).map Op.lPop
  | ["lreverse"] => some .lReverse
  | "lreset" :: r => do let (v, _) ← parseVal r; pure (.lReset v)
  | ["lgetitem", ix] => (parseIdx ix).map (fun ix => .lRead (.getitem ix))
  | "lcontains" :: r => do let (v, _) ← parseVal r; pure (.lRead (.contains v))
  | ["llen"] => some (.lRead .len)
  | ["liter"] => some (.lRead .iter)
  | ["lcall"] => some (.lRead .call)
  | ["lrepr"] => some (.lRead .repr)
  | ["lreversed"] => some (.lRead .reversed)
  | "lindex" :: a :: b :: r => do
    let a ← parseInt? a; let b ← parseOptInt b; let (v, _) ← parseVal r
    pure (.lRead (.index v a b))
  | "lcount" :: r => do let (v, _) ← parseVal r; pure (.lRead (.count v))
  | "leq" :: r => do let (v, _) ← parseVal r; pure (.lRead (.eq v))
  | "lne" :: r => do let (v, _) ← parseVal r; pure (.lRead (.ne v))
  | "lcmp" :: c :: r => do let c ← parseCmp c; let (v, _) ← parseVal r; pure (.lRead (.cmp c v))
  | _ => none

def parseValidators (tok : String) : List Validator :=
  if tok == "-" then [] else
  tok.toList.map (fun c =>
    if c == 'r' then .requireStringKey
    else if c == 'j' then .jsonFormat
    else if c == 'd' then .noDotInKey
    else if c == 'a' then .jsonAttrDict
    else .unknown c.toNat)

end SC.Proto
