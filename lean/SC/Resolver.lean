/-
L5 — `AbstractTypeResolver` (utils.py): classification of a value by an ordered list of
predicates, cached per concrete type unless the type is blocklisted.
-/
namespace SC.Resolver

/-- a value as the resolver sees it: its concrete type, whether that type is a subclass of a
blocklisted type, and whatever else about the instance a predicate may look at -/
structure Obj where
  ty : Nat
  subOfBlocked : Bool
  inst : Nat
deriving DecidableEq, Repr

inductive BlockMode | exactType | subclassAware
deriving DecidableEq, Repr

structure Res where
  /-- ordered predicates: the first one that holds names the category -/
  preds : List (Nat × (Obj → Bool))
  blocklist : List Nat
  mode : BlockMode
  /-- `type_map` -/
  cache : List (Nat × Option Nat)

/-- classification without any cache -/
def classify (preds : List (Nat × (Obj → Bool))) (o : Obj) : Option Nat :=
  (preds.find? (fun p => p.2 o)).map (·.1)

def blocked (r : Res) (o : Obj) : Bool :=
  r.blocklist.contains o.ty || (r.mode == .subclassAware && o.subOfBlocked)

def lookup (ty : Nat) (cache : List (Nat × Option Nat)) : Option (Option Nat) :=
  (cache.find? (·.1 = ty)).map (·.2)

/-- `get_type(obj)` -/
def getType (r : Res) (o : Obj) : Res × Option Nat :=
  match lookup o.ty r.cache with
  | some c => (r, c)
  | none =>
    let c := classify r.preds o
    (if blocked r o then r else { r with cache := (o.ty, c) :: r.cache }, c)

/-- a history of `get_type` calls; returns the final resolver and all answers -/
def runHistory (r : Res) : List Obj → Res × List (Option Nat)
  | [] => (r, [])
  | o :: os =>
    let (r1, c) := getType r o
    let (r2, cs) := runHistory r1 os
    (r2, c :: cs)

end SC.Resolver
