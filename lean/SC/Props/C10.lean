/-
C10 — no operation leaks a lock; no interleaving deadlocks.
-/
import SC.Lemmas.Conc
import SC.Table
import SC.Generated.Tables
namespace SC.Props
open SC SC.Conc

/-- C10 (a): the lock bracket of an operation, as written in `_LoadAndSave` /
`_BufferedLoadAndSave` (`__enter__` releases what it took when the load raises; `__exit__` saves
in `try` and releases in `finally`): for buffered and unbuffered classes, with or without the
initial load, and wherever the operation raises (load, body, save) or not at all — no lock is
held afterwards. -/
theorem C10_no_lock_leaked :
    ∀ (buffered noLoad : Bool) (f : Bracket.Fail),
      Bracket.held (Bracket.trace buffered noLoad f) [] = [] :=
  Bracket.no_lock_leaked

/-- C10 (b), lock order on the current brackets: the buffer lock is never requested while the
file lock is held. -/
theorem C10_bracket_lock_order :
    ∀ (buffered noLoad : Bool) (f : Bracket.Fail),
      Bracket.ordered (Bracket.trace buffered noLoad f) [] = true :=
  Bracket.bracket_ordered

/-- C10 (b), deadlock freedom: for ANY number of threads and locks, if every blocked thread
waits for a lock ranked above all the locks it holds (buffer lock < file locks < class lock),
then no set of threads waits for each other. -/
theorem C10_no_deadlock (rank : Nat → Nat) (ths : List Locks.ThL) (ho : Locks.Ordered rank ths) :
    ¬ Locks.Deadlocked ths :=
  Locks.no_deadlock rank ths ho

/-- C10 (b) with the hypothesis in the form the harness audits on the real code: every acquisition
observed (a thread about to take lock `w` while holding `holds`) passes `Locks.acquireOk` for the
roles buffer < file < class-registry.  Then no deadlock, for any number of threads and locks. -/
theorem C10_no_deadlock_audited (role : Nat → Locks.Role) (ths : List Locks.ThL)
    (h : ∀ th ∈ ths, ∀ w, th.waits = some w → Locks.acquireOk (th.holds.map role) (role w) = true) :
    ¬ Locks.Deadlocked ths :=
  Locks.no_deadlock _ ths (Locks.ordered_of_audit role ths h)

/-- the audit rejects exactly the inversions: taking a file lock while holding the class lock,
or the buffer lock while holding a file lock; two different file locks at once are rejected too -/
example : Locks.acquireOk [.cls] .file = false ∧ Locks.acquireOk [.file] .buffer = false ∧
    Locks.acquireOk [.file] .file = false ∧ Locks.acquireOk [.buffer, .file] .cls = true := by decide

/-- the model exhibits the defect the property excludes: the bracket without the release in
`__enter__` (the code before the fix) leaves the file lock held when the load raises. -/
theorem C10_old_bracket_leaks : Bracket.held [Bracket.Ev.acq .file, .load] [] ≠ [] :=
  Bracket.old_bracket_leaks

/-- non-vacuity of the deadlock theorem's notions: a lock-order inversion IS a deadlock -/
example : Locks.Deadlocked [⟨[0], some 1⟩, ⟨[1], some 0⟩] := by
  refine ⟨⟨⟨[0], some 1⟩, by simp, rfl⟩, ?_⟩
  intro th hth w hw
  simp only [List.mem_cons, List.not_mem_nil, or_false] at hth
  rcases hth with rfl | rfl
  · simp at hw; subst hw; exact ⟨⟨[1], some 0⟩, by simp, by simp, rfl⟩
  · simp at hw; subst hw; exact ⟨⟨[0], some 1⟩, by simp, by simp, rfl⟩

/-- C10 (b'), why nested FILE locks inside a buffered context cannot deadlock: there the first load
of a file takes that file's lock while another file's lock may be held (reading a synced operand
on another file, a forced flush), which the strict hierarchy forbids - but always under the
class-wide buffer lock.  With the buffer lock as a gate (held by one thread at a time; held by
whoever holds a file lock; locks re-entrant) no interleaving deadlocks.  (The premises about the
gate are part of the bracket correspondence: buffered brackets take the buffer lock first and
release it last; they are not audited acquisition by acquisition, which is why synced operands
on another file are audited in unbuffered mode only.) -/
theorem C10_no_deadlock_gated (rank : Nat → Nat) (g r : Nat) (ths : List Locks.ThL)
    (ho : Locks.OrderedG rank g r ths)
    (hG : ∀ u ∈ ths, ∀ l ∈ u.holds, rank l = r → g ∈ u.holds)
    (hex : ∀ th ∈ ths, ∀ u ∈ ths, g ∈ th.holds → g ∈ u.holds → th = u)
    (hself : ∀ th ∈ ths, ∀ w, th.waits = some w → w ∉ th.holds) :
    ¬ Locks.Deadlocked ths :=
  Locks.no_deadlock_gated rank g r ths ho hG hex hself

/-- non-vacuity: thread 0 holds the gate (lock 0) and file a (lock 1) and waits for file b (lock 2),
which thread 1 ... cannot hold without the gate: the premises are satisfiable with thread 1 idle -/
example : Locks.OrderedG (fun l => if l = 0 then 0 else 1) 0 1 [⟨[0, 1], some 2⟩, ⟨[], none⟩] := by
  intro th hth w hw l hl
  simp only [List.mem_cons, List.mem_singleton, List.not_mem_nil, or_false] at hth
  rcases hth with rfl | rfl
  · simp only [Option.some.injEq] at hw; subst hw
    simp only [List.mem_cons, List.not_mem_nil, or_false] at hl
    rcases hl with rfl | rfl
    · left; decide
    · right; decide
  · simp at hw

/-- OBLIGATION on the current source: A LOAD TAKES NO LOCK.  Every load goes through the in-place
merge `_update`; in every concrete class the merge calls no public mutator on the collection (each
would enter the load-and-save context, i.e. acquire the thread lock) and enters no context but the
suspension of synchronisation.  This is the hypothesis under which reading a synced operand inside
another collection's write context acquires nothing (`C10_no_deadlock_audited`); the pinned tree
violated it (`SyncedList._update` extended through the public `extend()`: two mirror-image writes
could deadlock - fixed by 37b4be4). -/
theorem C10_merge_takes_no_lock_table :
    ∀ f ∈ Generated.families, ∀ c ∈ f.classes,
      c.mergeCalls = [] ∧ c.mergeCtxs.all (fun x => x == Ctx.suspendSync) = true := by decide

end SC.Props
