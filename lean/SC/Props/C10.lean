/- C10 — placeholder; theorems follow -/
namespace SC.Props
theorem C10_placeholder : True := trivial
end SC.Props
