/-
C01 — write-through: every mutation is in the backend when the call returns.
-/
import SC.Lemmas.Seq
import SC.Props.C03
namespace SC.Props
open SC Tr

/-- C01: for every state reachable or not, every handle (the root object or a nested child
at any depth, attached or detached) and every mutating operation with any argument: if the
call returns normally, then the backend of the object that owns the handle holds exactly the
plain content of that object's in-memory tree — the whole tree, not just the node touched. -/
theorem C01_write_through (s : State) (h : Handle) (op : Op) (s' : State) (out : Out Nat)
    (hm : op.isRead = false) (hc : call s h op = (s', .ok out)) :
    ∃ oi isRoot o, handleOwner s h = some (oi, isRoot) ∧ s'.objs[oi]? = some o ∧
      s'.store o.res = some o.root.toBase :=
  call_write_through s h op s' out hm hc

/-- C01, content: what is written for a plain dict/list method is the built-in method
applied to the plain content (C03 naturality, repeated here for the dict case). -/
theorem C01_content_is_builtin_dict (kvs : List (Key × T)) (m : DictMut T) :
    dictMut (Tr.mapKV tb kvs) (m.map tb) = (dictMut kvs m).map (BodyRes.mapD tb) :=
  C03_dict_mutators_refine_builtin kvs m
theorem C01_content_is_builtin_list (xs : List T) (m : ListMut T) :
    listMut (Tr.mapL tb xs) (m.map tb) = (listMut xs m).map (BodyRes.mapLst tb) :=
  C03_list_mutators_refine_builtin xs m

/-- non-vacuity: a depth-2 state in which a mutator issued through a child handle returns
normally (so the theorem's hypotheses are met by a concrete history). -/
example :
    let fams : List Fam := [⟨[.requireStringKey, .jsonFormat], [.requireStringKey, .jsonFormat]⟩]
    let s0 := (openObj (State.empty fams) 0 true 0 none).1
    let s1 := (call s0 (.root 0) (.dSetitem (.s "a") (.dict () [(.s "b", .list () [])]))).1
    -- node ids: root 0, "a" ↦ 1, "b" ↦ 2
    let r := call s1 (.node 2) (.lAppend (.leaf (.int 7)))
    (match r.2 with | .ok _ => true | .error _ => false) = true ∧
    (match r.1.store 0 with
     | some d => Tr.same d (.dict () [(.s "a", .dict () [(.s "b", .list () [.leaf (.int 7)])])] : J)
     | none => false) = true := by
  decide

end SC.Props
