/-
C17 — reading never writes.
-/
import SC.Lemmas.Seq
import SC.Lemmas.Buffer
import SC.Lemmas.BufRead
import SC.FS
namespace SC.Props
open SC

/-- C17 (unbuffered): for every state, every handle and every read operation — item access,
`get`, `len`, iteration, membership, `==`/`!=`, ordering comparisons, `repr`, `()`,
`keys`/`values`/`items`, `reversed`, `index`, `count` — the backend contents after the call
(returned or raised) are exactly the contents before it.  In particular a missing resource
stays missing: `stores` is the same association list. -/
theorem C17_read_pure (s : State) (h : Handle) (op : Op) (hr : op.isRead = true) :
    (call s h op).1.stores = s.stores :=
  call_read_stores s h op hr

/-- corollary: any sequence of reads through any handles leaves every backend untouched -/
theorem C17_reads_pure (s : State) (prog : List (Handle × Op)) (hr : ∀ p ∈ prog, p.2.isRead = true) :
    (prog.foldl (fun st p => (call st p.1 p.2).1) s).stores = s.stores := by
  induction prog generalizing s with
  | nil => rfl
  | cons p ps ih =>
    simp only [List.foldl]
    rw [ih _ (fun q hq => hr q (List.mem_cons_of_mem _ hq))]
    exact call_read_stores s p.1 p.2 (hr p List.mem_cons_self)

/-- C17 at the level of file operations (L4): any number of loads, of any files, in any order,
leaves the disk — committed contents and pending bytes of EVERY path — exactly as it was, and a
crash at any instant during them can only show what a crash before them could show.  In
particular a missing file stays missing and other writers' temporary files stay untouched. -/
theorem C17_loads_leave_the_disk (d : FS.Disk) (targets : List FS.Path) :
    FS.run d (targets.flatMap FS.loadProgram) = d ∧
    ∀ p, FS.crashContents d (targets.flatMap FS.loadProgram) p = FS.observe d p := by
  have h : targets.flatMap FS.loadProgram = [] := by
    induction targets with
    | nil => rfl
    | cons t ts ih => simp [List.flatMap_cons, FS.loadProgram, ih]
  rw [h]
  exact ⟨rfl, fun _ => rfl⟩

/-- C17 (buffered): a file whose buffered copy was only read is never written by any flush —
at the exit of any context or forced by the capacity — and the flush never raises, whatever
the file looks like on disk; serialized strategy (contents still equal to what was read). -/
theorem C17_buffered_readonly_not_written_serialized (s : B.State) (oi : Nat) (o : B.Obj) (force : Bool)
    (e : B.Entry) (he : s.entry o.res = some e) (hm : Tr.same e.contents e.hash = true) :
    (B.flushSer s oi o force).2 = none ∧
    (B.flushSer s oi o force).1.stores = s.stores ∧ (B.flushSer s oi o force).1.metas = s.metas :=
  B.flushSer_readonly s oi o force e he hm

/-- shared-memory strategy (modified flag unset — only a save sets it, and reads never save). -/
theorem C17_buffered_readonly_not_written_memory (s : B.State) (oi : Nat) (o : B.Obj) (force : Bool)
    (e : B.Entry) (hb : (!(s.isBuffered o) || force) = true) (he : s.entry o.res = some e)
    (hm : e.modified = false) :
    (B.flushMem s oi o force).2 = none ∧
    (B.flushMem s oi o force).1.stores = s.stores ∧ (B.flushMem s oi o force).1.metas = s.metas :=
  B.flushMem_readonly s oi o force e hb he hm

/-- C17 (buffered), histories: starting from any state of a buffered class in which every
buffered copy is clean (in particular: nothing buffered yet), ANY history made of reads through
any handles, enters and exits of `obj.buffered` and `buffer_backend(cap)` in any nesting,
capacity changes and new objects — including every flush those exits and capacities trigger —
leaves the content, the metadata (size, mtime stamp) of every file and the stamp counter exactly
as they were: nothing is written, nothing is created, and all buffered copies are still clean.
Both strategies. -/
theorem C17_readonly_history_never_writes (s : B.State) (history : List B.Step)
    (hro : ∀ st ∈ history, st.readOnly = true) (hclean : B.AllClean s) :
    (B.run s history).stores = s.stores ∧ (B.run s history).metas = s.metas ∧
    (B.run s history).stamp = s.stamp ∧ B.AllClean (B.run s history) := by
  obtain ⟨hc, hd⟩ := (B.ro_run history s hro).2 hclean
  exact ⟨hd.1, hd.2.1, hd.2.2, hc⟩

/-- the initial state of a buffered class is clean -/
theorem C17_init_clean (fam : Fam) (strategy : Buffering) (fl : List ((Int × Nat) × Nat)) :
    B.AllClean (B.State.init fam strategy fl) := by
  intro p hp; simp [B.State.init] at hp

end SC.Props
