/-
C17 — reading never writes.
-/
import SC.Lemmas.Seq
namespace SC.Props
open SC

/-- C17 (unbuffered): for every state, every handle and every read operation — item access,
`get`, `len`, iteration, membership, `==`/`!=`, ordering comparisons, `repr`, `()`,
`keys`/`values`/`items`, `reversed`, `index`, `count` — the backend contents after the call
(returned or raised) are exactly the contents before it.  In particular a missing resource
stays missing: `stores` is the same association list. -/
theorem C17_read_pure (s : State) (h : Handle) (op : Op) (hr : op.isRead = true) :
    (call s h op).1.stores = s.stores :=
  call_read_stores s h op hr

/-- corollary: any sequence of reads through any handles leaves every backend untouched -/
theorem C17_reads_pure (s : State) (prog : List (Handle × Op)) (hr : ∀ p ∈ prog, p.2.isRead = true) :
    (prog.foldl (fun st p => (call st p.1 p.2).1) s).stores = s.stores := by
  induction prog generalizing s with
  | nil => rfl
  | cons p ps ih =>
    simp only [List.foldl]
    rw [ih _ (fun q hq => hr q (List.mem_cons_of_mem _ hq))]
    exact call_read_stores s p.1 p.2 (hr p List.mem_cons_self)

end SC.Props
