/-
C12 — every JSON value is accepted and round-trips exactly.
-/
import SC.Props.C11
namespace SC.Props
open SC Tr

variable {ι : Type}

/-- C12, acceptance: for every family of the current source, a value whose keys are all
strings (dot-free for attribute-access families) and whose leaves are all JSON scalars —
of any depth and width — is accepted by the validators of the dict class *and* of the
list class, hence by every entry point (all of them validate with one of the two). -/
theorem C12_accept {f : FamInfo} (hf : f ∈ Generated.families) (t : Tr ι)
    (hc : clean f.attr t = true) :
    validate f.toFam.dictV t = none ∧ validate f.toFam.listV t = none := by
  have h := C11_validate_exact hf t
  have hall : Tr.all (famKeyReq f) (famLeafReq f) t = true := by
    rw [clean_eq_all] at hc
    refine all_mono (a := cleanKeyReq f.attr) (c := .json) ?_ ?_ t hc
    · intro k hk; simpa [famKeyReq, cleanKeyReq] using hk
    · intro s hs; unfold famLeafReq; split
      · simp [LeafReq.ok]
      · exact hs
  exact ⟨h.1.2 hall, h.2.2 hall⟩

/-- the same for the `{key: value}` form `__setitem__`/`setdefault`/`update` validate -/
theorem C12_accept_item {f : FamInfo} (hf : f ∈ Generated.families) (k : Key) (v : Tr ι)
    (hk : cleanKV f.attr [(k, v)] = true) :
    validateKV f.toFam.dictV [(k, v)] = none := by
  have h := C11_table f hf
  simp only [FamSpecOK, Bool.and_eq_true, decide_eq_true_eq] at h
  obtain ⟨⟨⟨⟨⟨_, _⟩, h1⟩, h2⟩, _⟩, _⟩ := h
  rw [validateKV_none, h1, h2]
  rw [cleanKV_eq_allKV] at hk
  refine allKV_mono (a := cleanKeyReq f.attr) (c := .json) ?_ ?_ _ hk
  · intro k hk; simpa [famKeyReq, cleanKeyReq] using hk
  · intro s hs; unfold famLeafReq; split
    · simp [LeafReq.ok]
    · exact hs

/-- C12, conversion: turning any value into a synced tree and back is the identity on
content — same structure, same key order, the same scalar (constructor and payload) at
every leaf.  Unbounded depth and width. -/
theorem C12_roundtrip_fromBase (v : Tr ι) (n : Nat) : (fromBase v n).1.toBase = v.toBase :=
  toBase_fromBase v n

/-- non-vacuity: a nested value with colliding scalars meets the hypotheses -/
example : clean false (Tr.dict () [(.s "a", .list () [.leaf (.int 1), .leaf (.bool true),
    .leaf (.flt 1 1), .leaf .null, .dict () []])] : J) = true := by decide

end SC.Props
