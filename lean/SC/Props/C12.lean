/-
C12 — every JSON value is accepted and round-trips exactly.
-/
import SC.Props.C11
import SC.Lemmas.Merge
namespace SC.Props
open SC Tr

variable {ι : Type}

/-- C12, acceptance: for every family of the current source, a value whose keys are all
strings (dot-free for attribute-access families) and whose leaves are all JSON scalars —
of any depth and width — is accepted by the validators of the dict class *and* of the
list class, hence by every entry point (all of them validate with one of the two). -/
theorem C12_accept {f : FamInfo} (hf : f ∈ Generated.families) (t : Tr ι)
    (hc : clean f.attr t = true) :
    validate f.toFam.dictV t = none ∧ validate f.toFam.listV t = none := by
  have h := C11_validate_exact hf t
  have hall : Tr.all (famKeyReq f) (famLeafReq f) t = true := by
    rw [clean_eq_all] at hc
    refine all_mono (a := cleanKeyReq f.attr) (c := .json) ?_ ?_ t hc
    · intro k hk; simpa [famKeyReq, cleanKeyReq] using hk
    · intro s hs; unfold famLeafReq; split
      · simp [LeafReq.ok]
      · exact hs
  exact ⟨h.1.2 hall, h.2.2 hall⟩

/-- the same for the `{key: value}` form `__setitem__`/`setdefault`/`update` validate -/
theorem C12_accept_item {f : FamInfo} (hf : f ∈ Generated.families) (k : Key) (v : Tr ι)
    (hk : cleanKV f.attr [(k, v)] = true) :
    validateKV f.toFam.dictV [(k, v)] = none := by
  have h := C11_table f hf
  simp only [FamSpecOK, Bool.and_eq_true, decide_eq_true_eq] at h
  obtain ⟨⟨⟨⟨⟨_, _⟩, h1⟩, h2⟩, _⟩, _⟩ := h
  rw [validateKV_none, h1, h2]
  rw [cleanKV_eq_allKV] at hk
  refine allKV_mono (a := cleanKeyReq f.attr) (c := .json) ?_ ?_ _ hk
  · intro k hk; simpa [famKeyReq, cleanKeyReq] using hk
  · intro s hs; unfold famLeafReq; split
    · simp [LeafReq.ok]
    · exact hs

/-- C12, conversion: turning any value into a synced tree and back is the identity on
content — same structure, same key order, the same scalar (constructor and payload) at
every leaf.  Unbounded depth and width. -/
theorem C12_roundtrip_fromBase (v : Tr ι) (n : Nat) : (fromBase v n).1.toBase = v.toBase :=
  toBase_fromBase v n

/-- C12, the merge-based entry points (`update`, `reset`, and every reload): what ends up in the
tree is the value that was stored, with the SAME scalar constructor at every leaf — `1`, `True`
and `1.0` are different leaves of `Eqv` — for every value with unique keys, over any previous
content. -/
theorem C12_roundtrip_merge (fam : Fam) (v : Tr ι) (t : T) (n : Nat) (hv : v.wf = true) (ht : t.wf = true)
    (hnn : v ≠ .leaf .null) (herr : (updNode fam t v n).err = none) :
    Eqv (updNode fam t v n).val v :=
  (updNode_post fam v t n hv ht hnn herr).1

/-- the merge of `True` over an in-memory `1` really replaces the leaf (the defect that was fixed) -/
example :
    let fam : Fam := ⟨[.requireStringKey, .jsonFormat], [.requireStringKey, .jsonFormat]⟩
    Tr.same (updNode fam (.dict 0 [(.s "x", .leaf (.int 1))]) (.dict () [(.s "x", .leaf (.bool true))] : J) 1).val
      (.dict () [(.s "x", .leaf (.bool true))] : J) = true := by
  decide

/-- non-vacuity: a nested value with colliding scalars meets the hypotheses -/
example : clean false (Tr.dict () [(.s "a", .list () [.leaf (.int 1), .leaf (.bool true),
    .leaf (.flt 1 1), .leaf .null, .dict () []])] : J) = true := by decide

end SC.Props
