/-
C05 — buffered mode defers writes to the outermost exit, where the file receives the
buffered content.  (Transparency — every result equals the unbuffered result — is tied by the
twin oracle and the correspondence; see MANIFEST.)
-/
import SC.Lemmas.Buffer
import SC.Lemmas.BufSize
import SC.Lemmas.Merge
import SC.Lemmas.BufVisible
import SC.Lemmas.Attach
import SC.Table
import SC.Generated.Tables
namespace SC.Props
open SC SC.B

/-- OBLIGATION on the current source: the fingerprint by which the serialized buffer decides at the
flush whether the buffered bytes differ from what entered the buffer (`_hash`) is the digest of a
`hashlib` hash — the assumption under which the buffer machine may compare *contents* where the
code compares hashes (`Entry.hash`).  A cheaper checksum makes distinct contents compare equal and
the flush skip a modified file; the concrete lost write is then looked for by the collision probe
(`unit_weak_hash`). -/
theorem C05_change_detection_hash_is_cryptographic : Generated.bufferHash = .cryptographic := by decide

/-- C05, deferral: a save performed while the object is buffered (any nesting of `obj.buffered` /
`buffer_backend()`) changes neither content nor metadata of ANY file — unless the buffer size
exceeds the capacity afterwards, in which case the result is exactly that of the forced flush. -/
theorem C05_buffered_save_defers (s : B.State) (oi : Nat) (o : B.Obj) (ho : s.objs[oi]? = some o)
    (hb : s.isBuffered o = true) :
    (save s oi).1.stores = s.stores ∧ (save s oi).1.metas = s.metas ∨
    ∃ s1 : B.State, s1.stores = s.stores ∧ s1.metas = s.metas ∧ s1.size > s1.capacity ∧
      save s oi = flushBuffer s1 true :=
  save_buffered_defers s oi o ho hb

/-- C05, the flush at the outermost exit, shared-memory strategy: the file receives exactly the
buffered data and the flush does not raise (no outside change, the write itself succeeds: `s.failing` lists the files whose writes fail with OSError). -/
theorem C05_exit_writes_buffered_memory (s : B.State) (oi : Nat) (o : B.Obj) (force : Bool) (e : B.Entry)
    (hb : (!(s.isBuffered o) || force) = true) (he : s.entry o.res = some e)
    (hm : e.modified = true) (hc : e.fmeta = s.stat o.res) (hw : s.failing.contains o.res = false) :
    (flushMem s oi o force).2 = none ∧
    (flushMem s oi o force).1.store o.res = some (s.cellData e.cell).toBase :=
  flushMem_writes_buffered s oi o force e hb he hm hc hw

/-- C05, the flush at the outermost exit, serialized strategy: the file receives the buffered
contents (merged into the flushing object) and the entry leaves the buffer. -/
theorem C05_exit_writes_buffered_serialized (s : B.State) (oi : Nat) (o : B.Obj) (force : Bool)
    (e : B.Entry) (hb : (!(s.isBuffered o) || force) = true) (he : s.entry o.res = some e)
    (hm : Tr.same e.contents e.hash = false) (hc : e.fmeta = s.stat o.res)
    (hmerge : (mergeInto s oi o e.contents).2 = none) (hw : s.failing.contains o.res = false) :
    (flushSer s oi o force).2 = none ∧
    (flushSer s oi o force).1.store o.res = some ((mergeInto s oi o e.contents).1.root o).toBase ∧
    (flushSer s oi o force).1.entry o.res = none :=
  flushSer_writes s oi o force e hb he hm hc hmerge hw

/-- ... and that written content IS the buffered contents (the merge post-condition): same
structure, identical scalars, same key sets — whatever the flushing object's own memory held. -/
theorem C05_exit_writes_buffered_serialized_content (s : B.State) (oi : Nat) (o : B.Obj) (e : B.Entry)
    (hc : e.contents.wf = true) (hr : (s.root o).wf = true) (hnn : e.contents ≠ .leaf .null)
    (hmerge : (mergeInto s oi o e.contents).2 = none) :
    Eqv ((mergeInto s oi o e.contents).1.root o) e.contents := by
  rw [mergeInto_root]
  have herr : (updNode s.fam (s.root o) e.contents s.next).err = none := by
    simpa [mergeInto] using hmerge
  exact (updNode_post s.fam e.contents (s.root o) s.next hc hr hnn herr).1

/-- C05, "reads see all earlier buffered writes" (serialized; the instance `oj = oi` of
`C06_serialized_write_visible`): after a buffered save that does not overflow the buffer, the next
buffered load through the same object merges exactly the saved content, without any file having
been written. -/
theorem C05_reads_see_buffered_writes (s : B.State) (oi : Nat) (o : B.Obj)
    (hs : s.strategy = .serialized) (ho : s.objs[oi]? = some o) (hb : s.isBuffered o = true)
    (hfit : ¬ (saveSer (s.register oi) o).size > (saveSer (s.register oi) o).capacity) :
    (save s oi).2 = none ∧ (save s oi).1.stores = s.stores ∧
    load (save s oi).1 oi = mergeInto ((save s oi).1.register oi) oi o (s.root o).toBase :=
  let h := serialized_write_visible s oi oi o o hs ho hb ho hb rfl hfit
  ⟨h.1, h.2.1, h.2.2.1⟩

/-- C05 / C02 in buffered mode: every load of the buffer machine — the merge of the file content
(first buffered access, unbuffered load) or of the buffered contents (serialized strategy, every
buffered access) into the object — keeps the child handles: along any path on which memory and
the merged data hold containers of the same kind, the node keeps its identity, and the merge does
not raise (valid data, no duplicate keys). -/
theorem C05_buffered_merge_keeps_handles (s : B.State) (oi : Nat) (o : B.Obj) (d : J) (p : List Seg)
    (hv : Valid s.fam d) (hd : d.wf = true) (ht : (s.root o).wf = true)
    (hk : kindsMatch p (s.root o) d = true) :
    (mergeInto s oi o d).2 = none ∧
    ∃ c c', Tr.sub p (s.root o) = some c ∧ Tr.sub p ((mergeInto s oi o d).1.root o) = some c' ∧
      c'.id? = c.id? ∧ c.id?.isSome = true := by
  obtain ⟨herr, c, c', h1, h2, h3, h4⟩ := attach s.fam p (s.root o) d s.next hv hd ht hk
  refine ⟨by simpa [mergeInto] using herr, c, c', h1, ?_, h3, h4⟩
  rw [mergeInto_root]; exact h2

/-- non-vacuity and the whole scenario on the machine (shared memory, list): writes inside nested
contexts of both kinds leave the file missing; the outermost exit writes the final content. -/
example :
    let fam : Fam := ⟨[.requireStringKey, .jsonFormat], [.requireStringKey, .jsonFormat]⟩
    let s1 := run (B.State.init fam .sharedMemory [])
      [.openObj false 0 none, .enterCls none, .enterObj 0, .call (.root 0) (.lAppend (.leaf (.int 1))),
       .call (.root 0) (.lReset (.list () [.leaf (.int 9)])), .call (.root 0) (.lAppend (.leaf (.int 2))), .exitObj 0]
    let s2 := step s1 .exitCls
    (s1.store 0).isNone = true ∧
    (match s2.store 0 with | some d => Tr.same d (.list () [.leaf (.int 9), .leaf (.int 2)] : J) | none => false) = true ∧
    s2.entries.length = 0 := by
  decide

end SC.Props
