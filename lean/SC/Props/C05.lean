/- C05 — placeholder; theorems follow -/
import SC.Buffer
namespace SC.Props
open SC
theorem C05_placeholder : True := trivial
end SC.Props
