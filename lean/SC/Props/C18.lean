/-
C18 — nested containers keep the root's family; attribute access equals item access.
-/
import SC.Attr
import SC.Generated.Tables
namespace SC.Props
open SC SC.Attr

variable {ι : Type}

/-- OBLIGATION on the current source: in every family, the classes `_from_base` picks for a
nested mapping and a nested sequence — whether the data is plain or a synced collection of
another family — are the family's own dict and list class (so a wrong `_backend` string, or a
shortcut that keeps the source's class, shows here), and every family has exactly these two. -/
theorem C18_family_closed : ∀ f ∈ Generated.families, familyClosed f = true := by decide

/-- OBLIGATION on the current source: every attribute a freshly constructed attribute-access
dict carries in its `__dict__` is a protected name — the condition under which construction
itself does not leak internals into the data, and the one that breaks when a new internal
attribute is introduced. -/
theorem C18_ctor_attrs_protected :
    ∀ f ∈ Generated.families, ∀ c ∈ f.classes, ctorAttrsProtected c = true := by decide

/-- C18, attribute = item: for every class description, every dict node and every key that is
not protected, not a dunder and not an attribute of the class or the instance,
`obj.k`, `obj.k = v` and `del obj.k` are exactly `obj[k]`, `obj[k] = v`, `del obj[k]` with
`KeyError` turned into `AttributeError` — at every depth (the node is arbitrary). -/
theorem C18_attr_eq_item (c : Cls) (i : ι) (kvs : List (Key × Tr ι)) (k : String) (v : Tr ι)
    (hp : k ∉ c.protectedKeys) (hc : k ∉ c.classAttrs)
    (hi : k ∉ c.instAttrs) :
    attrGet c false i kvs k = .data (keyErrToAttrErr (dictRead i kvs (.getitem (.s k)))) ∧
    attrSet c false kvs k v = .data (dictMut kvs (.setitem (.s k) v)) ∧
    attrDel c false kvs k = .data (keyErrToAttrErr (dictMut kvs (.delitem (.s k)))) := by
  simp [attrGet, attrSet, attrDel, getRoute, setRoute, delRoute, hp, hc, hi]

/-- a missing key gives `AttributeError` in all three attribute forms that can miss -/
theorem C18_missing_is_attribute_error (c : Cls) (i : ι) (kvs : List (Key × Tr ι)) (k : String)
    (hp : k ∉ c.protectedKeys) (hc : k ∉ c.classAttrs)
    (hi : k ∉ c.instAttrs) (hm : Tr.lookup (.s k) kvs = none) :
    attrGet c false i kvs k = .data (.error .attributeError) ∧
    attrDel c false kvs k = .data (.error .attributeError) := by
  simp [attrGet, attrDel, getRoute, setRoute, delRoute, hp, hc, hi, dictRead, dictMut, hm, keyErrToAttrErr]

/-- C18, protected names: `obj.k = v` and `del obj.k` with a protected name (or a dunder) address
the object and never touch the data, whatever the data holds under that key. -/
theorem C18_protected_addresses_object (c : Cls) (d : Bool) (kvs : List (Key × Tr ι)) (k : String) (v : Tr ι)
    (hp : k ∈ c.protectedKeys ∨ d = true) :
    attrSet c d kvs k v = .object ∧ attrDel c d kvs k = .object := by
  rcases hp with hp | hp <;> simp [attrSet, attrDel, setRoute, delRoute, hp]

/-- ... and `obj.k` for a protected name that IS an attribute of the instance or the class
returns that attribute, also when the data holds an item of the same name. -/
theorem C18_protected_get_addresses_object (c : Cls) (d : Bool) (i : ι) (kvs : List (Key × Tr ι)) (k : String)
    (ha : k ∈ c.instAttrs ∨ k ∈ c.classAttrs) :
    attrGet c d i kvs k = .object := by
  rcases ha with ha | ha <;> simp [attrGet, getRoute, ha]

/-- KNOWN FINDING, in the model: a protected name that is NOT currently an attribute of the
object falls through to the data on `obj.k` (the repository's own test suite pins this
behaviour: `del obj._root` followed by `obj._load()` is expected to recurse). -/
theorem C18_counterexample_stale_protected_get :
    attrGet (⟨["_name"], [], []⟩ : Cls) false () [(.s "_name", (.leaf (.int 1) : J))] "_name"
      = .data (.ok (.node (.leaf (.int 1)))) := by
  simp [attrGet, getRoute, dictRead, Tr.lookup, keyErrToAttrErr]

/-- C18, item syntax never disturbs the object: `obj[k] = v` / `del obj[k]` are operations on
the data alone — their results do not depend on the class description at all (any key,
protected names included). -/
theorem C18_item_never_disturbs (c1 c2 : Cls) (kvs : List (Key × Tr ι)) (k : String) (v : Tr ι)
    (h1 : setRoute c1 false k = .item) (h2 : setRoute c2 false k = .item) :
    attrSet c1 false kvs k v = attrSet c2 false kvs k v := by
  simp [attrSet, h1, h2]

/-- non-vacuity on the current source: `JSONAttrDict` routes an ordinary key to the data and
`_data` to the object. -/
example :
    (Generated.fam3.classes.head?.map (fun ci =>
      (setRoute (Cls.ofInfo ci) false "alpha", setRoute (Cls.ofInfo ci) false "_data",
       getRoute (Cls.ofInfo ci) false "_data", getRoute (Cls.ofInfo ci) false "alpha")))
      = some (.item, .object, .object, .item) := by
  decide

end SC.Props
