/-
C11 — forbidden data never gets in; C12 (acceptance half) — every clean value is accepted.
Property theorems only; helper lemmas live in `SC/Lemmas`.
-/
import SC.Lemmas.Tree
import SC.Lemmas.Seq
import SC.Table
import SC.Generated.Tables
namespace SC.Props
open SC Tr

/-- What a backend family promises to reject.  JSON-text backends (JSON files, Redis,
MongoDB): non-string keys, non-JSON leaves, and dotted keys for attribute-access
families.  Zarr: non-string keys only (what else is storable depends on the codec). -/
def famKeyReq (f : FamInfo) : KeyReq := if f.attr then .strNoDot else .str
def famLeafReq (f : FamInfo) : LeafReq := if f.store = .zarr then .any else .json

/-- Decidable side condition on the generated class table: *both* classes of the family
(the dict class and the list class — i.e. also every class `_from_base` can pick for a
nested child) carry validators that together enforce exactly the family's requirement. -/
def FamSpecOK (f : FamInfo) : Bool :=
  f.dictClass.isSome && f.listClass.isSome &&
  decide (keyReq f.toFam.dictV = famKeyReq f) && decide (leafReq f.toFam.dictV = famLeafReq f) &&
  decide (keyReq f.toFam.listV = famKeyReq f) && decide (leafReq f.toFam.listV = famLeafReq f)

/-- OBLIGATION on the current source (re-evaluated against the regenerated table). -/
theorem C11_table : ∀ f ∈ Generated.families, FamSpecOK f = true := by decide

variable {ι : Type}

/-- C11/C12, validation: for every family of the current source, every value of any
depth and width is accepted by the dict class's validators iff every key and every
leaf in it meets the family's requirement — and the same for the list class. -/
theorem C11_validate_exact {f : FamInfo} (hf : f ∈ Generated.families) (t : Tr ι) :
    (validate f.toFam.dictV t = none ↔ Tr.all (famKeyReq f) (famLeafReq f) t = true) ∧
    (validate f.toFam.listV t = none ↔ Tr.all (famKeyReq f) (famLeafReq f) t = true) := by
  have h := C11_table f hf
  simp only [FamSpecOK, Bool.and_eq_true, decide_eq_true_eq] at h
  obtain ⟨⟨⟨⟨⟨_, _⟩, h1⟩, h2⟩, h3⟩, h4⟩ := h
  exact ⟨by rw [validate_none, h1, h2], by rw [validate_none, h3, h4]⟩

/-- for the JSON-text families the requirement *is* the specification predicate `clean` -/
theorem C11_validate_iff_clean {f : FamInfo} (hf : f ∈ Generated.families) (hz : f.store ≠ .zarr)
    (t : Tr ι) :
    (validate f.toFam.dictV t = none ↔ clean f.attr t = true) ∧
    (validate f.toFam.listV t = none ↔ clean f.attr t = true) := by
  have h := C11_validate_exact hf t
  have : Tr.all (famKeyReq f) (famLeafReq f) t = clean f.attr t := by
    rw [clean_eq_all]; simp [famKeyReq, famLeafReq, hz, cleanKeyReq]
  rw [this] at h
  exact h

/-- C11, the merge: whatever data is handed to `_update` (a reload, `update()`, `reset()`
— validated or not, any depth), if memory met the requirement before, then memory and
every node that falls out of the tree meet it afterwards: nothing forbidden gets in,
also when the merge stops half-way with an error. -/
theorem C11_merge_never_admits {f : FamInfo} (hf : f ∈ Generated.families)
    (d : Tr ι) (t : T) (n : Nat) (ht : Tr.all (famKeyReq f) (famLeafReq f) t = true) :
    Tr.all (famKeyReq f) (famLeafReq f) (updNode f.toFam t d n).val = true ∧
    Tr.allL (famKeyReq f) (famLeafReq f) (updNode f.toFam t d n).det = true := by
  have h := C11_table f hf
  simp only [FamSpecOK, Bool.and_eq_true, decide_eq_true_eq] at h
  obtain ⟨⟨⟨⟨⟨_, _⟩, h1⟩, h2⟩, h3⟩, h4⟩ := h
  exact updNode_ok _ _ f.toFam ⟨h1, h2⟩ ⟨h3, h4⟩ d t n ht

/-- every error validation raises is a `TypeError` or `ValueError` subclass -/
theorem C11_error_class (vs : List Validator) (t : Tr ι) (e : Err)
    (h : validate vs t = some e) : e.isTypeOrValueError = true :=
  validate_TV vs t e h

/-- C11, rejection changes nothing: if the validation that precedes an operation
(`__setitem__`, `insert`, `append`, `extend`, `+=`, ...) rejects its argument, the call
raises that error and memory of every object, every backend and every handle is exactly
as before. -/
theorem C11_rejected_changes_nothing (s : State) (h : Handle) (op : Op) (oi : Nat) (isRoot : Bool)
    (t0 : T) (o : Obj) (e : Err)
    (ho : handleOwner s h = some (oi, isRoot)) (hn : handleNode s h = some t0)
    (hobj : s.objs[oi]? = some o)
    (hv : preValidate (s.fam o) t0.isDict op = some e) :
    call s h op = (s, .error e) :=
  call_prevalidate_reject s h op oi isRoot t0 o e ho hn hobj hv

end SC.Props
