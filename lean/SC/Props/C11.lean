/-
C11 — forbidden data never gets in; C12 (acceptance half) — every clean value is accepted.
Property theorems only; helper lemmas live in `SC/Lemmas`.
-/
import SC.Lemmas.Tree
import SC.Lemmas.Seq
import SC.Lemmas.Invariant
import SC.Table
import SC.Generated.Tables
namespace SC.Props
open SC Tr

/-- What a backend family promises to reject.  JSON-text backends (JSON files, Redis,
MongoDB): non-string keys, non-JSON leaves, and dotted keys for attribute-access
families.  Zarr: non-string keys only (what else is storable depends on the codec). -/
def famKeyReq (f : FamInfo) : KeyReq := if f.attr then .strNoDot else .str
def famLeafReq (f : FamInfo) : LeafReq := if f.store = .zarr then .any else .json

/-- Decidable side condition on the generated class table: *both* classes of the family
(the dict class and the list class — i.e. also every class `_from_base` can pick for a
nested child) carry validators that together enforce exactly the family's requirement. -/
def FamSpecOK (f : FamInfo) : Bool :=
  f.dictClass.isSome && f.listClass.isSome &&
  decide (keyReq f.toFam.dictV = famKeyReq f) && decide (leafReq f.toFam.dictV = famLeafReq f) &&
  decide (keyReq f.toFam.listV = famKeyReq f) && decide (leafReq f.toFam.listV = famLeafReq f)

/-- OBLIGATION on the current source (re-evaluated against the regenerated table). -/
theorem C11_table : ∀ f ∈ Generated.families, FamSpecOK f = true := by decide

variable {ι : Type}

/-- C11/C12, validation: for every family of the current source, every value of any
depth and width is accepted by the dict class's validators iff every key and every
leaf in it meets the family's requirement — and the same for the list class. -/
theorem C11_validate_exact {f : FamInfo} (hf : f ∈ Generated.families) (t : Tr ι) :
    (validate f.toFam.dictV t = none ↔ Tr.all (famKeyReq f) (famLeafReq f) t = true) ∧
    (validate f.toFam.listV t = none ↔ Tr.all (famKeyReq f) (famLeafReq f) t = true) := by
  have h := C11_table f hf
  simp only [FamSpecOK, Bool.and_eq_true, decide_eq_true_eq] at h
  obtain ⟨⟨⟨⟨⟨_, _⟩, h1⟩, h2⟩, h3⟩, h4⟩ := h
  exact ⟨by rw [validate_none, h1, h2], by rw [validate_none, h3, h4]⟩

/-- for the JSON-text families the requirement *is* the specification predicate `clean` -/
theorem C11_validate_iff_clean {f : FamInfo} (hf : f ∈ Generated.families) (hz : f.store ≠ .zarr)
    (t : Tr ι) :
    (validate f.toFam.dictV t = none ↔ clean f.attr t = true) ∧
    (validate f.toFam.listV t = none ↔ clean f.attr t = true) := by
  have h := C11_validate_exact hf t
  have : Tr.all (famKeyReq f) (famLeafReq f) t = clean f.attr t := by
    rw [clean_eq_all]; simp [famKeyReq, famLeafReq, hz, cleanKeyReq]
  rw [this] at h
  exact h

/-- C11, the merge: whatever data is handed to `_update` (a reload, `update()`, `reset()`
— validated or not, any depth), if memory met the requirement before, then memory and
every node that falls out of the tree meet it afterwards: nothing forbidden gets in,
also when the merge stops half-way with an error. -/
theorem C11_merge_never_admits {f : FamInfo} (hf : f ∈ Generated.families)
    (d : Tr ι) (t : T) (n : Nat) (ht : Tr.all (famKeyReq f) (famLeafReq f) t = true) :
    Tr.all (famKeyReq f) (famLeafReq f) (updNode f.toFam t d n).val = true ∧
    Tr.allL (famKeyReq f) (famLeafReq f) (updNode f.toFam t d n).det = true := by
  have h := C11_table f hf
  simp only [FamSpecOK, Bool.and_eq_true, decide_eq_true_eq] at h
  obtain ⟨⟨⟨⟨⟨_, _⟩, h1⟩, h2⟩, h3⟩, h4⟩ := h
  exact updNode_ok _ _ f.toFam ⟨h1, h2⟩ ⟨h3, h4⟩ d t n ht

/-- every error validation raises is a `TypeError` or `ValueError` subclass -/
theorem C11_error_class (vs : List Validator) (t : Tr ι) (e : Err)
    (h : validate vs t = some e) : e.isTypeOrValueError = true :=
  validate_TV vs t e h

/-- C11, rejection changes nothing: if the validation that precedes an operation
(`__setitem__`, `insert`, `append`, `extend`, `+=`, ...) rejects its argument, the call
raises that error and memory of every object, every backend and every handle is exactly
as before. -/
theorem C11_rejected_changes_nothing (s : State) (h : Handle) (op : Op) (oi : Nat) (isRoot : Bool)
    (t0 : T) (o : Obj) (e : Err)
    (ho : handleOwner s h = some (oi, isRoot)) (hn : handleNode s h = some t0)
    (hobj : s.objs[oi]? = some o)
    (hv : preValidate (s.fam o) t0.isDict op = some e) :
    call s h op = (s, .error e) :=
  call_prevalidate_reject s h op oi isRoot t0 o e ho hn hobj hv

/-! ### the invariant along every history -/

theorem famReq_of_table {f : FamInfo} (hf : f ∈ Generated.families) :
    FamReq (famKeyReq f) (famLeafReq f) f.toFam := by
  have h := C11_table f hf
  simp only [FamSpecOK, Bool.and_eq_true, decide_eq_true_eq] at h
  obtain ⟨⟨⟨⟨⟨_, _⟩, h1⟩, h2⟩, h3⟩, h4⟩ := h
  exact ⟨⟨h1, h2⟩, ⟨h3, h4⟩⟩

theorem srun_clean {f : FamInfo} (hf : f ∈ Generated.families) (W : J → Prop)
    (hW : ∀ d : J, Tr.all (famKeyReq f) (famLeafReq f) d = true → W d) :
    ∀ (history : List SStep) (s : State), s.fams = [f.toFam] →
      (∀ st ∈ history, ∀ r d, st = .ext r d → W d) →
      Clean (famKeyReq f) (famLeafReq f) W s →
      Clean (famKeyReq f) (famLeafReq f) W (srun s history) ∧ (srun s history).fams = [f.toFam]
  | [], s, hfs, _, h => ⟨h, hfs⟩
  | st :: rest, s, hfs, hext, h => by
    have hstep : Clean (famKeyReq f) (famLeafReq f) W (sstep s st) ∧ (sstep s st).fams = [f.toFam] := by
      cases st with
      | call hd op =>
        refine ⟨h.after_call hW hd op, ?_⟩
        rw [← hfs]
        exact call_fams s hd op
      | openObj d r data =>
        refine ⟨h.after_openObj 0 d r data (by rw [hfs]; exact famReq_of_table hf), ?_⟩
        rw [← hfs]
        exact openObj_fams s 0 d r data
      | ext r d => exact ⟨h.after_ext r d (hext _ (List.mem_cons_self ..) r d rfl), hfs⟩
    exact srun_clean hf W hW rest _ hstep.2 (fun st' hst' => hext st' (List.mem_cons_of_mem _ hst')) hstep.1

/-- C11 along EVERY history.  Start from the empty state of any family of the current source and
run any sequence of public calls (every operation, through root objects and through child handles
at any depth, attached or detached, with any arguments), constructor calls with any data, and
outside writers that may write ANYTHING (also forbidden data).  At every point the tree of every
object and every node that ever fell out of a tree contains only keys and leaves the family allows:
forbidden data never reaches memory — not through an argument, not through a reload of a file
that holds forbidden data. -/
theorem C11_memory_clean_after_any_history {f : FamInfo} (hf : f ∈ Generated.families) (history : List SStep) :
    let s := srun (State.empty [f.toFam]) history
    (∀ o ∈ s.objs, Tr.all (famKeyReq f) (famLeafReq f) o.root = true) ∧
    (∀ p ∈ s.detached, Tr.all (famKeyReq f) (famLeafReq f) p.2 = true) := by
  have h0 : Clean (famKeyReq f) (famLeafReq f) (fun _ => True) (State.empty [f.toFam]) :=
    ⟨by simp [State.empty], by simp [State.empty], by simp [State.empty], by simp [State.empty]⟩
  have := (srun_clean hf (fun _ => True) (fun _ _ => trivial) history _ rfl (fun _ _ _ _ _ => trivial) h0).1
  exact ⟨this.objs, this.det⟩

/-- ... and the backends: if the outside writers (if any) write allowed data only, every backend
holds allowed data only at every point of every history: what the library writes is never
forbidden. -/
theorem C11_backend_clean_after_any_history {f : FamInfo} (hf : f ∈ Generated.families) (history : List SStep)
    (hext : ∀ st ∈ history, ∀ r d, st = .ext r d → Tr.all (famKeyReq f) (famLeafReq f) d = true) :
    ∀ p ∈ (srun (State.empty [f.toFam]) history).stores, Tr.all (famKeyReq f) (famLeafReq f) p.2 = true := by
  have h0 : Clean (famKeyReq f) (famLeafReq f) (fun d => Tr.all (famKeyReq f) (famLeafReq f) d = true) (State.empty [f.toFam]) :=
    ⟨by simp [State.empty], by simp [State.empty], by simp [State.empty], by simp [State.empty]⟩
  exact (srun_clean hf _ (fun _ h => h) history _ rfl hext h0).1.stores

end SC.Props
