/- C13 — placeholder; theorems follow -/
namespace SC.Props
theorem C13_placeholder : True := trivial
end SC.Props
