/-
C13 — buffered collections stay consistent under concurrent threads.
-/
import SC.Lemmas.Conc
import SC.Lemmas.BufSize
import SC.Lemmas.BufBound
import SC.Props.C04
namespace SC.Props
open SC.Conc

/-- C13: the buffered mutators hold the class-wide buffer lock from before their load to after
their save (including any forced flush the save triggers), so they are operations of the
one-lock machine whose shared state is the whole buffer machine state (`B.State`: disk, buffer
entries, size, registry, every object's memory).  Instantiating the linearizability theorem:
for every number of threads, every buffered operation sequence per thread and every schedule,
the final buffer-machine state is that of the serial execution in lock order ... -/
theorem C13_buffer_serialised (s0 : B.State) (progs : List (List (Conc.Op B.State))) (sched : List Nat)
    (hd : Done (run (init s0 progs) sched)) :
    (run (init s0 progs) sched).σ = serial s0 (run (init s0 progs) sched).log ∧
    ∀ t p, progs[t]? = some p →
      ((run (init s0 progs) sched).log.filter (·.1 = t)).map (·.2) = p :=
  linearizable s0 progs sched hd

/-- a serial execution of operations each of which keeps the size invariant keeps it -/
theorem serial_keeps_sizeOK (log : List (Nat × Conc.Op B.State))
    (h : ∀ e ∈ log, ∀ s, B.SizeOK s → B.SizeOK (e.2.apply s)) :
    ∀ s, B.SizeOK s → B.SizeOK (serial s log) := by
  induction log with
  | nil => intro s hs; exact hs
  | cons e rest ih =>
    intro s hs
    simp only [serial, List.foldl_cons]
    exact ih (fun e' he' => h e' (List.mem_cons_of_mem _ he')) _ (h e List.mem_cons_self s hs)

theorem steps_keep_sizeOK (steps : List B.Step) :
    ∀ s, B.SizeOK s → B.SizeOK (Op.apply (steps.map (fun st s => B.step s st)) s) := by
  induction steps with
  | nil => intro s hs; exact hs
  | cons st rest ih =>
    intro s hs
    simp only [List.map_cons, Op.apply_cons]
    exact ih _ ((B.keeps_step s st).2.2 hs)

/-- ... and since every step of the buffer machine keeps the size invariant (C15), so does every
concurrent execution of operations made of machine steps: no interleaving can corrupt the
accounting. -/
theorem C13_accounting_survives_interleaving (s0 : B.State) (hs : B.SizeOK s0)
    (progs : List (List (List B.Step))) (sched : List Nat)
    (hd : Done (run (init s0 (progs.map (·.map (·.map (fun st s => B.step s st))))) sched)) :
    B.SizeOK (run (init s0 (progs.map (·.map (·.map (fun st s => B.step s st))))) sched).σ := by
  have hlin := linearizable s0 _ sched hd
  rw [hlin.1]
  refine serial_keeps_sizeOK _ ?_ s0 hs
  intro e he
  have hlt : e.1 < (progs.map (·.map (·.map (fun st s => B.step s st)))).length :=
    logged_thread_exists s0 _ sched e he
  have hp := hlin.2 e.1 _ (List.getElem?_eq_getElem hlt)
  have hep : e.2 ∈ (progs.map (·.map (·.map (fun st s => B.step s st))))[e.1] := by
    rw [← hp]
    exact List.mem_map.mpr ⟨e, List.mem_filter.mpr ⟨he, by simp⟩, rfl⟩
  simp only [List.getElem_map, List.mem_map] at hep
  obtain ⟨steps, _, hst⟩ := hep
  rw [← hst]
  exact steps_keep_sizeOK steps

/-- the same for any predicate that every machine step keeps -/
theorem interleaving_keeps (P : B.State → Prop) (hstep : ∀ s st, P s → P (B.step s st))
    (s0 : B.State) (hs : P s0)
    (progs : List (List (List B.Step))) (sched : List Nat)
    (hd : Done (run (init s0 (progs.map (·.map (·.map (fun st s => B.step s st))))) sched)) :
    P (run (init s0 (progs.map (·.map (·.map (fun st s => B.step s st))))) sched).σ := by
  have hlin := linearizable s0 _ sched hd
  rw [hlin.1]
  have hser : ∀ (log : List (Nat × Conc.Op B.State)),
      (∀ e ∈ log, ∀ s, P s → P (e.2.apply s)) → ∀ s, P s → P (serial s log) := by
    intro log
    induction log with
    | nil => intro _ s hs; exact hs
    | cons e rest ih =>
      intro h s hs
      simp only [serial, List.foldl_cons]
      exact ih (fun e' he' => h e' (List.mem_cons_of_mem _ he')) _ (h e List.mem_cons_self s hs)
  have hsteps : ∀ (steps : List B.Step) s, P s → P (Op.apply (steps.map (fun st s => B.step s st)) s) := by
    intro steps
    induction steps with
    | nil => intro s hs; exact hs
    | cons st rest ih =>
      intro s hs
      simp only [List.map_cons, Op.apply_cons]
      exact ih _ (hstep s st hs)
  refine hser _ ?_ s0 hs
  intro e he
  have hlt : e.1 < (progs.map (·.map (·.map (fun st s => B.step s st)))).length :=
    logged_thread_exists s0 _ sched e he
  have hp := hlin.2 e.1 _ (List.getElem?_eq_getElem hlt)
  have hep : e.2 ∈ (progs.map (·.map (·.map (fun st s => B.step s st))))[e.1] := by
    rw [← hp]
    exact List.mem_map.mpr ⟨e, List.mem_filter.mpr ⟨he, by simp⟩, rfl⟩
  simp only [List.getElem_map, List.mem_map] at hep
  obtain ⟨steps, _, hst⟩ := hep
  rw [← hst]
  exact hsteps steps

/-- C13 with the full C15 invariant: after ANY concurrent execution of buffered operations (each
holding the buffer lock) the size is exact, within the capacity, every buffered file has a buffered
registered holder — hence outside all contexts the buffer is empty and the size 0 -/
theorem C13_bound_survives_interleaving (s0 : B.State) (hs : B.Good s0)
    (progs : List (List (List B.Step))) (sched : List Nat)
    (hd : Done (run (init s0 (progs.map (·.map (·.map (fun st s => B.step s st))))) sched)) :
    B.Good (run (init s0 (progs.map (·.map (·.map (fun st s => B.step s st))))) sched).σ :=
  interleaving_keeps B.Good B.good_step s0 hs progs sched hd

end SC.Props
