/-
C06 — objects on one file share one buffered state; the flush keeps all their writes.
-/
import SC.Lemmas.Buffer
import SC.Lemmas.BufVisible
namespace SC.Props
open SC SC.B

/-- C06, shared-memory strategy, reads: after a buffered load the loading object's data IS the
buffered data — every object bound to the file addresses one container, so a write through any
of them is what a read through any other returns. -/
theorem C06_memory_objects_share (s : B.State) (oi : Nat) (o : B.Obj) (e : B.Entry)
    (ho : s.objs[oi]? = some o) (hb : s.isBuffered o = true) (hs : s.strategy = .sharedMemory)
    (he : s.entry o.res = some e) :
    (load s oi).2 = none ∧ ((load s oi).1.objs[oi]?).map (·.cell) = some e.cell :=
  load_mem_shares s oi o e ho hb hs he

/-- C06, serialized strategy, reads: a buffered load merges the buffered contents — written by
whichever object — into the loading object. -/
theorem C06_serialized_load_merges_entry (s : B.State) (oi : Nat) (o : B.Obj) (e : B.Entry)
    (ho : s.objs[oi]? = some o) (hb : s.isBuffered o = true) (hs : s.strategy = .serialized)
    (he : s.entry o.res = some e) (hcap : ¬ s.size > s.capacity) :
    load s oi = mergeInto (s.register oi) oi o e.contents :=
  load_ser_merges_entry s oi o e ho hb hs he hcap

/-- C06, flush, shared-memory strategy: what is written is the buffered data, for EVERY object
`oi` that performs the flush — also one that only read, or never touched the buffer, and
whatever its own memory holds. -/
theorem C06_memory_flush_writes_buffered (s : B.State) (oi : Nat) (o : B.Obj) (force : Bool) (e : B.Entry)
    (hb : (!(s.isBuffered o) || force) = true) (he : s.entry o.res = some e)
    (hm : e.modified = true) (hc : e.fmeta = s.stat o.res) (hw : s.failing.contains o.res = false) :
    (flushMem s oi o force).1.store o.res = some (s.cellData e.cell).toBase :=
  (flushMem_writes_buffered s oi o force e hb he hm hc hw).2

/-- C06, flush, serialized strategy: whether a flush writes is decided from the buffered
contents against the hash taken when the file entered the buffer — not from the data of the
object that happens to flush: contents = hash → nothing written (first clause); contents ≠ hash →
the buffered contents are written (second clause), for every flushing object. -/
theorem C06_serialized_flush_decides_from_entry (s : B.State) (oi : Nat) (o : B.Obj) (force : Bool)
    (e : B.Entry) (hb : (!(s.isBuffered o) || force) = true) (he : s.entry o.res = some e) :
    (Tr.same e.contents e.hash = true →
      (flushSer s oi o force).1.stores = s.stores ∧ (flushSer s oi o force).2 = none) ∧
    (Tr.same e.contents e.hash = false → e.fmeta = s.stat o.res →
      (mergeInto s oi o e.contents).2 = none → s.failing.contains o.res = false →
      (flushSer s oi o force).1.store o.res = some ((mergeInto s oi o e.contents).1.root o).toBase) :=
  ⟨fun hm => ⟨(flushSer_readonly s oi o force e he hm).2.1, (flushSer_readonly s oi o force e he hm).1⟩,
   fun hm hc hmerge hw => (flushSer_writes s oi o force e hb he hm hc hmerge hw).2.1⟩

/-- C06 (and C05 "reads see all earlier buffered writes"), serialized strategy, as ONE statement
about a write followed by a read: object `oi` saves while buffered (buffer not over capacity).
Nothing is raised, no file is written, and the next buffered load through ANY object `oj` bound to
the same file — `oi` itself or another — merges exactly the content `oi` saved; when that load
returns, `oj`'s content IS that content (same structure, identical scalars, same key sets),
whatever `oj` held before.  `.wf` = no duplicate keys, which Python dicts cannot have. -/
theorem C06_serialized_write_visible (s : B.State) (oi oj : Nat) (o oJ : B.Obj)
    (hs : s.strategy = .serialized)
    (ho : s.objs[oi]? = some o) (hb : s.isBuffered o = true)
    (hoj : s.objs[oj]? = some oJ) (hbj : s.isBuffered oJ = true) (hres : oJ.res = o.res)
    (hfit : ¬ (saveSer (s.register oi) o).size > (saveSer (s.register oi) o).capacity) :
    (save s oi).2 = none ∧ (save s oi).1.stores = s.stores ∧
    load (save s oi).1 oj = mergeInto ((save s oi).1.register oj) oj oJ (s.root o).toBase ∧
    ((load (save s oi).1 oj).2 = none → (s.root o).toBase.wf = true → (s.root oJ).wf = true →
      (s.root o).toBase ≠ .leaf .null →
      Eqv ((load (save s oi).1 oj).1.root oJ) (s.root o).toBase) :=
  serialized_write_visible s oi oj o oJ hs ho hb hoj hbj hres hfit

/-- the same for the shared-memory strategy: after the buffered save through `oi`, a buffered load
through ANY object on the file makes it address the very container `oi` saved, content untouched -/
theorem C06_memory_write_visible (s : B.State) (oi oj : Nat) (o oJ : B.Obj)
    (hs : s.strategy = .sharedMemory)
    (ho : s.objs[oi]? = some o) (hb : s.isBuffered o = true)
    (hoj : s.objs[oj]? = some oJ) (hbj : s.isBuffered oJ = true) (hres : oJ.res = o.res)
    (hfit : ¬ (saveMem (s.register oi) o).size > (saveMem (s.register oi) o).capacity) :
    (save s oi).2 = none ∧ (save s oi).1.stores = s.stores ∧
    (load (save s oi).1 oj).2 = none ∧
    ∃ oJ', (load (save s oi).1 oj).1.objs[oj]? = some oJ' ∧ oJ'.cell = o.cell ∧
      (load (save s oi).1 oj).1.root oJ' = s.root o :=
  memory_write_visible s oi oj o oJ hs ho hb hoj hbj hres hfit

/-- the scenario that used to lose a write (reader flushed first), on the machine: two objects on
one file in one backend-wide context; o1 only reads and is popped first; the file still gets w. -/
example :
    let fam : Fam := ⟨[.requireStringKey, .jsonFormat], [.requireStringKey, .jsonFormat]⟩
    let s := run (B.State.init fam .sharedMemory [])
      [.openObj true 0 none, .openObj true 0 none, .enterCls none,
       .call (.root 0) (.dRead (.get (.s "k") (.leaf .null))), .call (.root 1) (.dRead (.get (.s "k") (.leaf .null))),
       .call (.root 0) (.dSetitem (.s "w") (.leaf (.int 1))), .exitCls]
    (match s.store 0 with | some d => Tr.same d (.dict () [(.s "w", .leaf (.int 1))] : J) | none => false) = true := by
  decide

end SC.Props
