/- C06 — placeholder; theorems follow -/
import SC.Buffer
namespace SC.Props
open SC
theorem C06_placeholder : True := trivial
end SC.Props
