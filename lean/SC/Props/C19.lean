/-
C19 — how a value is classified never depends on what was processed before.
-/
import SC.Lemmas.Resolver
import SC.Table
import SC.Generated.Tables
namespace SC.Props
open SC SC.Resolver

/-- C19, the resolver: if the predicates are determined by the concrete type for every type
that may be cached, and the cache is correct (e.g. empty), then after ANY history of `get_type`
calls — any values, any order, any length — every answer equals the cache-free classification
of that value, and the cache is still correct. -/
theorem C19_cache_transparent (r : Res) (htd : TypeDetermined r) (hc : CacheOK r) (history : List Obj) :
    (runHistory r history).2 = history.map (classify r.preds) ∧ CacheOK (runHistory r history).1 :=
  ⟨(runHistory_correct history r htd hc).1, (runHistory_correct history r htd hc).2.1⟩

/-- a resolver that starts with an empty cache is correct -/
theorem C19_empty_cache_ok (preds : List (Nat × (Obj → Bool))) (bl : List Nat) (m : BlockMode) :
    CacheOK ⟨preds, bl, m, []⟩ := by
  intro ty c h; simp [lookup] at h

/-- C19, repeating after a warm-up: the answer for `o` after any warm-up history equals the
answer in a fresh process (empty cache). -/
theorem C19_outcome_history_free (preds : List (Nat × (Obj → Bool))) (bl : List Nat) (m : BlockMode)
    (htd : TypeDetermined ⟨preds, bl, m, []⟩) (warmup : List Obj) (o : Obj) :
    (getType (runHistory ⟨preds, bl, m, []⟩ warmup).1 o).2 = (getType ⟨preds, bl, m, []⟩ o).2 := by
  have h := runHistory_correct warmup ⟨preds, bl, m, []⟩ htd (C19_empty_cache_ok preds bl m)
  have h1 := getType_correct _ o h.2.2.1 h.2.1
  have h2 := getType_correct ⟨preds, bl, m, []⟩ o htd (C19_empty_cache_ok preds bl m)
  rw [h1.1, h2.1, h.2.2.2]

/-- the premise from predicates: enough that each predicate is type-determined on cacheable types -/
theorem C19_type_determined_of_preds (r : Res)
    (h : ∀ p ∈ r.preds, ∀ o1 o2 : Obj, o1.ty = o2.ty → blocked r o1 = false → p.2 o1 = p.2 o2) :
    TypeDetermined r :=
  typeDetermined_of_preds r h

/-- decidable side condition on the regenerated resolver table: every predicate is a boolean
combination of `isinstance` tests (type-determined everywhere), or it depends on the instance
only for `ndarray` and its subclasses AND `ndarray` is blocklisted AND the blocklist test covers
subclasses. -/
def resolverOK (mode : BlocklistMode) (r : ResolverInfo) : Bool :=
  r.preds.all (fun p =>
    p.2 == .typeDetermined ||
    (p.2 == .instanceDependentOnNdarray && r.blocklist.contains "ndarray" && mode == .subclassAware) ||
    (p.2 == .instanceDependentOnNdarray && !Generated.numpyPresent && r.blocklist.isEmpty))

/-- OBLIGATION on the current source: all module-level resolvers (validators, JSON validators,
collection / mapping / sequence resolvers). -/
theorem C19_resolvers_table :
    ∀ r ∈ Generated.resolvers, resolverOK Generated.blocklistMode r = true := by decide

/-- the model exhibits the defect the property excludes: with an exact-type blocklist, a
subclass of the blocklisted type is cached under the category of the first instance seen. -/
theorem C19_exact_blocklist_is_history_dependent :
    let scalarOrSeq : List (Nat × (Obj → Bool)) := [(0, fun o => decide (o.inst > 0)), (1, fun o => decide (o.inst = 0))]
    let r : Res := ⟨scalarOrSeq, [7], .exactType, []⟩
    let sub0 : Obj := ⟨8, true, 0⟩      -- 0-d instance of a subclass (type 8) of the blocklisted type 7
    let sub1 : Obj := ⟨8, true, 1⟩      -- 1-d instance of the same subclass
    (getType (getType r sub0).1 sub1).2 ≠ (getType r sub1).2 ∧
    (getType (getType { r with mode := .subclassAware } sub0).1 sub1).2 = (getType r sub1).2 := by
  decide

end SC.Props
