/-
C16 — values are copied in and out: no aliasing with user-held objects.
In the model a container's identity is its node id (synced nodes) — plain data (`J = Tr Unit`)
has no identity at all, so "is built-in data all the way down" is a typing fact.
-/
import SC.Lemmas.Fresh
import SC.Seq
import SC.Lemmas.IdHist
namespace SC.Props
open SC Tr

variable {ι : Type}

/-- C16, copy-in: converting an argument — plain data of any depth, or data containing synced
nodes of this or another collection (`ι` arbitrary) — builds nodes whose identities all lie in
the fresh range `[n, n')` handed out by the allocator and are pairwise distinct: none of them is
an identity that existed before, in the argument or anywhere else. -/
theorem C16_copy_in_fresh (v : Tr ι) (n : Nat) :
    n ≤ (fromBase v n).2 ∧ (∀ i ∈ Tr.ids (fromBase v n).1, n ≤ i ∧ i < (fromBase v n).2) ∧
    (Tr.ids (fromBase v n).1).Nodup :=
  ⟨(fromBase_fresh v n).1, (fromBase_fresh v n).2.1, (fromBase_fresh v n).2.2⟩

/-- C16, assigning a synced node (a root or a child, `v : T` with its own identities `< n`)
into a position stores a copy: the stored node shares no identity with the assigned one. -/
theorem C16_assign_synced_is_copy (v : T) (n : Nat) (hold : ∀ i ∈ Tr.ids v, i < n) :
    ∀ i ∈ Tr.ids (fromBase v n).1, i ∉ Tr.ids v := by
  intro i hi hiv
  have := (fromBase_fresh v n).2.1 i hi
  have := hold i hiv
  omega

/-- C16, copy-out: `()`, `values()`, `items()` (and `keys`, `repr`) return plain data — a value
of type `J`, which carries no node identity at any depth — for every dict and list node. -/
theorem C16_copy_out_plain_dict (i : Nat) (kvs : List (Key × T)) :
    (∃ j, dictRead i kvs .call = .ok (.plain j)) ∧ (∃ j, dictRead i kvs .values = .ok (.plain j)) ∧
    (∃ j, dictRead i kvs .items = .ok (.plain j)) :=
  ⟨⟨_, rfl⟩, ⟨_, rfl⟩, ⟨_, rfl⟩⟩
theorem C16_copy_out_plain_list (i : Nat) (xs : List T) :
    ∃ j, listRead i xs .call = .ok (.plain j) := ⟨_, rfl⟩

/-- C16, removed values: in a tree with pairwise distinct identities, the value removed by
`pop` / `del` / `popitem` shares no identity with what remains of the dict: it is detached, so
mutating it cannot show through the collection. -/
theorem C16_removed_detached (k : Key) (kvs : List (Key × T)) (old : T)
    (hn : (Tr.idsKV kvs).Nodup) (hl : Tr.lookup k kvs = some old) :
    ∀ i ∈ Tr.ids old, i ∉ Tr.idsKV (Tr.delKey k kvs) :=
  removed_disjoint k kvs old hn hl

/-- non-vacuity: a nested argument gets three fresh, distinct identities -/
example : Tr.ids (fromBase (.dict () [(.s "a", .list () [.dict () []])] : J) 7).1 = [7, 8, 9] := by decide

/-- C16 along histories: NO CONTAINER IS EVER STORED AT TWO PLACES.  After any history of public
calls (through any handle, any operation, any argument — also arguments that were read from the
collections themselves —, returning or raising), constructor calls and outside writers, the
container identities in the objects' trees are pairwise distinct: within a tree (no node sits at
two positions) and across objects (no node is shared by two collections).  Every container the
library stores is its own object; what is stored for an argument is always a new copy
(`C16_copy_in_fresh`), and neither the merge nor any operation body nor the store through a
handle ever duplicates a reference. -/
theorem C16_no_container_at_two_places_in_any_history (fams : List Fam) (history : List SStep) :
    (flatIds (srun (State.empty fams) history).objs).Nodup :=
  (srun_idOK history _ (empty_idOK fams)).nodup

/-- ... in particular two different objects never share a container -/
theorem C16_objects_share_nothing_in_any_history (fams : List Fam) (history : List SStep)
    (j k : Nat) (a b : Obj) (hjk : j < k) :
    let s := srun (State.empty fams) history
    s.objs[j]? = some a → s.objs[k]? = some b → ∀ i ∈ Tr.ids a.root, i ∉ Tr.ids b.root := by
  intro s ha hb
  exact flat_disjoint s.objs j k a b (srun_idOK history _ (empty_idOK fams)).nodup ha hb hjk

end SC.Props
