/-
C14 — readers next to writers.  The full property is FALSE of the design (reads take no
lock); what is proved: the writers-only part (= C09), and a machine-checked schedule that
loses a writer's update (the known finding), replayed on the implementation by the check.
-/
import SC.Lemmas.Conc
namespace SC.Props
open SC.Conc

/-- C14_partial (writers only): see `C09_linearizable`; restated for the record. -/
theorem C14_partial_writers_only {Sh : Type} (σ0 : Sh) (progs : List (List (Conc.Op Sh))) (sched : List Nat)
    (hd : Done (run (init σ0 progs) sched)) :
    (run (init σ0 progs) sched).σ = serial σ0 (run (init σ0 progs) sched).log :=
  (linearizable σ0 progs sched hd).1

/-- C14 is false of the design: in the reader/writer machine (writer = `acq; load; body; save;
rel`, reader = `read file; suspend+; merge; suspend-` WITHOUT the lock, sharing the object's
memory and suspend counter) there is a schedule that runs both to completion and leaves the
file without the writer's update: the reader's suspend window makes the writer's load and save
no-ops. -/
theorem C14_counterexample_suspend :
    ∃ sch : List Bool,
      (RW.runRW ⟨5, 5, 0, 0, false⟩ RW.writer RW.reader sch).file = 5 ∧
      (RW.runRW ⟨5, 5, 0, 0, false⟩ RW.writer RW.reader sch).lock = false ∧
      sch.count true = RW.writer.length ∧ sch.count false = RW.reader.length :=
  RW.lost_update_schedule

/-- ... while the writer alone does update the file. -/
theorem C14_writer_alone :
    (RW.runRW ⟨5, 5, 0, 0, false⟩ RW.writer [] (List.replicate 5 true)).file = 6 :=
  RW.writer_alone_updates

end SC.Props
