/- C14 — placeholder; theorems follow -/
namespace SC.Props
theorem C14_placeholder : True := trivial
end SC.Props
