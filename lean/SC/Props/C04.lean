/-
C04 — writes through any handle never clobber changes made via other handles.
-/
import SC.Lemmas.Seq
import SC.Lemmas.Refine
import SC.Lemmas.Path
import SC.Lemmas.IdHist
import SC.Lemmas.WfHist
import SC.Lemmas.OpTable
import SC.Lemmas.Natural
import SC.Table
import SC.Generated.Tables
namespace SC.Props
open SC

/-- the synchronisation bracket a mutating method must have in the source: its body runs
inside the root's load-and-save context (or, for clear/reset, the overwrite context which is
that same context for nested collections), it does not rebind `_data`, and it is defined
in the repository rather than assembled by an ABC mix-in from several bracketed steps. -/
def BracketOK (a : ApiEntry) : Bool :=
  !a.mutates ||
  (a.definedInRepo &&
    match a.summary with
    | none => false
    | some ms =>
      (ms.ctxs.head? == some .loadAndSave || ms.ctxs.head? == some .overwrite) && !ms.rebindsData)

/-- OBLIGATION on the current source: every public mutator of every concrete class. -/
theorem C04_brackets_table :
    ∀ f ∈ Generated.families, ∀ c ∈ f.classes, ∀ a ∈ c.api, BracketOK a = true := by decide

/-- C04, model side: an operation issued through a nested child handle (`isRoot = false`)
— any mutator, `clear` and `reset` included — is preceded by a load of the owning root
from the backend, so its body is applied to the backend's current content merged into
memory, not to a stale copy. -/
theorem C04_child_ops_load_first (s : State) (oi : Nat) (op : Op) (hs : op.skipsLoad = false) :
    loadFor s oi false op = loadRoot s oi := by
  simp [loadFor, hs]

/-- at the root only the operations that replace the entire content skip the load -/
theorem C04_root_ops_load_first (s : State) (oi : Nat) (op : Op) (hs : op.skipsLoad = false)
    (ho : op.isOverwrite = false) : loadFor s oi true op = loadRoot s oi := by
  simp [loadFor, hs, ho]

/-- ... and the load is the merge of the backend content into the object's tree -/
theorem C04_load_is_merge (s : State) (oi : Nat) (o : Obj) (d : J)
    (ho : s.objs[oi]? = some o) (hd : s.store o.res = some d) :
    ((loadRoot s oi).1.objs[oi]?).map (·.root) = some (updNode (s.fam o) o.root d s.next).val := by
  unfold loadRoot
  simp only [ho, hd]
  have hlt : oi < s.objs.length := (List.getElem?_eq_some_iff.mp ho).1
  simp [State.setObj, hlt]

/-- OBLIGATION tying the hand-written operation model to the current source: for every concrete
class, every mutating operation of the model has a method of that name defined in the repository
whose outermost context is the overwrite context exactly for the operations the model treats as
overwrites (clear, reset: no load at root level), and which validates its argument before the
first `with` exactly for the operations the model pre-validates (`Op.isOverwrite_kind`,
`preValidate_none_of_kind` connect the kinds to `call`). -/
theorem C04_model_ops_match_table :
    ∀ f ∈ Generated.families, ∀ c ∈ f.classes, OpsMatch c = true := by decide

/-- C04 (with C01 and C02) as ONE refinement step.  Object `oi` is bound to a resource whose current
content is `d` — written by whoever: this object, another object, an outside writer.  `oi`'s own
memory is ARBITRARY.  For every operation that loads first (all but root-level clear/reset) and
passes its pre-validation: the call returns what the operation's body returns on a tree `t` that
has exactly the content of `d`, and a mutator leaves the backend holding exactly the body's result
on `t`.  Result and new backend content are functions of the backend's current content and the
operation alone — whatever this handle knew before: nothing another handle wrote is clobbered. -/
theorem C04_call_runs_on_backend_content (s : State) (oi : Nat) (o : Obj) (d : J) (op : Op)
    (ho : s.objs[oi]? = some o) (hst : s.store o.res = some d)
    (hv : Valid (s.fam o) d) (hwd : d.wf = true) (hwt : o.root.wf = true) (hk : sameKind o.root d = true)
    (hno : op.isOverwrite = false) (hns : op.skipsLoad = false)
    (hpre : preValidate (s.fam o) o.root.isDict op = none) :
    let t := (updNode (s.fam o) o.root d s.next).val
    let r := runBody (s.fam o) t op (loadRoot s oi).1.next
    Eqv t d ∧ t.wf = true ∧
    (call s (.root oi) op).2 = (match r.err with | some e => .error e | none => .ok r.out) ∧
    (op.isRead = false → (call s (.root oi) op).1.store o.res = some r.node.toBase) ∧
    (op.isRead = true → (call s (.root oi) op).1.stores = s.stores) :=
  call_root_refines s oi o d op ho hst hv hwd hwt hk hno hns hpre

/-- the instance the property names: `obj[k] = v` through a stale object keeps every other key the
backend currently has — each with the content it has there (`Eqv`: same structure, scalars, key
sets) — and sets `k` to `v` -/
theorem C04_setitem_keeps_other_keys (s : State) (oi : Nat) (o : Obj) (i : Nat) (kvs0 : List (Key × T))
    (dkvs : List (Key × J)) (k : Key) (v : J)
    (ho : s.objs[oi]? = some o) (hroot : o.root = .dict i kvs0) (hst : s.store o.res = some (.dict () dkvs))
    (hv : Valid (s.fam o) (Tr.dict () dkvs : J)) (hwd : Tr.wfKV dkvs = true) (hwt : o.root.wf = true)
    (hpre : validateKV (s.fam o).dictV [(k, v)] = none) :
    ∃ kvs' : List (Key × J), (call s (.root oi) (.dSetitem k v)).1.store o.res = some (.dict () kvs') ∧
      Tr.lookup k kvs' = some v ∧
      ∀ k' w, k' ≠ k → Tr.lookup k' dkvs = some w → ∃ x : T, Tr.lookup k' kvs' = some x.toBase ∧ Eqv x w := by
  have hk : sameKind o.root (Tr.dict () dkvs : J) = true := by rw [hroot]; rfl
  have hwd' : (Tr.dict () dkvs : J).wf = true := by simpa [Tr.wf] using hwd
  have h := call_root_refines s oi o (.dict () dkvs) (.dSetitem k v) ho hst hv hwd' hwt hk rfl rfl
    (by rw [hroot]; exact hpre)
  obtain ⟨heqv, _, _, hstore, _⟩ := h
  have hst' := hstore rfl
  -- the merged tree is a dict with the identity of the old root
  cases ht : (updNode (s.fam o) o.root (Tr.dict () dkvs : J) s.next).val with
  | leaf sc => rw [ht] at heqv; simp [Eqv] at heqv
  | list j xs => rw [ht] at heqv; simp [Eqv] at heqv
  | dict j tkvs =>
    rw [ht] at heqv hst'
    simp only [Eqv] at heqv
    refine ⟨Tr.mapKV (fun _ => ()) (Tr.setKey k (fromBase v (loadRoot s oi).1.next).1 tkvs), ?_, ?_, ?_⟩
    · rw [hst']
      simp [runBody, dmutRes, dictMut, Tr.toBase, Tr.map]
    · rw [lookup_mapKV, lookup_setKey_same]
      simp only [Option.map_some]
      have := toBase_fromBase v (loadRoot s oi).1.next
      simp only [Tr.toBase] at this
      rw [this]
      exact congrArg some (toBase_J v)
    · intro k' w hne hw
      have hhas : Tr.hasKey k' tkvs = true := heqv.2 k' (by simp [Tr.hasKey, hw])
      obtain ⟨x, hx⟩ := (hasKey_iff_lookup k' tkvs).mp hhas
      have hmem : (k', x) ∈ tkvs := by
        clear heqv hst' ht hhas
        induction tkvs with
        | nil => simp [Tr.lookup] at hx
        | cons q qs ih =>
          obtain ⟨k2, v2⟩ := q
          simp only [Tr.lookup] at hx
          by_cases hk2 : k2 = k'
          · simp only [hk2, if_true, Option.some.injEq] at hx; subst hx; subst hk2; exact List.mem_cons_self ..
          · simp only [hk2, if_false] at hx; exact List.mem_cons_of_mem _ (ih hx)
      obtain ⟨w', hw', hxw⟩ := (EqvKV_iff tkvs dkvs).mp heqv.1 (k', x) hmem
      simp only at hw'
      rw [hw] at hw'
      simp only [Option.some.injEq] at hw'
      subst hw'
      refine ⟨x, ?_, hxw⟩
      rw [lookup_mapKV, lookup_setKey_other k k' _ tkvs hne, hx]
      rfl

/-- non-vacuity, the scenario of the property on the machine: two objects on one resource; A adds
key "a"; B — whose memory is stale (empty) — adds key "b": the backend has both. -/
example :
    let fam : Fam := ⟨[.requireStringKey, .jsonFormat], [.requireStringKey, .jsonFormat]⟩
    let s0 := (openObj (openObj (State.empty [fam]) 0 true 0 none).1 0 true 0 none).1
    let s1 := (call s0 (.root 0) (.dSetitem (.s "a") (.leaf (.int 1)))).1
    let s2 := (call s1 (.root 1) (.dSetitem (.s "b") (.leaf (.int 2)))).1
    (match s2.store 0 with
     | some d => Tr.same d (.dict () [(.s "a", .leaf (.int 1)), (.s "b", .leaf (.int 2))] : J)
     | none => false) = true := by
  decide

/-- C04 for a NESTED CHILD HANDLE (the property's "any handle"): the user holds the nested collection
with identity `id`, which sits at path `p` — any depth — of object `oi`'s tree.  The backend
currently holds `d` — written by whoever — with containers of the same kind along `p`; `oi`'s memory
is otherwise ARBITRARY.  A call through the handle first loads the ROOT; the handle then still
denotes the node at `p` (same identity), whose content is exactly the data at `p`; the body runs on
that node; and a mutator leaves the backend holding the backend's content with the body's result AT
PATH `p` — every position outside `p` exactly as the backend had it (`Tr.setSub`; `Eqv t d`).
Hypotheses on identities: pairwise distinct in `oi`'s tree and below the counter (kept by every
merge: `C02_merge_keeps_identities_distinct`), and `id` occurs in no object before `oi`. -/
theorem C04_child_call_runs_on_backend_content (s : State) (oi id : Nat) (o : Obj) (d : J) (p : List Seg)
    (c : T) (op : Op)
    (ho : s.objs[oi]? = some o) (hst : s.store o.res = some d) (hown : s.ownerOf id = some oi)
    (hsub : Tr.sub p o.root = some c) (hid : c.id? = some id)
    (hnd : (Tr.ids o.root).Nodup) (hlt : ∀ i ∈ Tr.ids o.root, i < s.next)
    (hother : ∀ j o', j < oi → s.objs[j]? = some o' → id ∉ Tr.ids o'.root)
    (hv : Valid (s.fam o) d) (hwd : d.wf = true) (hwt : o.root.wf = true)
    (hk : kindsMatch p o.root d = true) (hns : op.skipsLoad = false)
    (hpre : preValidate (s.fam o) c.isDict op = none) :
    ∃ c' dc, Tr.sub p (updNode (s.fam o) o.root d s.next).val = some c' ∧ c'.id? = some id ∧
      Tr.sub p d = some dc ∧ Eqv c' dc ∧
      Eqv (updNode (s.fam o) o.root d s.next).val d ∧
      (call s (.node id) op).2 =
        (match (runBody (s.fam o) c' op (loadRoot s oi).1.next).err with
         | some e => .error e
         | none => .ok (runBody (s.fam o) c' op (loadRoot s oi).1.next).out) ∧
      (op.isRead = false → (call s (.node id) op).1.store o.res =
        some (Tr.setSub p (updNode (s.fam o) o.root d s.next).val.toBase
          (runBody (s.fam o) c' op (loadRoot s oi).1.next).node.toBase)) ∧
      (op.isRead = true → (call s (.node id) op).1.stores = s.stores) :=
  call_child_refines s oi id o d p c op ho hst hown hsub hid hnd hlt hother hv hwd hwt hk hns hpre

/-- what "at path `p`, everything else as it was" means for content: the replaced position holds
the new content ... -/
theorem C04_setSub_same (p : List Seg) (t c new : J) (h : Tr.sub p t = some c) :
    Tr.sub p (Tr.setSub p t new) = some new := sub_setSub_same p t c new h

/-- non-vacuity of the child-handle step: object 0 holds (stale) `{"a": [1, {"k": 1}], "b": 2}`,
the user holds the inner dict (identity 2, path a/1); an outside writer replaced the file by
`{"c": null, "a": [true, {"z": []}, 9]}`; `inner["q"] = 7` leaves the file with the outside
writer's content plus `q` in the inner dict.  All hypotheses of the theorem hold in this state. -/
example :
    let fam : Fam := ⟨[.requireStringKey, .jsonFormat], [.requireStringKey, .jsonFormat]⟩
    let d0 : J := .dict () [(.s "a", .list () [.leaf (.int 1), .dict () [(.s "k", .leaf (.int 1))]]), (.s "b", .leaf (.int 2))]
    let d1 : J := .dict () [(.s "c", .leaf .null), (.s "a", .list () [.leaf (.bool true), .dict () [(.s "z", .list () [])], .leaf (.int 9)])]
    let s0 := (openObj (State.empty [fam]) 0 true 0 (some d0)).1
    let s1 := extWrite s0 0 d1
    let p : List Seg := [.key (.s "a"), .idx 1]
    ((s1.objs[0]?).map (fun o => kindsMatch p o.root d1 && decide (Tr.ids o.root).Nodup &&
        (Tr.ids o.root).all (· < s1.next) && ((Tr.sub p o.root).bind Tr.id? == some 2) && o.root.wf)) = some true ∧
    s1.ownerOf 2 = some 0 ∧ d1.wf = true ∧
    (match (call s1 (.node 2) (.dSetitem (.s "q") (.leaf (.int 7)))).1.store 0 with
     | some x => Tr.same x (.dict () [(.s "a", .list () [.leaf (.bool true),
          .dict () [(.s "z", .list () []), (.s "q", .leaf (.int 7))], .leaf (.int 9)]), (.s "c", .leaf .null)] : J)
     | none => false) = true := by
  decide

/-- THE IDENTITY HYPOTHESES HOLD IN EVERY REACHABLE STATE.  After any history of public calls
(through any handles, any operations and arguments, returning or raising), constructor calls and
outside writers, the identities in the objects' trees are pairwise distinct — within each tree and
across objects — and below the counter.  (Induction over the history; per step: the merge
`updNode_ids`, every operation body `runBody_ids`, the store through a handle `replace_ids`.) -/
theorem C04_identities_distinct_in_every_history (fams : List Fam) (history : List SStep) :
    IdOK (srun (State.empty fams) history) :=
  srun_idOK history _ (empty_idOK fams)

/-- ... and every identity in an object's tree is recorded as allocated for that object (the
bookkeeping by which a nested child finds the root that loads and saves for it), in every
reachable state. -/
theorem C04_child_knows_its_root_in_every_history (fams : List Fam) (history : List SStep)
    (oi : Nat) (o : Obj) (p : List Seg) (c : T) (id : Nat) :
    let s := srun (State.empty fams) history
    s.objs[oi]? = some o → Tr.sub p o.root = some c → c.id? = some id → s.ownerOf id = some oi := by
  intro s ho hsub hid
  have hown := (srun_ownOK history _ (empty_idOK fams) (empty_ownOK fams)).2
  exact hown.owner oi o ho id (id_mem_of_sub p o.root c id hsub hid)

/-- ... and keys are unique everywhere (objects' trees and backends) in every state reachable by a
history whose outside data — arguments, constructor data, outside writers' content — has no
duplicate keys (automatic for Python values; `J` association lists could have them). -/
theorem C04_keys_unique_in_every_history (fams : List Fam) (history : List SStep)
    (ha : ∀ st ∈ history, SStep.argsWf st = true) : WfOK (srun (State.empty fams) history) :=
  srun_wfOK history _ (empty_wfOK fams) ha

/-- C04, ROOT HANDLE, IN ANY REACHABLE STATE: every state hypothesis of
`C04_call_runs_on_backend_content` is discharged by the history invariants.  What remains is about
the backend's current content `d` only: valid data of the object's kind. -/
theorem C04_call_in_any_history (fams : List Fam) (history : List SStep)
    (ha : ∀ st ∈ history, SStep.argsWf st = true) (oi : Nat) (o : Obj) (d : J) (op : Op) :
    let s := srun (State.empty fams) history
    s.objs[oi]? = some o → s.store o.res = some d → Valid (s.fam o) d → sameKind o.root d = true →
    op.isOverwrite = false → op.skipsLoad = false → preValidate (s.fam o) o.root.isDict op = none →
    let t := (updNode (s.fam o) o.root d s.next).val
    let r := runBody (s.fam o) t op (loadRoot s oi).1.next
    Eqv t d ∧ t.wf = true ∧
    (call s (.root oi) op).2 = (match r.err with | some e => .error e | none => .ok r.out) ∧
    (op.isRead = false → (call s (.root oi) op).1.store o.res = some r.node.toBase) ∧
    (op.isRead = true → (call s (.root oi) op).1.stores = s.stores) := by
  intro s ho hst hv hk hno hns hpre
  have hw : WfOK s := srun_wfOK history _ (empty_wfOK fams) ha
  exact call_root_refines s oi o d op ho hst hv (store_wf hw hst) (hw.objs o (List.mem_of_getElem? ho)) hk hno hns hpre

/-- C04, NESTED CHILD HANDLE AT ANY DEPTH, IN ANY REACHABLE STATE: every state hypothesis of
`C04_child_call_runs_on_backend_content` — distinct identities, ownership, unique keys — is
discharged by the history invariants.  What remains is about the backend's current content `d`
only: valid data with containers of the same kind along the handle's path (otherwise the handle is
detached — the converse case, decided by the oracles). -/
theorem C04_child_call_in_any_history (fams : List Fam) (history : List SStep)
    (ha : ∀ st ∈ history, SStep.argsWf st = true)
    (oi id : Nat) (o : Obj) (d : J) (p : List Seg) (c : T) (op : Op) :
    let s := srun (State.empty fams) history
    s.objs[oi]? = some o → s.store o.res = some d →
    Tr.sub p o.root = some c → c.id? = some id →
    Valid (s.fam o) d → kindsMatch p o.root d = true → op.skipsLoad = false →
    preValidate (s.fam o) c.isDict op = none →
    ∃ c' dc, Tr.sub p (updNode (s.fam o) o.root d s.next).val = some c' ∧ c'.id? = some id ∧
      Tr.sub p d = some dc ∧ Eqv c' dc ∧
      Eqv (updNode (s.fam o) o.root d s.next).val d ∧
      (call s (.node id) op).2 =
        (match (runBody (s.fam o) c' op (loadRoot s oi).1.next).err with
         | some e => .error e
         | none => .ok (runBody (s.fam o) c' op (loadRoot s oi).1.next).out) ∧
      (op.isRead = false → (call s (.node id) op).1.store o.res =
        some (Tr.setSub p (updNode (s.fam o) o.root d s.next).val.toBase
          (runBody (s.fam o) c' op (loadRoot s oi).1.next).node.toBase)) ∧
      (op.isRead = true → (call s (.node id) op).1.stores = s.stores) := by
  intro s ho hst hsub hid hv hk hns hpre
  obtain ⟨hok, hown⟩ := srun_ownOK history _ (empty_idOK fams) (empty_ownOK fams)
  have hw : WfOK s := srun_wfOK history _ (empty_wfOK fams) ha
  have hsl := ids_sublist_flat s.objs oi o ho
  have hmem : id ∈ Tr.ids o.root := id_mem_of_sub p o.root c id hsub hid
  refine call_child_refines s oi id o d p c op ho hst (hown.owner oi o ho id hmem) hsub hid
    (List.Nodup.sublist hsl hok.nodup) (fun i hi => hok.bound i (hsl.subset hi)) ?_ hv
    (store_wf hw hst) (hw.objs o (List.mem_of_getElem? ho)) hk hns hpre
  intro j o' hj ho' hin
  exact flat_disjoint s.objs j oi o' o hok.nodup ho' ho hj id hin hmem

/-- non-vacuity: a history — construct with nested data, outside rewrite, write through the nested
child obtained from a read — after which the hypotheses hold and the call lands at the path -/
example :
    let fam : Fam := ⟨[.requireStringKey, .jsonFormat], [.requireStringKey, .jsonFormat]⟩
    let d0 : J := .dict () [(.s "a", .list () [.leaf (.int 1), .dict () [(.s "k", .leaf (.int 1))]])]
    let d1 : J := .dict () [(.s "a", .list () [.leaf (.bool true), .dict () [(.s "z", .list () [])]])]
    let s := srun (State.empty [fam]) [.openObj true 0 (some d0), .ext 0 d1,
      .call (.node 2) (.dSetitem (.s "q") (.leaf (.int 7))), .ext 0 d0]
    ([SStep.openObj true 0 (some d0), .ext 0 d1,
      .call (.node 2) (.dSetitem (.s "q") (.leaf (.int 7))), .ext 0 d0].all SStep.argsWf) = true ∧
    ((s.objs[0]?).map (fun o => kindsMatch [.key (.s "a"), .idx 1] o.root d0 && o.root.wf &&
        ((Tr.sub [.key (.s "a"), .idx 1] o.root).bind Tr.id? == some 2))) = some true ∧
    s.ownerOf 2 = some 0 := by
  decide

end SC.Props
