/-
C04 — writes through any handle never clobber changes made via other handles.
-/
import SC.Lemmas.Seq
import SC.Table
import SC.Generated.Tables
namespace SC.Props
open SC

/-- the synchronisation bracket a mutating method must have in the source: its body runs
inside the root's load-and-save context (or, for clear/reset, the overwrite context which is
that same context for nested collections), it does not rebind `_data`, and it is defined
in the repository rather than assembled by an ABC mix-in from several bracketed steps. -/
def BracketOK (a : ApiEntry) : Bool :=
  !a.mutates ||
  (a.definedInRepo &&
    match a.summary with
    | none => false
    | some ms =>
      (ms.ctxs.head? == some .loadAndSave || ms.ctxs.head? == some .overwrite) && !ms.rebindsData)

/-- OBLIGATION on the current source: every public mutator of every concrete class. -/
theorem C04_brackets_table :
    ∀ f ∈ Generated.families, ∀ c ∈ f.classes, ∀ a ∈ c.api, BracketOK a = true := by decide

/-- C04, model side: an operation issued through a nested child handle (`isRoot = false`)
— any mutator, `clear` and `reset` included — is preceded by a load of the owning root
from the backend, so its body is applied to the backend's current content merged into
memory, not to a stale copy. -/
theorem C04_child_ops_load_first (s : State) (oi : Nat) (op : Op) (hs : op.skipsLoad = false) :
    loadFor s oi false op = loadRoot s oi := by
  simp [loadFor, hs]

/-- at the root only the operations that replace the entire content skip the load -/
theorem C04_root_ops_load_first (s : State) (oi : Nat) (op : Op) (hs : op.skipsLoad = false)
    (ho : op.isOverwrite = false) : loadFor s oi true op = loadRoot s oi := by
  simp [loadFor, hs, ho]

/-- ... and the load is the merge of the backend content into the object's tree -/
theorem C04_load_is_merge (s : State) (oi : Nat) (o : Obj) (d : J)
    (ho : s.objs[oi]? = some o) (hd : s.store o.res = some d) :
    ((loadRoot s oi).1.objs[oi]?).map (·.root) = some (updNode (s.fam o) o.root d s.next).val := by
  unfold loadRoot
  simp only [ho, hd]
  have hlt : oi < s.objs.length := (List.getElem?_eq_some_iff.mp ho).1
  simp [State.setObj, hlt]

end SC.Props
