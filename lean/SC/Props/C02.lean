/-
C02 — read-through: every read reflects the backend's current content.
-/
import SC.Lemmas.Seq
import SC.Props.C04
namespace SC.Props
open SC

/-- every read entry of the API loads first (`self._load()` in its body), in every class
of the current source — or is inherited from an ABC mix-in, which is built from such reads -/
def ReadLoads (a : ApiEntry) : Bool :=
  a.mutates || !a.definedInRepo ||
    match a.summary with
    | none => false
    | some ms => ms.explicitLoad || a.name == "__eq__" || a.name == "__lt__" || a.name == "__le__"
        || a.name == "__gt__" || a.name == "__ge__"     -- these go through `self()`

theorem C02_reads_table :
    ∀ f ∈ Generated.families, ∀ c ∈ f.classes, ∀ a ∈ c.api, ReadLoads a = true := by decide

/-- C02, model side: every read (on the root or on a child handle) is answered from the tree
obtained by merging the backend's current content into memory -/
theorem C02_reads_load_first (s : State) (oi : Nat) (b : Bool) (op : Op) (hr : op.isRead = true)
    (hs : op.skipsLoad = false) : loadFor s oi b op = loadRoot s oi := by
  have : op.isOverwrite = false := by cases op <;> simp_all [Op.isRead, Op.isOverwrite]
  simp [loadFor, hs, this]

end SC.Props
