/-
C02 — read-through: every read reflects the backend's current content.
-/
import SC.Lemmas.Seq
import SC.Props.C04
import SC.Lemmas.Merge
import SC.Lemmas.Attach
import SC.Lemmas.Refine
import SC.Lemmas.IdInv
import SC.Lemmas.WfHist
namespace SC.Props
open SC

/-- every read entry of the API loads first (`self._load()` in its body), in every class
of the current source — or is inherited from an ABC mix-in, which is built from such reads -/
def ReadLoads (a : ApiEntry) : Bool :=
  a.mutates || !a.definedInRepo ||
    match a.summary with
    | none => false
    | some ms => ms.explicitLoad || a.name == "__eq__" || a.name == "__lt__" || a.name == "__le__"
        || a.name == "__gt__" || a.name == "__ge__"     -- these go through `self()`

theorem C02_reads_table :
    ∀ f ∈ Generated.families, ∀ c ∈ f.classes, ∀ a ∈ c.api, ReadLoads a = true := by decide

/-- C02, model side: every read (on the root or on a child handle) is answered from the tree
obtained by merging the backend's current content into memory -/
theorem C02_reads_load_first (s : State) (oi : Nat) (b : Bool) (op : Op) (hr : op.isRead = true)
    (hs : op.skipsLoad = false) : loadFor s oi b op = loadRoot s oi := by
  have : op.isOverwrite = false := by cases op <;> simp_all [Op.isRead, Op.isOverwrite]
  simp [loadFor, hs, this]

/-- C02, the merge post-condition: whenever `_update(data)` returns normally — for EVERY tree in
memory (any stale content, any depth) and EVERY data with unique keys other than a bare null —
the merged tree has exactly the content of the data: same structure, identical scalars
(constructor and payload) at every leaf, the same key sets in every dict; positions whose value
changed to null, to a scalar or to the other container kind included.  (Mutual induction over
the data following the dict loop and the list loop of `_update`.) -/
theorem C02_merge_post (fam : Fam) {ι : Type} (d : Tr ι) (t : T) (n : Nat) (hd : d.wf = true) (ht : t.wf = true)
    (hnn : d ≠ .leaf .null) (herr : (updNode fam t d n).err = none) :
    Eqv (updNode fam t d n).val d ∧ (updNode fam t d n).val.wf = true :=
  updNode_post fam d t n hd ht hnn herr

/-- C02 at the level of objects: after a load that does not raise, the object's tree has
exactly the content the backend holds at that moment — whatever was cached before. -/
theorem C02_load_reflects_backend (s : State) (oi : Nat) (o : Obj) (d : J)
    (ho : s.objs[oi]? = some o) (hst : s.store o.res = some d)
    (hd : d.wf = true) (ht : o.root.wf = true) (hnn : d ≠ .leaf .null)
    (herr : (updNode (s.fam o) o.root d s.next).err = none) :
    ∃ o', (loadRoot s oi).1.objs[oi]? = some o' ∧ Eqv o'.root d := by
  have h := C04_load_is_merge s oi o d ho hst
  cases ho' : (loadRoot s oi).1.objs[oi]? with
  | none => simp [ho'] at h
  | some o' =>
    simp only [ho', Option.map_some, Option.some.injEq] at h
    exact ⟨o', rfl, h ▸ (updNode_post (s.fam o) d o.root s.next hd ht hnn herr).1⟩

/-- C02, second sentence: A CHILD HANDLE STAYS ATTACHED.  Memory `t` (any stale content), backend
data `d` that passes the family's validators, both without duplicate keys; a path — any length —
along which memory and data hold containers of the same kind (`kindsMatch`).  Then `t._update(d)`
returns normally, the node that was at the path is still at the path WITH THE SAME IDENTITY (the
handle the user holds is the object in the tree), and its content is exactly the data at that
path ("its reads show fresh data"; "its writes persist" is then C01 applied to the handle). -/
theorem C02_handle_stays_attached (fam : Fam) {ι : Type} (p : List Seg) (t : T) (d : Tr ι) (n : Nat)
    (hv : Valid fam d) (hd : d.wf = true) (ht : t.wf = true) (hnn : d ≠ .leaf .null)
    (hk : kindsMatch p t d = true) :
    (updNode fam t d n).err = none ∧
    ∃ c c' dc, Tr.sub p t = some c ∧ Tr.sub p (updNode fam t d n).val = some c' ∧
      c'.id? = c.id? ∧ c.id?.isSome = true ∧ Tr.sub p d = some dc ∧ Eqv c' dc := by
  obtain ⟨herr, c, c', h1, h2, h3, h4⟩ := attach fam p t d n hv hd ht hk
  obtain ⟨dc, hdc, he⟩ := eqv_sub p _ d c' (updNode_post fam d t n hd ht hnn herr).1 h2
  exact ⟨herr, c, c', dc, h1, h2, h3, h4, hdc, he⟩

/-- ... and at the level of objects: the load of root object `oi` keeps every such handle -/
theorem C02_load_keeps_handles (s : State) (oi : Nat) (o : Obj) (d : J) (p : List Seg)
    (ho : s.objs[oi]? = some o) (hst : s.store o.res = some d)
    (hv : Valid (s.fam o) d) (hd : d.wf = true) (ht : o.root.wf = true)
    (hk : kindsMatch p o.root d = true) :
    (loadRoot s oi).2 = none ∧
    ∃ o' c c', (loadRoot s oi).1.objs[oi]? = some o' ∧ Tr.sub p o.root = some c ∧
      Tr.sub p o'.root = some c' ∧ c'.id? = c.id? ∧ c.id?.isSome = true := by
  obtain ⟨herr, c, c', h1, h2, h3, h4⟩ := attach (s.fam o) p o.root d s.next hv hd ht hk
  have h := C04_load_is_merge s oi o d ho hst
  have herr2 : (loadRoot s oi).2 = none := by
    unfold loadRoot; simp only [ho, hst]; exact herr
  cases ho' : (loadRoot s oi).1.objs[oi]? with
  | none => simp [ho'] at h
  | some o' =>
    simp only [ho', Option.map_some, Option.some.injEq] at h
    exact ⟨herr2, o', c, c', rfl, h1, by rw [h]; exact h2, h3, h4⟩

/-- C02, first sentence, at the level of a public read: whatever the backend currently holds under
key `k` (written by anyone), `obj[k]` through ANY object bound to the resource — whatever that
object had cached — returns exactly that value (same structure, identical scalars, same key sets),
and `k in obj` is true; a key the backend does not have raises `KeyError`. -/
theorem C02_getitem_returns_backend_value (s : State) (oi : Nat) (o : Obj) (i : Nat) (kvs0 : List (Key × T))
    (dkvs : List (Key × J)) (k : Key)
    (ho : s.objs[oi]? = some o) (hroot : o.root = .dict i kvs0) (hst : s.store o.res = some (.dict () dkvs))
    (hv : Valid (s.fam o) (Tr.dict () dkvs : J)) (hwd : Tr.wfKV dkvs = true) (hwt : o.root.wf = true) :
    (∀ v, Tr.lookup k dkvs = some v →
      ∃ x : T, (call s (.root oi) (.dRead (.getitem k))).2 = .ok (.node x) ∧ Eqv x v) ∧
    (Tr.lookup k dkvs = none → (call s (.root oi) (.dRead (.getitem k))).2 = .error .keyError) := by
  have hk : sameKind o.root (Tr.dict () dkvs : J) = true := by rw [hroot]; rfl
  have hwd' : (Tr.dict () dkvs : J).wf = true := by simpa [Tr.wf] using hwd
  have h := call_root_refines s oi o (.dict () dkvs) (.dRead (.getitem k)) ho hst hv hwd' hwt hk rfl rfl rfl
  obtain ⟨heqv, _, hres, _, _⟩ := h
  cases ht : (updNode (s.fam o) o.root (Tr.dict () dkvs : J) s.next).val with
  | leaf sc => rw [ht] at heqv; simp [Eqv] at heqv
  | list j xs => rw [ht] at heqv; simp [Eqv] at heqv
  | dict j tkvs =>
    rw [ht] at heqv hres
    simp only [Eqv] at heqv
    simp only [runBody, dictRead] at hres
    constructor
    · intro v hv'
      have hhas : Tr.hasKey k tkvs = true := heqv.2 k (by simp [Tr.hasKey, hv'])
      obtain ⟨x, hx⟩ := (hasKey_iff_lookup k tkvs).mp hhas
      simp only [hx] at hres
      refine ⟨x, hres, ?_⟩
      have hmem : (k, x) ∈ tkvs := by
        clear heqv hres ht hhas
        induction tkvs with
        | nil => simp [Tr.lookup] at hx
        | cons q qs ih =>
          obtain ⟨k2, v2⟩ := q
          simp only [Tr.lookup] at hx
          by_cases hk2 : k2 = k
          · simp only [hk2, if_true, Option.some.injEq] at hx; subst hx; subst hk2; exact List.mem_cons_self ..
          · simp only [hk2, if_false] at hx; exact List.mem_cons_of_mem _ (ih hx)
      obtain ⟨w, hw, hxw⟩ := (EqvKV_iff tkvs dkvs).mp heqv.1 (k, x) hmem
      simp only at hw
      rw [hv'] at hw
      simp only [Option.some.injEq] at hw
      subst hw
      exact hxw
    · intro hnone
      cases hx : Tr.lookup k tkvs with
      | none => simp only [hx] at hres; exact hres
      | some x =>
        exfalso
        have hmem : (k, x) ∈ tkvs := by
          clear heqv hres ht
          induction tkvs with
          | nil => simp [Tr.lookup] at hx
          | cons q qs ih =>
            obtain ⟨k2, v2⟩ := q
            simp only [Tr.lookup] at hx
            by_cases hk2 : k2 = k
            · simp only [hk2, if_true, Option.some.injEq] at hx; subst hx; subst hk2; exact List.mem_cons_self ..
            · simp only [hk2, if_false] at hx; exact List.mem_cons_of_mem _ (ih hx)
        obtain ⟨w, hw, _⟩ := (EqvKV_iff tkvs dkvs).mp heqv.1 (k, x) hmem
        simp only at hw
        rw [hnone] at hw
        simp at hw

/-- C02, why a handle keeps MEANING the same position: the merge keeps the Python objects that stay
and creates new ones for new containers, so identities that are pairwise distinct and below the
counter before a merge are so after it, and each identity of the result is one the tree had or a
newly drawn one — for every tree, every data, also when the merge raises. -/
theorem C02_merge_keeps_identities_distinct (fam : Fam) {ι : Type} (d : Tr ι) (t : T) (n : Nat)
    (hn : (Tr.ids t).Nodup) (hb : ∀ i ∈ Tr.ids t, i < n) :
    n ≤ (updNode fam t d n).next ∧ (Tr.ids (updNode fam t d n).val).Nodup ∧
    (∀ i ∈ Tr.ids (updNode fam t d n).val, i < (updNode fam t d n).next) ∧
    (∀ i ∈ Tr.ids (updNode fam t d n).val, i ∈ Tr.ids t ∨ (n ≤ i ∧ i < (updNode fam t d n).next)) := by
  have h := updNode_ids fam d t n hn hb
  exact ⟨h.1, h.2.1, h.bound hb, h.2.2⟩

/-- ... so with distinct identities the object the user holds IS the node at the path: looking the
handle up by identity gives the node at the path, and storing through it replaces at the path. -/
theorem C02_identity_is_position (p : List Seg) (t c new : T) (h : Nat) (hn : (Tr.ids t).Nodup)
    (hs : Tr.sub p t = some c) (hi : c.id? = some h) :
    Tr.find h t = some c ∧ Tr.replace h new t = Tr.setSub p t new :=
  ⟨find_of_sub p t c h hn hs hi, replace_of_sub new p t c h hn hs hi⟩

/-- C02 for a read through a NESTED CHILD HANDLE at any depth: it returns what the read's body
returns on a node whose content is exactly the backend's current data at the handle's path, and
changes no backend. -/
theorem C02_child_read_runs_on_backend_content (s : State) (oi id : Nat) (o : Obj) (d : J) (p : List Seg)
    (c : T) (op : Op)
    (ho : s.objs[oi]? = some o) (hst : s.store o.res = some d) (hown : s.ownerOf id = some oi)
    (hsub : Tr.sub p o.root = some c) (hid : c.id? = some id)
    (hnd : (Tr.ids o.root).Nodup) (hlt : ∀ i ∈ Tr.ids o.root, i < s.next)
    (hother : ∀ j o', j < oi → s.objs[j]? = some o' → id ∉ Tr.ids o'.root)
    (hv : Valid (s.fam o) d) (hwd : d.wf = true) (hwt : o.root.wf = true)
    (hk : kindsMatch p o.root d = true) (hns : op.skipsLoad = false) (hr : op.isRead = true) :
    ∃ c' dc, Tr.sub p d = some dc ∧ Eqv c' dc ∧ c'.id? = some id ∧
      (call s (.node id) op).2 =
        (match (runBody (s.fam o) c' op (loadRoot s oi).1.next).err with
         | some e => .error e
         | none => .ok (runBody (s.fam o) c' op (loadRoot s oi).1.next).out) ∧
      (call s (.node id) op).1.stores = s.stores := by
  have hpre : preValidate (s.fam o) c.isDict op = none := by
    cases op <;> simp_all [Op.isRead, preValidate]
  obtain ⟨c', dc, _, h2, h3, h4, _, h6, _, h8⟩ :=
    call_child_refines s oi id o d p c op ho hst hown hsub hid hnd hlt hother hv hwd hwt hk hns hpre
  exact ⟨c', dc, h3, h4, h2, h6, h8 hr⟩

/-- C02, first sentence, IN ANY REACHABLE STATE: after any history of public calls, constructor
calls and outside writers (outside data without duplicate keys, as Python values are), whatever
the backend currently holds under key `k` — valid data — `obj[k]` through ANY object bound to the
resource returns exactly that value, whatever the object had cached; a key the backend does not
have raises `KeyError`.  No hypothesis about the object's memory is left. -/
theorem C02_getitem_in_any_history (fams : List Fam) (history : List SStep)
    (ha : ∀ st ∈ history, SStep.argsWf st = true) (oi : Nat) (o : Obj) (i : Nat) (kvs0 : List (Key × T))
    (dkvs : List (Key × J)) (k : Key) :
    let s := srun (State.empty fams) history
    s.objs[oi]? = some o → o.root = .dict i kvs0 → s.store o.res = some (.dict () dkvs) →
    Valid (s.fam o) (Tr.dict () dkvs : J) →
    (∀ v, Tr.lookup k dkvs = some v →
      ∃ x : T, (call s (.root oi) (.dRead (.getitem k))).2 = .ok (.node x) ∧ Eqv x v) ∧
    (Tr.lookup k dkvs = none → (call s (.root oi) (.dRead (.getitem k))).2 = .error .keyError) := by
  intro s ho hroot hst hv
  have hw : WfOK s := srun_wfOK history _ (empty_wfOK fams) ha
  have hwd : Tr.wfKV dkvs = true := by simpa [Tr.wf] using store_wf hw hst
  exact C02_getitem_returns_backend_value s oi o i kvs0 dkvs k ho hroot hst hv hwd
    (hw.objs o (List.mem_of_getElem? ho))

/-- C02 for a read through a NESTED CHILD HANDLE, IN ANY REACHABLE STATE (identity, ownership and
key-uniqueness hypotheses discharged by the history invariants). -/
theorem C02_child_read_in_any_history (fams : List Fam) (history : List SStep)
    (ha : ∀ st ∈ history, SStep.argsWf st = true)
    (oi id : Nat) (o : Obj) (d : J) (p : List Seg) (c : T) (op : Op) :
    let s := srun (State.empty fams) history
    s.objs[oi]? = some o → s.store o.res = some d → Tr.sub p o.root = some c → c.id? = some id →
    Valid (s.fam o) d → kindsMatch p o.root d = true → op.skipsLoad = false → op.isRead = true →
    ∃ c' dc, Tr.sub p d = some dc ∧ Eqv c' dc ∧ c'.id? = some id ∧
      (call s (.node id) op).2 =
        (match (runBody (s.fam o) c' op (loadRoot s oi).1.next).err with
         | some e => .error e
         | none => .ok (runBody (s.fam o) c' op (loadRoot s oi).1.next).out) ∧
      (call s (.node id) op).1.stores = s.stores := by
  intro s ho hst hsub hid hv hk hns hr
  obtain ⟨hok, hown⟩ := srun_ownOK history _ (empty_idOK fams) (empty_ownOK fams)
  have hw : WfOK s := srun_wfOK history _ (empty_wfOK fams) ha
  have hsl := ids_sublist_flat s.objs oi o ho
  have hmem : id ∈ Tr.ids o.root := id_mem_of_sub p o.root c id hsub hid
  exact C02_child_read_runs_on_backend_content s oi id o d p c op ho hst (hown.owner oi o ho id hmem) hsub hid
    (List.Nodup.sublist hsl hok.nodup) (fun i hi => hok.bound i (hsl.subset hi))
    (fun j o' hj ho' hin => flat_disjoint s.objs j oi o' o hok.nodup ho' ho hj id hin hmem)
    hv (store_wf hw hst) (hw.objs o (List.mem_of_getElem? ho)) hk hns hr

/-- C02, THE CONVERSE OF ATTACHMENT ("a handle whose position was reassigned, removed or changed kind
is detached"), in any reachable state: the user still holds a nested collection whose identity is
in no object's tree any more (it lives on among the detached nodes and stays usable).  A mutation
through it loads and saves its root like any other call, and that is ALL the backend sees: the
resource ends up holding the merged content of the root — exactly what a bare load-and-save would
leave.  Nothing of the operation reaches the backend; no other position is disturbed. -/
theorem C02_detached_handle_write_does_not_reach_backend (fams : List Fam) (history : List SStep)
    (oi id : Nat) (o : Obj) (d : J) (t0 : T) (op : Op) :
    let s := srun (State.empty fams) history
    s.objs[oi]? = some o → s.store o.res = some d → s.ownerOf id = some oi →
    id ∉ flatIds s.objs → s.detached.findSome? (fun p => Tr.find id p.2) = some t0 →
    (updNode (s.fam o) o.root d s.next).err = none →
    op.skipsLoad = false → op.isRead = false → preValidate (s.fam o) t0.isDict op = none →
    (call s (.node id) op).1.store o.res = some (updNode (s.fam o) o.root d s.next).val.toBase := by
  intro s ho hst hown hnot hdet herr hns hm hpre
  obtain ⟨hok, hwn⟩ := srun_ownOK history _ (empty_idOK fams) (empty_ownOK fams)
  exact call_detached_refines s oi id o d t0 op ho hst hown hok hnot (lt_next_of_owner hwn hown) hdet herr hns hm hpre

/-- C02, A REJECTED LOAD CHANGES NOTHING.  When the backend holds a document the root cannot merge —
a list where the root is a dict, a dict where it is a list, a bare scalar — `_update` raises
`ValueError` and leaves the tree, the identity counter and the set of detached nodes exactly as they
were: no partial merge, nothing to undo.  So the object is as usable as before, and since the
history theorems (`C02_getitem_in_any_history`, `C02_child_read_in_any_history`) quantify over
histories in which calls raise, the first read after a mergeable document is back returns the
backend's content.  (The code keeps one more piece of state across a load, the counter that suspends
synchronisation; that it is restored when the merge raises is what the correspondence programs with
unmergeable root documents check.) -/
theorem C02_rejected_load_changes_nothing (fam : Fam) {ι : Type} (t : T) (d : Tr ι) (n : Nat)
    (hk : sameKind t d = false) (hnn : d ≠ .leaf .null) :
    (updNode fam t d n).val = t ∧ (updNode fam t d n).next = n ∧ (updNode fam t d n).det = [] ∧
    (updNode fam t d n).err = some .valueError := by
  cases t with
  | leaf s =>
    cases d with
    | leaf s' => cases s' <;> simp_all [updNode]
    | list j ys => simp [updNode]
    | dict j kws => simp [updNode]
  | list i xs =>
    cases d with
    | leaf s' => cases s' <;> simp_all [updNode]
    | list j ys => simp [sameKind] at hk
    | dict j kws => simp [updNode]
  | dict i kvs =>
    cases d with
    | leaf s' => cases s' <;> simp_all [updNode]
    | list j ys => simp [updNode]
    | dict j kws => simp [sameKind] at hk

/-- non-vacuity: a dict root against a list document -/
example :
    let fam : Fam := ⟨[.requireStringKey, .jsonFormat], [.requireStringKey, .jsonFormat]⟩
    let t : T := .dict 0 [(.s "a", .dict 1 [])]
    let d : J := .list () [.leaf (.int 1)]
    sameKind t d = false ∧ (updNode fam t d 2).err = some .valueError := by
  decide

/-- C02, WHEN A POSITION GOES, THE HANDLE IS NOT THERE ANY MORE.  After a merge that returns normally —
any stale memory `t`, any data `d`, any path `p` of any length — what sits at `p` in memory is what
the data has at `p`: if the data has nothing there (key removed, list shortened, a container above
became a scalar), memory has nothing there; if the data has something there, memory has a node of
exactly that kind (leaf / list / dict).  So a nested collection the user obtained at `p` earlier is
not the node at `p` once the backend holds something of another kind there (with
`C02_handle_stays_attached`: it is the node at `p` exactly as long as the kinds along `p` agree).
That the old node then occurs NOWHERE in the tree (the merge never moves nodes) is checked by the
Shadow's attachment rule and the twin, not proved here. -/
theorem C02_changed_position_no_longer_holds_the_handle (fam : Fam) {ι : Type} (p : List Seg) (t : T)
    (d : Tr ι) (n : Nat) (hd : d.wf = true) (ht : t.wf = true) (hnn : d ≠ .leaf .null)
    (herr : (updNode fam t d n).err = none) :
    (Tr.sub p d = none → Tr.sub p (updNode fam t d n).val = none) ∧
    (∀ dc c', Tr.sub p d = some dc → Tr.sub p (updNode fam t d n).val = some c' →
      c'.isDict = dc.isDict ∧ c'.isList = dc.isList ∧ Eqv c' dc) := by
  have he := (updNode_post fam d t n hd ht hnn herr).1
  constructor
  · intro hnone
    cases hs : Tr.sub p (updNode fam t d n).val with
    | none => rfl
    | some c' =>
      obtain ⟨dc, hdc, _⟩ := eqv_sub p _ d c' he hs
      rw [hnone] at hdc; cases hdc
  · intro dc c' hdc hs
    obtain ⟨dc', hdc', hcc⟩ := eqv_sub p _ d c' he hs
    rw [hdc] at hdc'; cases hdc'
    refine ⟨?_, ?_, hcc⟩
    · cases c' <;> cases dc <;> simp_all [Eqv, Tr.isDict]
    · cases c' <;> cases dc <;> simp_all [Eqv, Tr.isList]

/-- non-vacuity: the three ways a position goes — key removed, position turned into a scalar, dict
turned into a list — and in each the node at the path afterwards is not a dict any more -/
example :
    let fam : Fam := ⟨[.requireStringKey, .jsonFormat], [.requireStringKey, .jsonFormat]⟩
    let t : T := .dict 0 [(.s "a", .dict 1 [(.s "k", .leaf (.int 1))]), (.s "b", .dict 2 []), (.s "c", .dict 3 [])]
    let d : J := .dict () [(.s "b", .leaf (.int 5)), (.s "c", .list () [])]
    (updNode fam t d 4).err = none ∧ d.wf = true ∧ t.wf = true ∧
    (Tr.sub [.key (.s "a")] (updNode fam t d 4).val).isNone = true ∧
    ((Tr.sub [.key (.s "b")] (updNode fam t d 4).val).map Tr.isDict) = some false ∧
    ((Tr.sub [.key (.s "c")] (updNode fam t d 4).val).map Tr.isDict) = some false ∧
    decide (1 ∉ Tr.ids (updNode fam t d 4).val) = true := by
  decide

/-- non-vacuity: a child handle is cut off by an outside rewrite that turns its position into a
scalar; a write through it afterwards leaves the backend with the outside writer's content -/
example :
    let fam : Fam := ⟨[.requireStringKey, .jsonFormat], [.requireStringKey, .jsonFormat]⟩
    let d0 : J := .dict () [(.s "a", .dict () [(.s "k", .leaf (.int 1))])]
    let d1 : J := .dict () [(.s "a", .leaf (.int 5))]
    let s := srun (State.empty [fam]) [.openObj true 0 (some d0), .ext 0 d1, .call (.root 0) (.dRead .len)]
    decide (1 ∉ flatIds s.objs) = true ∧
    (s.detached.findSome? (fun p => Tr.find 1 p.2)).isSome = true ∧ s.ownerOf 1 = some 0 ∧
    (match (call s (.node 1) (.dSetitem (.s "q") (.leaf (.int 7)))).1.store 0 with
     | some x => Tr.same x d1
     | none => false) = true := by
  decide

/-- non-vacuity of attachment: a handle two levels down (dict inside a list inside the root dict)
survives a reload that rewrites scalars around it, adds and removes keys -/
example :
    let fam : Fam := ⟨[.requireStringKey, .jsonFormat], [.requireStringKey, .jsonFormat]⟩
    let t : T := .dict 0 [(.s "a", .list 1 [.leaf (.int 1), .dict 2 [(.s "k", .leaf (.int 1))]]), (.s "b", .leaf (.int 2))]
    let d : J := .dict () [(.s "c", .leaf .null), (.s "a", .list () [.leaf (.bool true), .dict () [(.s "z", .list () [])], .leaf (.int 9)])]
    kindsMatch [.key (.s "a"), .idx 1] t d = true ∧
    ((Tr.sub [.key (.s "a"), .idx 1] (updNode fam t d 3).val).bind Tr.id?) = some 2 := by
  decide

/-- non-vacuity: a stale tree whose child must become null, one whose scalar must become a
container, and a shrinking list — the merge returns normally and the hypotheses hold. -/
example :
    let fam : Fam := ⟨[.requireStringKey, .jsonFormat], [.requireStringKey, .jsonFormat]⟩
    let t : T := .dict 0 [(.s "a", .dict 1 [(.s "k", .leaf (.int 1))]), (.s "b", .leaf (.int 2)), (.s "l", .list 2 [.leaf (.int 1), .leaf (.int 2)])]
    let d : J := .dict () [(.s "l", .list () [.leaf (.bool true)]), (.s "a", .leaf .null), (.s "b", .dict () [])]
    (updNode fam t d 3).err = none ∧ d.wf = true ∧ t.wf = true := by
  decide

end SC.Props
