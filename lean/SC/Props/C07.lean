/- C07 — placeholder; theorems follow -/
import SC.Buffer
namespace SC.Props
open SC
theorem C07_placeholder : True := trivial
end SC.Props
