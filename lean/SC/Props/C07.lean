/-
C07 — a buffered flush never silently overwrites a file changed by someone else.
-/
import SC.Lemmas.Buffer
import SC.Lemmas.BufCap
import SC.Lemmas.BufVisible
namespace SC.Props
open SC SC.B

/-- C07 (a), serialized strategy: whenever a collection is flushed (at context exit, or forced
by the capacity) while its buffered copy differs from what was read and the file's metadata
differs from the metadata recorded when the file entered the buffer, the flush raises
`MetadataError` and neither the content nor the metadata of ANY file changes. -/
theorem C07_conflict_raises_and_preserves_serialized (s : B.State) (oi : Nat) (o : B.Obj) (force : Bool)
    (e : B.Entry) (hb : (!(s.isBuffered o) || force) = true) (he : s.entry o.res = some e)
    (hm : Tr.same e.contents e.hash = false) (hc : e.fmeta ≠ s.stat o.res) :
    (flushSer s oi o force).2 = some (.other "MetadataError") ∧
    (flushSer s oi o force).1.stores = s.stores ∧ (flushSer s oi o force).1.metas = s.metas :=
  let h := flushSer_conflict s oi o force e hb he hm hc
  ⟨h.1, h.2.1, h.2.2.1⟩

/-- C07 (a), shared-memory strategy. -/
theorem C07_conflict_raises_and_preserves_memory (s : B.State) (oi : Nat) (o : B.Obj) (force : Bool)
    (e : B.Entry) (hb : (!(s.isBuffered o) || force) = true) (he : s.entry o.res = some e)
    (hm : e.modified = true) (hc : e.fmeta ≠ s.stat o.res) :
    (flushMem s oi o force).2 = some (.other "MetadataError") ∧
    (flushMem s oi o force).1.stores = s.stores ∧ (flushMem s oi o force).1.metas = s.metas :=
  flushMem_conflict s oi o force e hb he hm hc

/-- C07 (b): a file whose buffered copy was only read never raises and is never written,
whatever happened to it on disk (both strategies). -/
theorem C07_readonly_silent_serialized (s : B.State) (oi : Nat) (o : B.Obj) (force : Bool) (e : B.Entry)
    (he : s.entry o.res = some e) (hm : Tr.same e.contents e.hash = true) :
    (flushSer s oi o force).2 = none ∧
    (flushSer s oi o force).1.stores = s.stores ∧ (flushSer s oi o force).1.metas = s.metas :=
  flushSer_readonly s oi o force e he hm
theorem C07_readonly_silent_memory (s : B.State) (oi : Nat) (o : B.Obj) (force : Bool) (e : B.Entry)
    (hb : (!(s.isBuffered o) || force) = true) (he : s.entry o.res = some e) (hm : e.modified = false) :
    (flushMem s oi o force).2 = none ∧
    (flushMem s oi o force).1.stores = s.stores ∧ (flushMem s oi o force).1.metas = s.metas :=
  flushMem_readonly s oi o force e hb he hm

/-- C07 (c), what the conflict check compares against: a capacity-forced flush of the shared-memory
strategy keeps the entry in the buffer, and it changes the entry's recorded metadata ONLY if it has
just written the file with the buffered data — then to the metadata of exactly that write.  So the
recorded metadata always describes a file state the buffered data is based on, and a later outside
change is still detected.  (The defect repaired in e2e2336 refreshed it for entries the flush had
not written, adopting an outside writer's file state.) -/
theorem C07_forced_flush_refreshes_only_what_it_wrote (s : B.State) (oi : Nat) (o : B.Obj) (e : B.Entry)
    (he : s.entry o.res = some e) :
    ∃ e', (flushMem s oi o true).1.entry o.res = some e' ∧ e'.modified = false ∧
      (e'.fmeta = e.fmeta ∨
       ((flushMem s oi o true).2 = none ∧
        (flushMem s oi o true).1.store o.res = some (s.cellData e.cell).toBase ∧
        e'.fmeta = (flushMem s oi o true).1.stat o.res)) :=
  forced_flush_refreshes_only_what_it_wrote s oi o e he

/-- ... and a serialized buffered save never touches the metadata recorded when the file entered
the buffer (it is taken at the first buffered access, not at the first save) -/
theorem C07_save_keeps_recorded_metadata (s0 : B.State) (o : B.Obj) (e : B.Entry) (he : s0.entry o.res = some e) :
    ∃ e', (saveSer s0 o).entry o.res = some e' ∧ e'.fmeta = e.fmeta :=
  saveSer_keeps_metadata s0 o e he

/-- C07 (d), settings: leaving a backend-wide context restores the capacity saved at entry and
pops the stack in every state — in particular when the exit raises `BufferedError`. -/
theorem C07_settings_restored (s : B.State) (saved : Option Nat) (rest : List (Option Nat))
    (hst : s.capStack = saved :: rest) :
    (exitCls s).1.capStack = rest ∧
    (exitCls s).1.capacity = (match saved with | some c => c | none => s.capacity) ∧
    (exitCls s).1.ctx = s.ctx - 1 :=
  exitCls_restores s saved rest hst

/-- non-vacuity + the whole scenario on the machine: file 0 modified in a backend-wide context,
rewritten from outside, exit raises BufferedError naming file 0, the outside content stays,
the buffer is empty and the capacity is what it was. -/
example :
    let fam : Fam := ⟨[.requireStringKey, .jsonFormat], [.requireStringKey, .jsonFormat]⟩
    let s0 := run (B.State.init fam .sharedMemory [])
      [.openObj true 0 none, .enterCls (some 500), .call (.root 0) (.dSetitem (.s "a") (.leaf (.int 1))),
       .ext 0 (.dict () [(.s "x", .leaf (.int 9))])]
    let r := exitCls s0
    r.2.isSome = true ∧ r.1.entries.length = 0 ∧ r.1.size = 0 ∧
    r.1.capacity = defaultCapacity .sharedMemory ∧
    (match r.1.store 0 with | some d => Tr.same d (.dict () [(.s "x", .leaf (.int 9))] : J) | none => false) = true := by
  decide

end SC.Props
