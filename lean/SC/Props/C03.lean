/-
C03 — operations refine built-in dict / list: same results, same errors, same content.
-/
import SC.Lemmas.Natural
import SC.Lemmas.Tree
import SC.Seq
namespace SC.Props
open SC Tr

/-- forgetting identities (`_to_base` on every child) -/
abbrev tb : Nat → Unit := fun _ => ()

/-- C03, dict mutators: for every synced dict (children of any shape and depth) and every
plain `dict` method the library forwards to (`__setitem__`, `__delitem__`, `pop`,
`popitem`, `clear`) with any argument, the built-in operation on the plain content
raises exactly when the synced one does, and otherwise yields the plain content,
the plain return value and the plain removed elements of the synced result. -/
theorem C03_dict_mutators_refine_builtin (kvs : List (Key × T)) (m : DictMut T) :
    dictMut (Tr.mapKV tb kvs) (m.map tb) = (dictMut kvs m).map (BodyRes.mapD tb) :=
  dictMut_natural tb kvs m

/-- C03, list mutators: the same for `__setitem__` (index and every slice, incl. extended
slices and out-of-range bounds), `__delitem__`, `insert`, `append`, `extend`/`+=`,
`remove`, `clear`, `pop`, `reverse`. -/
theorem C03_list_mutators_refine_builtin (xs : List T) (m : ListMut T) :
    listMut (Tr.mapL tb xs) (m.map tb) = (listMut xs m).map (BodyRes.mapLst tb) :=
  listMut_natural tb xs m

/-- C03, dict reads: item access, membership, `len`, iteration, `()`, `repr`, `keys`,
`values`, `items`, `==`, `!=`, `get` return on a synced dict what they return on its
plain content (child objects correspond to their plain content). -/
theorem C03_dict_reads_refine_builtin (i : Nat) (kvs : List (Key × T)) (r : DictRead) :
    dictRead () (Tr.mapKV tb kvs) r = (dictRead i kvs r).map (Out.map tb) :=
  dictRead_natural tb i kvs r

/-- C03, list reads and comparisons: item / slice access, membership, `len`, iteration,
`reversed`, `index`, `count`, `()`, `repr`, `==`, `!=`, `<`, `<=`, `>`, `>=` (with their
`TypeError` cases) agree with the built-in list of the plain content. -/
theorem C03_list_reads_refine_builtin (i : Nat) (xs : List T) (r : ListRead) :
    listRead () (Tr.mapL tb xs) r = (listRead i xs r).map (Out.map tb) :=
  listRead_natural tb i xs r

/-- the comparison operators decide from plain content only -/
theorem C03_cmp (c : Cmp) (i : Nat) (xs : List T) (v : J) :
    Tr.cmp c (Tr.list i xs) v = Tr.cmp c (Tr.list i xs).toBase v := by
  have h := cmp_map_left tb c (Tr.list i xs) v
  simpa [Tr.toBase] using h.symm

/-- C03, errors leave content unchanged: if a plain dict/list method raises (`KeyError`,
`IndexError`, `ValueError` for an absent element or a size mismatch), the node is
exactly what it was, nothing fell out of it and no identity was consumed. -/
theorem C03_error_leaves_unchanged_dict (t : T) (i : Nat) (kvs : List (Key × T)) (m : DictMut T)
    (n : Nat) (e : Err) (h : (dmutRes t i kvs m n).err = some e) :
    (dmutRes t i kvs m n).node = t ∧ (dmutRes t i kvs m n).det = [] := by
  unfold dmutRes at *
  cases hd : dictMut kvs m with
  | error e' => simp
  | ok r => simp [hd] at h
theorem C03_error_leaves_unchanged_list (t : T) (i : Nat) (xs : List T) (m : ListMut T)
    (n : Nat) (e : Err) (h : (lmutRes t i xs m n).err = some e) :
    (lmutRes t i xs m n).node = t ∧ (lmutRes t i xs m n).det = [] := by
  unfold lmutRes at *
  cases hd : listMut xs m with
  | error e' => simp
  | ok r => simp [hd] at h

/-- C03 at the level of one call body: storing a value through `__setitem__` on a synced
dict node yields, as plain content, exactly `dict.__setitem__` on the plain content with
the plain value (the conversion `_from_base` is content-preserving). -/
theorem C03_setitem_content (fam : Fam) (i : Nat) (kvs : List (Key × T)) (k : Key) (v : J) (n : Nat) :
    (runBody fam (.dict i kvs) (.dSetitem k v) n).node.toBase
      = .dict () (Tr.setKey k v (Tr.mapKV tb kvs)) ∧
    (runBody fam (.dict i kvs) (.dSetitem k v) n).err = none := by
  have hv : (fromBase v n).1.map tb = v := by
    have := toBase_fromBase v n
    simp only [Tr.toBase] at this
    rw [this]; exact map_unit_id v
  simp only [runBody, dmutRes, dictMut]
  refine ⟨?_, trivial⟩
  rw [toBase_dict, ← setKey_mapKV, hv]

end SC.Props
