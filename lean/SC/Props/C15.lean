/- C15 — placeholder; theorems follow -/
import SC.Buffer
namespace SC.Props
open SC
theorem C15_placeholder : True := trivial
end SC.Props
