/-
C15 — buffer size accounting is exact and the capacity of a backend-wide context is restored.
-/
import SC.Lemmas.BufSize
import SC.Lemmas.BufCap
namespace SC.Props
open SC SC.B

/-- C15, exactness: in every state reachable from the initial state of a buffered class by ANY
history — operations through root and child handles, `obj.buffered` and `buffer_backend(cap)`
enters and exits in any nesting, `set_buffer_capacity`, new objects, outside writes and
deletions, forced flushes, flushes that raise — the reported size equals the sum over the files
currently in the buffer of: the encoded length of the buffered contents (serialized strategy) /
1 if the buffered copy has unflushed modifications, else 0 (shared-memory strategy); and no
file is in the buffer twice. -/
theorem C15_size_exact (fam : Fam) (strategy : Buffering) (fl : List ((Int × Nat) × Nat))
    (history : List Step) :
    SizeOK (run (B.State.init fam strategy fl) history) :=
  (keeps_run _ history).2.2 (sizeOK_init fam strategy fl)

/-- the same as a one-step invariant (for every state, not only reachable ones) -/
theorem C15_size_step (s : B.State) (st : Step) (h : SizeOK s) : SizeOK (step s st) :=
  (keeps_step s st).2.2 h

/-- C15, capacity: `buffer_backend(cap)` pushes the capacity in force ... -/
theorem C15_enter_pushes (s : B.State) (cap : Option Nat) :
    (enterCls s cap).1.capStack = (cap.map (fun _ => s.capacity)) :: s.capStack :=
  (enterCls_pushes s cap).1

/-- ... and leaving the context puts it back, whether or not the flush on exit (or the flush the
restored, smaller capacity may force) raises. -/
theorem C15_capacity_restored (s : B.State) (saved : Option Nat) (rest : List (Option Nat))
    (hst : s.capStack = saved :: rest) :
    (exitCls s).1.capStack = rest ∧
    (exitCls s).1.capacity = (match saved with | some c => c | none => s.capacity) :=
  ⟨(exitCls_restores s saved rest hst).1, (exitCls_restores s saved rest hst).2.1⟩

/-- `set_buffer_capacity(n)` leaves capacity `n` also when the flush it forces raises -/
theorem C15_set_capacity (s : B.State) (n : Nat) : (setCapacity s n).1.capacity = n :=
  (setCapacity_capacity s n).1

/-- non-vacuity: a history with a forced flush (capacity 0) on the shared-memory machine -/
example :
    let fam : Fam := ⟨[.requireStringKey, .jsonFormat], [.requireStringKey, .jsonFormat]⟩
    let s := run (B.State.init fam .sharedMemory [])
      [.openObj true 0 none, .enterCls (some 0), .call (.root 0) (.dSetitem (.s "a") (.leaf (.int 1))),
       .call (.root 0) (.dSetitem (.s "b") (.leaf (.int 2)))]
    s.size = 0 ∧ s.entries.length = 1 ∧ (s.store 0).isSome = true := by
  decide

end SC.Props
