/-
C15 — buffer size accounting is exact and the capacity of a backend-wide context is restored.
-/
import SC.Lemmas.BufSize
import SC.Lemmas.BufCap
import SC.Lemmas.BufBound
import SC.Lemmas.Buffer
namespace SC.Props
open SC SC.B

/-- C15, exactness: in every state reachable from the initial state of a buffered class by ANY
history — operations through root and child handles, `obj.buffered` and `buffer_backend(cap)`
enters and exits in any nesting, `set_buffer_capacity`, new objects, outside writes and
deletions, forced flushes, flushes that raise — the reported size equals the sum over the files
currently in the buffer of: the encoded length of the buffered contents (serialized strategy) /
1 if the buffered copy has unflushed modifications, else 0 (shared-memory strategy); and no
file is in the buffer twice. -/
theorem C15_size_exact (fam : Fam) (strategy : Buffering) (fl : List ((Int × Nat) × Nat))
    (history : List Step) :
    SizeOK (run (B.State.init fam strategy fl) history) :=
  (keeps_run _ history).2.2 (sizeOK_init fam strategy fl)

/-- the same as a one-step invariant (for every state, not only reachable ones) -/
theorem C15_size_step (s : B.State) (st : Step) (h : SizeOK s) : SizeOK (step s st) :=
  (keeps_step s st).2.2 h

/-- C15, bound and zero: in every state reachable from the initial state of a buffered class
(either strategy) by ANY history, once the operation has returned
* the reported size does not exceed the capacity in force, and
* if no buffered context is active — the backend-wide counter is 0 and no object is inside its
  `buffered` context — the buffer holds no file and the size is 0.
Both follow from the invariant `Good` (`SC/Lemmas/BufBound.lean`): exact accounting, plus "every
buffered file has a registered object that is currently buffered", plus the bound; a forced flush
leaves size 0 (`forced_flush_zero`) because it flushes every registered object. -/
theorem C15_bounded_and_zero_outside (fam : Fam) (strategy : Buffering) (fl : List ((Int × Nat) × Nat))
    (hst : strategy ≠ .none) (history : List Step) :
    let s := run (B.State.init fam strategy fl) history
    s.size ≤ s.capacity ∧
    (s.ctx = 0 → (∀ o ∈ s.objs, o.buffered = 0) → s.entries = [] ∧ s.size = 0) := by
  have h := good_run _ history (good_init fam strategy fl hst)
  exact ⟨h.2.2.2, fun hc ho => zero_outside _ h hc ho⟩

/-- the same as a one-step invariant, for every good state (not only reachable ones) -/
theorem C15_good_step (s : B.State) (st : Step) (h : Good s) : Good (step s st) := good_step s st h

/-- C15: a capacity-forced flush empties the accounting: whatever the capacity, the size after
`_flush_buffer(force=True)` is 0 -/
theorem C15_forced_flush_zero (s : B.State) (h : Good s) : (flushBuffer s true).1.size = 0 :=
  forced_flush_zero s h.1 h.2.2.1.weak ((keeps_flushBuffer s true).2.2 h.2.1)

/-- C15, capacity: `buffer_backend(cap)` pushes the capacity in force ... -/
theorem C15_enter_pushes (s : B.State) (cap : Option Nat) :
    (enterCls s cap).1.capStack = (cap.map (fun _ => s.capacity)) :: s.capStack :=
  (enterCls_pushes s cap).1

/-- ... and leaving the context puts it back, whether or not the flush on exit (or the flush the
restored, smaller capacity may force) raises. -/
theorem C15_capacity_restored (s : B.State) (saved : Option Nat) (rest : List (Option Nat))
    (hst : s.capStack = saved :: rest) :
    (exitCls s).1.capStack = rest ∧
    (exitCls s).1.capacity = (match saved with | some c => c | none => s.capacity) :=
  ⟨(exitCls_restores s saved rest hst).1, (exitCls_restores s saved rest hst).2.1⟩

/-- `set_buffer_capacity(n)` leaves capacity `n` also when the flush it forces raises -/
theorem C15_set_capacity (s : B.State) (n : Nat) : (setCapacity s n).1.capacity = n :=
  (setCapacity_capacity s n).1

/-- non-vacuity: a history with a forced flush (capacity 0) on the shared-memory machine -/
example :
    let fam : Fam := ⟨[.requireStringKey, .jsonFormat], [.requireStringKey, .jsonFormat]⟩
    let s := run (B.State.init fam .sharedMemory [])
      [.openObj true 0 none, .enterCls (some 0), .call (.root 0) (.dSetitem (.s "a") (.leaf (.int 1))),
       .call (.root 0) (.dSetitem (.s "b") (.leaf (.int 2)))]
    s.size = 0 ∧ s.entries.length = 1 ∧ (s.store 0).isSome = true := by
  decide

/-- C15 under I/O failures: the histories above include the step `setFailing rs` ("from now on
writing these files raises OSError"), so exactness, the bound and zero-outside hold through flushes
that fail half-way.  One such flush, spelled out: the write of a modified, non-conflicting buffered
file fails — the error is `OSError`, no file changes, and the file has left the buffer (so it is
no longer counted). -/
theorem C15_failed_write_leaves_buffer (s : B.State) (oi : Nat) (o : B.Obj) (force : Bool) (e : B.Entry)
    (hb : (!(s.isBuffered o) || force) = true) (he : s.entry o.res = some e)
    (hm : Tr.same e.contents e.hash = false) (hc : e.fmeta = s.stat o.res)
    (hmerge : (mergeInto s oi o e.contents).2 = none) (hw : s.failing.contains o.res = true) :
    (flushSer s oi o force).2 = some (.other "OSError") ∧
    (flushSer s oi o force).1.stores = s.stores ∧ (flushSer s oi o force).1.metas = s.metas ∧
    (flushSer s oi o force).1.entry o.res = none :=
  flushSer_write_fails s oi o force e hb he hm hc hmerge hw

/-- non-vacuity with a failing disk: two files buffered, the write of file 1 fails at the exit;
afterwards the size is 0, the buffer empty, file 0 written, file 1 still missing -/
example :
    let fam : Fam := ⟨[.requireStringKey, .jsonFormat], [.requireStringKey, .jsonFormat]⟩
    let s := run (B.State.init fam .sharedMemory [])
      [.openObj true 0 none, .openObj false 1 none, .enterCls none,
       .call (.root 0) (.dSetitem (.s "a") (.leaf (.int 1))), .call (.root 1) (.lAppend (.leaf (.int 2))),
       .setFailing [1], .exitCls]
    s.ctx = 0 ∧ s.entries.length = 0 ∧ s.size = 0 ∧ (s.store 0).isSome = true ∧ (s.store 1).isNone = true := by
  decide

/-- non-vacuity of the zero-outside clause: a history that buffers two files inside nested contexts
(one file over the capacity of the inner context) ends outside every context with an empty
buffer, size 0 and both files written -/
example :
    let fam : Fam := ⟨[.requireStringKey, .jsonFormat], [.requireStringKey, .jsonFormat]⟩
    let s := run (B.State.init fam .sharedMemory [])
      [.openObj true 0 none, .openObj false 1 none, .enterCls none, .enterObj 1,
       .call (.root 0) (.dSetitem (.s "a") (.leaf (.int 1))), .enterCls (some 0),
       .call (.root 1) (.lAppend (.leaf (.int 2))), .exitCls, .exitObj 1, .exitCls]
    s.ctx = 0 ∧ s.entries.length = 0 ∧ s.size = 0 ∧ (s.store 0).isSome = true ∧ (s.store 1).isSome = true := by
  decide

end SC.Props
