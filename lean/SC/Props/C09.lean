/-
C09 — concurrent writers are linearizable: no update is ever lost.
-/
import SC.Lemmas.Conc
import SC.Props.C04
namespace SC.Props
open SC.Conc

/-- C09, the machine: threads whose operations each run entirely inside one lock.  For EVERY
number of threads, every list of operations per thread (each any sequence of actions on the
shared state: the load-merge, the body, the save), every initial state and EVERY schedule that
runs the threads to completion: the final shared state (file content, in-memory copies,
recorded results) is exactly that of executing the operations one at a time in the order in
which they entered the lock, and that order contains each thread's operations, all of them, in
program order.  So no update is lost and every result is the result of a serial execution. -/
theorem C09_linearizable {Sh : Type} (σ0 : Sh) (progs : List (List (Conc.Op Sh))) (sched : List Nat)
    (hd : Done (run (init σ0 progs) sched)) :
    (run (init σ0 progs) sched).σ = serial σ0 (run (init σ0 progs) sched).log ∧
    ∀ t p, progs[t]? = some p →
      ((run (init σ0 progs) sched).log.filter (·.1 = t)).map (·.2) = p :=
  linearizable σ0 progs sched hd

/-- C09, the premise on the current source: every public mutator of every concrete class is
defined in the repository with the load-and-save (or overwrite) context as its outermost
bracket — so each mutator IS an operation of the machine above (that the bracket takes the
ROOT's lock first and releases it last, with all I/O and merges in between, is checked against
the event trace of every mutator on every run). -/
theorem C09_all_mutators_bracketed :
    ∀ f ∈ Generated.families, ∀ c ∈ f.classes, ∀ a ∈ c.api, BracketOK a = true :=
  C04_brackets_table

/-- non-vacuity: two writers, two operations each, an interleaved schedule that completes. -/
example :
    let inc : Nat → Nat := (· + 1)
    let dbl : Nat → Nat := (· * 2)
    let progs : List (List (Conc.Op Nat)) := [[[inc, inc], [dbl]], [[dbl, inc]]]
    let c := run (init 1 progs) [0, 1, 0, 1, 0, 0, 1, 1, 1, 1, 0, 0, 0, 0, 0, 1, 1, 1]
    c.σ = 14 ∧ c.owner = none ∧ c.ths.all (fun th => th.cur.isNone && th.todo.isEmpty) = true := by
  decide

end SC.Props
