/- C09 — placeholder; theorems follow -/
namespace SC.Props
theorem C09_placeholder : True := trivial
end SC.Props
