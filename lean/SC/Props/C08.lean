/-
C08 — a crash during a save leaves each JSON file wholly old or wholly new.
The theorems are about the sequence of file operations the save path issues (`SC/FS.lean`);
that the real code issues exactly these sequences is checked on every run (trace
correspondence), and `os.replace` being atomic is the assumption stated as `exec (.replace ..)`.
-/
import SC.Lemmas.FS
namespace SC.Props
open SC.FS

/-- C08, one save in atomic mode (`write_concern=True` or threading support active): for every
disk, every target, every blob of any length and EVERY crash point — between any two
operations, with any prefix of the bytes handed to `write()` in the file — the target holds its
complete previous content (or is still missing, if it was) or the complete new blob. -/
theorem C08_atomic_save (d : Disk) (target tmp : Path) (blob : Bytes) (hne : tmp ≠ target)
    (hclean : d.pend target = []) :
    ∀ c ∈ crashContents d (saveSteps true target tmp blob) target, c = d.get target ∨ c = some blob :=
  atomic_save_old_or_new d target tmp blob hne hclean

/-- ... and an uninterrupted save installs the blob and leaves no temporary file behind. -/
theorem C08_save_completes (d : Disk) (target tmp : Path) (blob : Bytes) (hne : tmp ≠ target) :
    (run d (saveSteps true target tmp blob)).get target = some blob ∧
    (run d (saveSteps true target tmp blob)).get tmp = none :=
  ⟨(atomic_save_completes d target tmp blob hne).1, (atomic_save_completes d target tmp blob hne).2.2⟩

/-- C08, buffer flushes of any number of files (either strategy — both flush through the same
save): if the flushed files are pairwise distinct and no temporary name is one of them, then
at every crash point of the whole flush EVERY flushed file is wholly old or wholly new. -/
theorem C08_flush_atomic (items : List FlushItem) (hd : (items.map (·.target)).Nodup)
    (ht : ∀ a ∈ items, ∀ b ∈ items, a.tmp ≠ b.target) (d : Disk)
    (hclean : ∀ it ∈ items, d.pend it.target = []) :
    ∀ it ∈ items, ∀ c ∈ crashContents d (flushSteps true items) it.target,
      c = d.get it.target ∨ c = some it.blob :=
  flush_old_or_new items hd ht d hclean

/-- C08, unserialisable content: serialisation comes first; when it raises no file operation is
issued, so in every write mode the only thing a crash can observe is the untouched file. -/
theorem C08_unserialisable_harmless (atomic : Bool) (d : Disk) (target tmp : Path) :
    crashContents d (saveProgram atomic target tmp none) target = observe d target := rfl

/-- the model can exhibit the failures the property excludes (so the theorems are about a crash
model strong enough to break an unsafe save): plain mode, and installing before closing. -/
theorem C08_plain_mode_not_atomic :
    ∃ c ∈ crashContents (⟨[(0, [1, 2, 3])], []⟩ : Disk) (saveSteps false 0 9 [7, 8]) 0,
      c ≠ some [1, 2, 3] ∧ c ≠ some [7, 8] :=
  plain_save_can_truncate
theorem C08_replace_before_close_not_atomic :
    ∃ c ∈ crashContents (⟨[(0, [1, 2, 3])], []⟩ : Disk)
        [.openTrunc 9, .write 9 [7, 8], .replace 9 0, .close 0] 0,
      c ≠ some [1, 2, 3] ∧ c ≠ some [7, 8] :=
  replace_before_close_not_atomic

end SC.Props
