/-
Types of the tables the translator (`harness/extract.py`) regenerates from the
source on every run (`SC/Generated/Tables.lean`), and the decidable side
conditions the general theorems need from them.
-/
import SC.Tree
namespace SC

inductive Store | json | redis | mongo | zarr | unknownStore
deriving DecidableEq, Repr

inductive Buffering | none | serialized | sharedMemory
deriving DecidableEq, Repr, Inhabited

/-- context managers a method body is wrapped in (from its AST) -/
inductive Ctx where
  | loadAndSave | suspendSync | threadLock | bufferLock | overwrite
  | unknown (name : String)
deriving DecidableEq, Repr

structure MethodSummary where
  ctxs : List Ctx
  validateBefore : Bool      -- `self._validate(..)` before the first `with`
  rebindsData : Bool         -- contains `self._data = ...`
  explicitLoad : Bool        -- calls `self._load()`
  explicitSave : Bool        -- calls `self._save()`
deriving DecidableEq, Repr

structure ApiEntry where
  name : String
  mutates : Bool
  definedInRepo : Bool       -- false: inherited from a collections.abc mix-in
  summary : Option MethodSummary
deriving DecidableEq, Repr

structure ClassInfo where
  name : String
  isDict : Bool
  validators : List Validator
  supportsThreading : Bool
  attrAccess : Bool
  protectedKeys : List String
  instAttrs : List String
  /-- every non-dunder name that any method of the class or its bases (package source) assigns on
  `self` (`self.x = …`, augmented and annotated assignments included), read from the AST -/
  assignedAttrs : List String
  classAttrs : List String
  childDict : String
  childList : String
  /-- class picked by `_from_base` when the data is a synced dict / list of ANOTHER family -/
  childDictForeign : String
  childListForeign : String
  api : List ApiEntry
  /-- public mutators the in-place merge `_update` calls on `self` (each would take the thread lock) -/
  mergeCalls : List String
  /-- contexts the merge enters -/
  mergeCtxs : List Ctx
deriving Repr

structure FamInfo where
  backend : String
  store : Store
  buffering : Buffering
  classes : List ClassInfo
deriving Repr

inductive PredClass | typeDetermined | instanceDependentOnNdarray | unknownPred
deriving DecidableEq, Repr

inductive BlocklistMode | exactType | subclassAware | unknownMode
deriving DecidableEq, Repr

/-- what the serialized buffer's `_hash` computes over the encoded bytes, read from its AST: the
hexdigest of a `hashlib` hash from the list the translator knows as collision-resistant for this
purpose (md5, sha1, sha2/sha3, blake2), or anything else -/
inductive HashKind | cryptographic | otherHash
deriving DecidableEq, Repr

structure ResolverInfo where
  name : String
  preds : List (String × PredClass)
  blocklist : List String
deriving Repr

namespace FamInfo
def dictClass (f : FamInfo) : Option ClassInfo := f.classes.find? (·.isDict)
def listClass (f : FamInfo) : Option ClassInfo := f.classes.find? (fun c => !c.isDict)
/-- the model's view of a family: validators of its dict and list class -/
def toFam (f : FamInfo) : Fam :=
  ⟨(f.dictClass.map (·.validators)).getD [], (f.listClass.map (·.validators)).getD []⟩
def attr (f : FamInfo) : Bool := (f.dictClass.map (·.attrAccess)).getD false
end FamInfo

end SC
