import SC.Conc
namespace SC.Conc

variable {Sh : Type}

theorem Op.apply_cons (f : Sh → Sh) (fs : Op Sh) (s : Sh) : Op.apply (f :: fs) s = Op.apply fs (f s) := rfl
theorem Op.apply_nil (s : Sh) : Op.apply ([] : Op Sh) s = s := rfl

theorem serial_append (σ0 : Sh) (log : List (Nat × Op Sh)) (e : Nat × Op Sh) :
    serial σ0 (log ++ [e]) = e.2.apply (serial σ0 log) := by
  simp [serial, List.foldl_append]

/-- the actions the lock owner still has to perform -/
def pending (c : Cfg Sh) : Op Sh :=
  match c.owner with
  | none => []
  | some t => ((c.ths[t]?).bind (·.cur)).getD []

/-- the invariant of the machine -/
structure Inv (σ0 : Sh) (progs : List (List (Op Sh))) (c : Cfg Sh) : Prop where
  /-- exactly the lock owner is inside a critical section -/
  inside : ∀ t th, c.ths[t]? = some th → (th.cur.isSome ↔ c.owner = some t)
  /-- the owner is an existing thread -/
  ownerOk : ∀ t, c.owner = some t → ∃ th, c.ths[t]? = some th
  /-- if the owner finished its remaining actions, the state would be the serial result of the log -/
  state : (pending c).apply c.σ = serial σ0 c.log
  /-- the log restricted to a thread, followed by what it still has to issue, is its program -/
  len : c.ths.length = progs.length
  prog : ∀ t th, c.ths[t]? = some th →
    progs[t]? = some ((c.log.filter (·.1 = t)).map (·.2) ++ th.todo)
  /-- only existing threads enter the log -/
  logOk : ∀ e ∈ c.log, e.1 < c.ths.length

theorem inv_init (σ0 : Sh) (progs : List (List (Op Sh))) : Inv σ0 progs (init σ0 progs) where
  inside := by
    intro t th h
    simp only [init, List.getElem?_map] at h
    cases hp : progs[t]? with
    | none => simp [hp] at h
    | some p => simp [hp] at h; subst h; simp [init]
  ownerOk := by intro t h; simp [init] at h
  state := rfl
  len := by simp [init]
  prog := by
    intro t th h
    simp only [init, List.getElem?_map] at h
    cases hp : progs[t]? with
    | none => simp [hp] at h
    | some p => simp [hp] at h; subst h; simp [init]
  logOk := by intro e he; simp [init] at he

theorem filter_append_other {t u : Nat} (log : List (Nat × Op Sh)) (op : Op Sh) (h : u ≠ t) :
    ((log ++ [(t, op)]).filter (·.1 = u)) = log.filter (·.1 = u) := by
  simp [List.filter_append, List.filter_cons]
  exact fun e => h e.symm

theorem filter_append_same (t : Nat) (log : List (Nat × Op Sh)) (op : Op Sh) :
    ((log ++ [(t, op)]).filter (·.1 = t)) = log.filter (·.1 = t) ++ [(t, op)] := by
  simp [List.filter_append, List.filter_cons]

/-- every step preserves the invariant -/
theorem inv_step (σ0 : Sh) (progs : List (List (Op Sh))) (c : Cfg Sh) (t : Nat)
    (h : Inv σ0 progs c) : Inv σ0 progs (step c t) := by
  unfold step
  cases hth : c.ths[t]? with
  | none => exact h
  | some th =>
    have hlt : t < c.ths.length := (List.getElem?_eq_some_iff.mp hth).1
    simp only
    cases hcur : th.cur with
    | none =>
      simp only
      cases htodo : th.todo with
      | nil => exact h
      | cons op rest =>
        simp only
        by_cases hown : c.owner = none
        · -- acquire
          simp only [hown, if_true]
          refine ⟨?_, ?_, ?_, ?_, ?_, ?_⟩
          · intro u thu hu
            simp only [List.getElem?_set] at hu
            by_cases hut : t = u
            · subst hut
              simp only [hlt, if_true, Option.some.injEq] at hu
              subst hu; simp
            · simp only [hut, if_false] at hu
              have := h.inside u thu hu
              rw [hown] at this
              simp only [reduceCtorEq, iff_false] at this
              constructor
              · intro hs; exact absurd hs this
              · intro he; exact absurd (Option.some.inj he) hut
          · intro u hu
            simp only [Option.some.injEq] at hu
            subst hu
            exact ⟨⟨some op, rest⟩, by simp [hlt]⟩
          · -- state
            have hp : pending c = [] := by simp [pending, hown]
            have hs := h.state
            rw [hp, Op.apply_nil] at hs
            simp only [pending, List.getElem?_set, hlt, if_true, Option.bind_some, Option.getD_some]
            rw [serial_append, ← hs]
          · simp [h.len]
          · intro u thu hu
            simp only [List.getElem?_set] at hu
            by_cases hut : t = u
            · subst hut
              simp only [hlt, if_true, Option.some.injEq] at hu
              subst hu
              have := h.prog t th hth
              rw [htodo] at this
              rw [this, filter_append_same]
              simp
            · simp only [hut, if_false] at hu
              rw [filter_append_other _ _ (fun e => hut e.symm)]
              exact h.prog u thu hu
          · intro e he
            simp only [List.length_set]
            rcases List.mem_append.mp he with h1 | h2
            · exact h.logOk e h1
            · simp only [List.mem_cons, List.not_mem_nil, or_false] at h2
              subst h2; exact hlt
        · simp only [hown, if_false]; exact h
    | some acts =>
      have hisowner : c.owner = some t := (h.inside t th hth).mp (by simp [hcur])
      cases acts with
      | nil =>
        -- release
        simp only
        refine ⟨?_, ?_, ?_, ?_, ?_, by intro e he; simp only [List.length_set]; exact h.logOk e he⟩
        · intro u thu hu
          simp only [List.getElem?_set] at hu
          by_cases hut : t = u
          · subst hut
            simp only [hlt, if_true, Option.some.injEq] at hu
            subst hu; simp
          · simp only [hut, if_false] at hu
            have := h.inside u thu hu
            rw [hisowner] at this
            simp only [Option.some.injEq] at this
            constructor
            · intro hs; exact absurd (this.mp hs) hut
            · intro he; simp at he
        · intro u hu; simp at hu
        · have hp : pending c = [] := by simp [pending, hisowner, hth, hcur]
          have hs := h.state
          rw [hp] at hs
          simpa [pending] using hs
        · simp [h.len]
        · intro u thu hu
          simp only [List.getElem?_set] at hu
          by_cases hut : t = u
          · subst hut
            simp only [hlt, if_true, Option.some.injEq] at hu
            subst hu
            exact h.prog t th hth
          · simp only [hut, if_false] at hu
            exact h.prog u thu hu
      | cons f fs =>
        -- one action inside the critical section
        simp only
        refine ⟨?_, ?_, ?_, ?_, ?_, by intro e he; simp only [List.length_set]; exact h.logOk e he⟩
        · intro u thu hu
          simp only [List.getElem?_set] at hu
          by_cases hut : t = u
          · subst hut
            simp only [hlt, if_true, Option.some.injEq] at hu
            subst hu; simp [hisowner]
          · simp only [hut, if_false] at hu
            exact h.inside u thu hu
        · intro u hu
          have hu' : u = t := by rw [hisowner] at hu; exact (Option.some.inj hu).symm
          subst hu'
          exact ⟨⟨some fs, th.todo⟩, by simp [hlt]⟩
        · have hp : pending c = f :: fs := by simp [pending, hisowner, hth, hcur]
          have hs := h.state
          rw [hp, Op.apply_cons] at hs
          simp only [pending, hisowner, List.getElem?_set, hlt, if_true, Option.bind_some, Option.getD_some]
          exact hs
        · simp [h.len]
        · intro u thu hu
          simp only [List.getElem?_set] at hu
          by_cases hut : t = u
          · subst hut
            simp only [hlt, if_true, Option.some.injEq] at hu
            subst hu
            exact h.prog t th hth
          · simp only [hut, if_false] at hu
            exact h.prog u thu hu

theorem inv_run (σ0 : Sh) (progs : List (List (Op Sh))) (sched : List Nat) :
    ∀ c, Inv σ0 progs c → Inv σ0 progs (run c sched) := by
  induction sched with
  | nil => intro c h; exact h
  | cons t rest ih => intro c h; exact ih _ (inv_step σ0 progs c t h)

/-- every logged operation belongs to an existing thread -/
theorem logged_thread_exists (σ0 : Sh) (progs : List (List (Op Sh))) (sched : List Nat)
    (e : Nat × Op Sh) (he : e ∈ (run (init σ0 progs) sched).log) : e.1 < progs.length := by
  have h := inv_run σ0 progs sched _ (inv_init σ0 progs)
  rw [← h.len]; exact h.logOk e he

/-- when every thread has finished, nobody owns the lock -/
theorem done_owner {σ0 : Sh} {progs : List (List (Op Sh))} {c : Cfg Sh} (h : Inv σ0 progs c)
    (hd : Done c) : c.owner = none := by
  cases ho : c.owner with
  | none => rfl
  | some t =>
    obtain ⟨th, hth⟩ := h.ownerOk t ho
    have := (h.inside t th hth).mpr ho
    have hmem : th ∈ c.ths := List.mem_of_getElem? hth
    rw [(hd th hmem).1] at this
    simp at this

/-- LINEARIZABILITY: for every set of thread programs, every initial state and every schedule
that runs all threads to completion, the final state is the result of executing the operations
one at a time in the order in which they entered the lock, and that order is an interleaving of
the threads' programs (each thread's operations appear in it in program order, all of them). -/
theorem linearizable (σ0 : Sh) (progs : List (List (Op Sh))) (sched : List Nat)
    (hd : Done (run (init σ0 progs) sched)) :
    (run (init σ0 progs) sched).σ = serial σ0 (run (init σ0 progs) sched).log ∧
    ∀ t p, progs[t]? = some p →
      ((run (init σ0 progs) sched).log.filter (·.1 = t)).map (·.2) = p := by
  have h := inv_run σ0 progs sched _ (inv_init σ0 progs)
  refine ⟨?_, ?_⟩
  · have hs := h.state
    have ho := done_owner h hd
    simpa [pending, ho, Op.apply_nil] using hs
  · intro t p hp
    have hlt : t < (run (init σ0 progs) sched).ths.length := by
      rw [h.len]; exact (List.getElem?_eq_some_iff.mp hp).1
    have hth : (run (init σ0 progs) sched).ths[t]? = some ((run (init σ0 progs) sched).ths[t]) :=
      List.getElem?_eq_getElem hlt
    have := h.prog t _ hth
    have hmem := List.mem_of_getElem? hth
    rw [(hd _ hmem).2, List.append_nil, hp] at this
    exact (Option.some.inj this).symm

end SC.Conc

namespace SC.Conc.Locks

theorem le_sum_of_mem {l : List Nat} {x : Nat} (h : x ∈ l) : x ≤ l.sum := by
  induction l with
  | nil => simp at h
  | cons a as ih =>
    simp only [List.mem_cons] at h
    simp only [List.sum_cons]
    rcases h with rfl | h
    · omega
    · have := ih h; omega

/-- DEADLOCK FREEDOM by lock hierarchy: if every blocked thread waits for a lock ranked above
all locks it holds, no set of threads can be waiting for each other. -/
theorem no_deadlock (rank : Nat → Nat) (ths : List ThL) (ho : Ordered rank ths) :
    ¬ Deadlocked ths := by
  intro ⟨⟨th0, hth0, hw0⟩, hall⟩
  -- every blocked thread's awaited rank is exceeded by another blocked thread's
  have climb : ∀ k, ∃ th ∈ ths, ∃ w, th.waits = some w ∧ k ≤ rank w := by
    intro k
    induction k with
    | zero =>
      cases hw : th0.waits with
      | none => simp [hw] at hw0
      | some w => exact ⟨th0, hth0, w, hw, Nat.zero_le _⟩
    | succ k ih =>
      obtain ⟨th, hth, w, hw, hk⟩ := ih
      obtain ⟨u, hu, hwu, huw⟩ := hall th hth w hw
      cases hw' : u.waits with
      | none => simp [hw'] at huw
      | some w' =>
        have := ho u hu w' hw' w hwu
        exact ⟨u, hu, w', hw', by omega⟩
  let B := (ths.map (fun th => match th.waits with | some w => rank w | none => 0)).sum
  obtain ⟨th, hth, w, hw, hk⟩ := climb (B + 1)
  have : rank w ≤ B := by
    apply le_sum_of_mem
    exact List.mem_map.mpr ⟨th, hth, by simp [hw]⟩
  omega

/-- the hierarchy with a GATE: a thread may wait for a lock of rank `r` while holding locks of the
same rank, provided it holds the gate lock `g` (in the library: inside a buffered context the
first load of a file takes that file's lock while another file's lock is held - always under
the class-wide buffer lock) -/
def OrderedG (rank : Nat → Nat) (g r : Nat) (ths : List ThL) : Prop :=
  ∀ th ∈ ths, ∀ w, th.waits = some w → ∀ l ∈ th.holds,
    rank l < rank w ∨ (rank l = r ∧ rank w = r ∧ g ∈ th.holds)

/-- DEADLOCK FREEDOM with a gate lock: if (1) every blocked thread waits for a lock ranked above
all it holds, or of the gated rank while it holds the gate, (2) whoever holds a lock of the gated
rank holds the gate, (3) the gate is held by one thread at a time and is not itself of the gated
rank, (4) nobody waits for a lock it holds (the locks are re-entrant) - then no set of threads
can be waiting for each other. -/
theorem no_deadlock_gated (rank : Nat → Nat) (g r : Nat) (ths : List ThL)
    (ho : OrderedG rank g r ths)
    (hG : ∀ u ∈ ths, ∀ l ∈ u.holds, rank l = r → g ∈ u.holds)
    (hex : ∀ th ∈ ths, ∀ u ∈ ths, g ∈ th.holds → g ∈ u.holds → th = u)
    (hself : ∀ th ∈ ths, ∀ w, th.waits = some w → w ∉ th.holds) :
    ¬ Deadlocked ths := by
  intro ⟨⟨th0, hth0, hw0⟩, hall⟩
  have climb : ∀ k, ∃ th ∈ ths, ∃ w, th.waits = some w ∧ k ≤ rank w := by
    intro k
    induction k with
    | zero =>
      cases hw : th0.waits with
      | none => simp [hw] at hw0
      | some w => exact ⟨th0, hth0, w, hw, Nat.zero_le _⟩
    | succ k ih =>
      obtain ⟨th, hth, w, hw, hk⟩ := ih
      obtain ⟨u, hu, hwu, huw⟩ := hall th hth w hw
      cases hw' : u.waits with
      | none => simp [hw'] at huw
      | some w' =>
        rcases ho u hu w' hw' w hwu with hlt | ⟨_, hr', hgu⟩
        · exact ⟨u, hu, w', hw', by omega⟩
        · -- the gated case cannot be part of a deadlock: whoever holds w' holds the gate too
          exfalso
          obtain ⟨v, hv, hwv, _⟩ := hall u hu w' hw'
          have hgv := hG v hv w' hwv hr'
          have huv := hex u hu v hv hgu hgv
          subst huv
          exact hself u hu w' hw' hwv
  let B := (ths.map (fun th => match th.waits with | some w => rank w | none => 0)).sum
  obtain ⟨th, hth, w, hw, hk⟩ := climb (B + 1)
  have : rank w ≤ B := by
    apply le_sum_of_mem
    exact List.mem_map.mpr ⟨th, hth, by simp [hw]⟩
  omega

/-- the audit of acquisitions implies the hierarchy hypothesis: if every blocked thread's pending
acquisition passes `acquireOk` for the roles of the locks it holds, the threads are `Ordered`
for the rank `lock ↦ rank (role lock)` -/
theorem ordered_of_audit (role : Nat → Role) (ths : List ThL)
    (h : ∀ th ∈ ths, ∀ w, th.waits = some w → acquireOk (th.holds.map role) (role w) = true) :
    Ordered (fun l => (role l).rank) ths := by
  intro th hth w hw l hl
  have := h th hth w hw
  unfold acquireOk at this
  rw [List.all_eq_true] at this
  have := this (role l) (List.mem_map.mpr ⟨l, hl, rfl⟩)
  simpa using this

end SC.Conc.Locks

namespace SC.Conc.Bracket

/-- C10 (a): whatever raises — the load inside `__enter__`, the body, the save inside
`__exit__` — or nothing, buffered or not, with or without the initial load (root clear/reset):
after the operation no lock is held. -/
theorem no_lock_leaked : ∀ (buffered noLoad : Bool) (f : Fail), held (trace buffered noLoad f) [] = [] := by
  intro b n f; cases b <;> cases n <;> cases f <;> decide

/-- ... and the locks are always taken in the order buffer lock, then file lock. -/
theorem bracket_ordered : ∀ (buffered noLoad : Bool) (f : Fail), ordered (trace buffered noLoad f) [] = true := by
  intro b n f; cases b <;> cases n <;> cases f <;> decide

/-- the bracket as it was before the fix (no release when the load raises) does leak -/
theorem old_bracket_leaks : held [Ev.acq .file, .load] [] ≠ [] := by decide

end SC.Conc.Bracket

namespace SC.Conc.RW

/-- C14 is false of the design: a schedule in which the reader's suspend window covers the
writer's load and save; both are skipped and the writer's update never reaches the file. -/
theorem lost_update_schedule :
    ∃ sch : List Bool,
      (runRW ⟨5, 5, 0, 0, false⟩ writer reader sch).file = 5 ∧          -- the update (5 -> 6) is not in the file
      (runRW ⟨5, 5, 0, 0, false⟩ writer reader sch).lock = false ∧
      sch.count true = writer.length ∧ sch.count false = reader.length := by     -- both threads ran to completion
  refine ⟨[false, false, true, true, true, true, true, false, false], ?_⟩
  decide

/-- with the writer alone (any schedule that runs it to completion) the update is in the file -/
theorem writer_alone_updates :
    (runRW ⟨5, 5, 0, 0, false⟩ writer [] (List.replicate 5 true)).file = 6 := by decide

end SC.Conc.RW
