/-
C04 / C01 / C02 together, as ONE refinement step for a root handle: a public call through any
object bound to a resource behaves like the body of the operation applied to (a tree with exactly
the content of) the BACKEND'S CURRENT CONTENT — whatever the object's memory held — and, for a
mutator, the backend then holds exactly the body's result.
-/
import SC.Lemmas.Attach
import SC.Lemmas.Seq
namespace SC
open Tr

theorem loadRoot_eq (s : State) (oi : Nat) (o : Obj) (d : J) (ho : s.objs[oi]? = some o)
    (hst : s.store o.res = some d) :
    loadRoot s oi =
      ((((s.setObj oi { o with root := (updNode (s.fam o) o.root d s.next).val }).own oi s.next
          (updNode (s.fam o) o.root d s.next).next).addDetached oi (updNode (s.fam o) o.root d s.next).det),
       (updNode (s.fam o) o.root d s.next).err) := by
  unfold loadRoot
  simp only [ho, hst]

theorem objs_own (s : State) (a b c : Nat) : (s.own a b c).objs = s.objs := by
  unfold State.own; split <;> rfl
theorem stores_own (s : State) (a b c : Nat) : (s.own a b c).stores = s.stores := by
  unfold State.own; split <;> rfl

/-- THE REFINEMENT STEP (root handles).  Object `oi` is bound to a resource whose current content
is `d` (valid, no duplicate keys, of the object's kind); `oi`'s memory is ARBITRARY (stale, written
by nobody or by anyone).  For every operation that loads first and passes its pre-validation, the
call is: merge `d` into memory — giving a tree `t` with exactly the content of `d` — run the body
on `t`, and (mutators) write the result.  So the result and the new backend content are functions
of the backend's current content and the operation alone. -/
theorem call_root_refines (s : State) (oi : Nat) (o : Obj) (d : J) (op : Op)
    (ho : s.objs[oi]? = some o) (hst : s.store o.res = some d)
    (hv : Valid (s.fam o) d) (hwd : d.wf = true) (hwt : o.root.wf = true) (hk : sameKind o.root d = true)
    (hno : op.isOverwrite = false) (hns : op.skipsLoad = false)
    (hpre : preValidate (s.fam o) o.root.isDict op = none) :
    let t := (updNode (s.fam o) o.root d s.next).val
    let r := runBody (s.fam o) t op (loadRoot s oi).1.next
    Eqv t d ∧ t.wf = true ∧
    (call s (.root oi) op).2 = (match r.err with | some e => .error e | none => .ok r.out) ∧
    (op.isRead = false → (call s (.root oi) op).1.store o.res = some r.node.toBase) ∧
    (op.isRead = true → (call s (.root oi) op).1.stores = s.stores) := by
  have hlt : oi < s.objs.length := (List.getElem?_eq_some_iff.mp ho).1
  have herr : (updNode (s.fam o) o.root d s.next).err = none := updNode_sameKind_noerr _ d o.root s.next hv hk
  have hnn : d ≠ .leaf .null := by
    intro h; subst h; cases hr : o.root <;> simp [hr, sameKind] at hk
  have hpost := updNode_post (s.fam o) d o.root s.next hwd hwt hnn herr
  have hload := loadRoot_eq s oi o d ho hst
  have hlf : loadFor s oi true op = loadRoot s oi := by simp [loadFor, hno, hns]
  -- the object after the load
  have hobj1 : (loadRoot s oi).1.objs[oi]? = some { o with root := (updNode (s.fam o) o.root d s.next).val } := by
    rw [hload]
    show ((State.own _ _ _ _).objs)[oi]? = _
    rw [objs_own]
    show (s.objs.set oi _)[oi]? = _
    exact List.getElem?_set_self hlt
  have hnode1 : handleNode (loadRoot s oi).1 (.root oi) = some (updNode (s.fam o) o.root d s.next).val := by
    simp [handleNode, hobj1]
  have herr1 : (loadRoot s oi).2 = none := by rw [hload]; exact herr
  refine ⟨hpost.1, hpost.2, ?_, ?_, ?_⟩
  all_goals
    unfold call
    have hown : handleOwner s (.root oi) = some (oi, true) := by simp [handleOwner, hlt]
    have hn0 : handleNode s (.root oi) = some o.root := by simp [handleNode, ho]
    simp only [hown, hn0, ho]
    unfold callOn
    simp only [hpre, hlf, herr1, hnode1]
    unfold finishCall
  · -- the result
    simp only
    cases (runBody (s.fam o) (updNode (s.fam o) o.root d s.next).val op (loadRoot s oi).1.next).err <;> rfl
  · intro hm
    simp only [hm, Bool.false_eq_true, if_false]
    have hsave : ∀ (x : State) (ob : Obj), x.objs[oi]? = some ob → (saveRoot x oi).store ob.res = some ob.root.toBase := by
      intro x ob hx
      unfold saveRoot; simp only [hx]; exact State.store_setStore _ _ _
    have hobj2 : (applyBody (loadRoot s oi).1 (.root oi) oi
        (runBody (s.fam o) (updNode (s.fam o) o.root d s.next).val op (loadRoot s oi).1.next)).objs[oi]? =
        some { o with root := (runBody (s.fam o) (updNode (s.fam o) o.root d s.next).val op (loadRoot s oi).1.next).node } := by
      unfold applyBody
      show ((State.own _ _ _ _).objs)[oi]? = _
      rw [objs_own]
      unfold putNode
      simp only [hobj1]
      show ((loadRoot s oi).1.objs.set oi _)[oi]? = _
      have hlt1 : oi < (loadRoot s oi).1.objs.length := (List.getElem?_eq_some_iff.mp hobj1).1
      rw [List.getElem?_set_self hlt1]
    have := hsave _ _ hobj2
    split <;> exact this
  · intro hr
    simp only [hr, if_true]
    have : (applyBody (loadRoot s oi).1 (.root oi) oi
        (runBody (s.fam o) (updNode (s.fam o) o.root d s.next).val op (loadRoot s oi).1.next)).stores = s.stores := by
      rw [applyBody_stores, loadRoot_stores]
    split <;> exact this

end SC
