/-
C04 / C01 / C02 together, as ONE refinement step for a root handle: a public call through any
object bound to a resource behaves like the body of the operation applied to (a tree with exactly
the content of) the BACKEND'S CURRENT CONTENT — whatever the object's memory held — and, for a
mutator, the backend then holds exactly the body's result.
-/
import SC.Lemmas.Attach
import SC.Lemmas.Seq
import SC.Lemmas.IdInv
namespace SC
open Tr

theorem loadRoot_eq (s : State) (oi : Nat) (o : Obj) (d : J) (ho : s.objs[oi]? = some o)
    (hst : s.store o.res = some d) :
    loadRoot s oi =
      ((((s.setObj oi { o with root := (updNode (s.fam o) o.root d s.next).val }).own oi s.next
          (updNode (s.fam o) o.root d s.next).next).addDetached oi (updNode (s.fam o) o.root d s.next).det),
       (updNode (s.fam o) o.root d s.next).err) := by
  unfold loadRoot
  simp only [ho, hst]

theorem objs_own (s : State) (a b c : Nat) : (s.own a b c).objs = s.objs := by
  unfold State.own; split <;> rfl
theorem stores_own (s : State) (a b c : Nat) : (s.own a b c).stores = s.stores := by
  unfold State.own; split <;> rfl

/-- THE REFINEMENT STEP (root handles).  Object `oi` is bound to a resource whose current content
is `d` (valid, no duplicate keys, of the object's kind); `oi`'s memory is ARBITRARY (stale, written
by nobody or by anyone).  For every operation that loads first and passes its pre-validation, the
call is: merge `d` into memory — giving a tree `t` with exactly the content of `d` — run the body
on `t`, and (mutators) write the result.  So the result and the new backend content are functions
of the backend's current content and the operation alone. -/
theorem call_root_refines (s : State) (oi : Nat) (o : Obj) (d : J) (op : Op)
    (ho : s.objs[oi]? = some o) (hst : s.store o.res = some d)
    (hv : Valid (s.fam o) d) (hwd : d.wf = true) (hwt : o.root.wf = true) (hk : sameKind o.root d = true)
    (hno : op.isOverwrite = false) (hns : op.skipsLoad = false)
    (hpre : preValidate (s.fam o) o.root.isDict op = none) :
    let t := (updNode (s.fam o) o.root d s.next).val
    let r := runBody (s.fam o) t op (loadRoot s oi).1.next
    Eqv t d ∧ t.wf = true ∧
    (call s (.root oi) op).2 = (match r.err with | some e => .error e | none => .ok r.out) ∧
    (op.isRead = false → (call s (.root oi) op).1.store o.res = some r.node.toBase) ∧
    (op.isRead = true → (call s (.root oi) op).1.stores = s.stores) := by
  have hlt : oi < s.objs.length := (List.getElem?_eq_some_iff.mp ho).1
  have herr : (updNode (s.fam o) o.root d s.next).err = none := updNode_sameKind_noerr _ d o.root s.next hv hk
  have hnn : d ≠ .leaf .null := by
    intro h; subst h; cases hr : o.root <;> simp [hr, sameKind] at hk
  have hpost := updNode_post (s.fam o) d o.root s.next hwd hwt hnn herr
  have hload := loadRoot_eq s oi o d ho hst
  have hlf : loadFor s oi true op = loadRoot s oi := by simp [loadFor, hno, hns]
  -- the object after the load
  have hobj1 : (loadRoot s oi).1.objs[oi]? = some { o with root := (updNode (s.fam o) o.root d s.next).val } := by
    rw [hload]
    show ((State.own _ _ _ _).objs)[oi]? = _
    rw [objs_own]
    show (s.objs.set oi _)[oi]? = _
    exact List.getElem?_set_self hlt
  have hnode1 : handleNode (loadRoot s oi).1 (.root oi) = some (updNode (s.fam o) o.root d s.next).val := by
    simp [handleNode, hobj1]
  have herr1 : (loadRoot s oi).2 = none := by rw [hload]; exact herr
  refine ⟨hpost.1, hpost.2, ?_, ?_, ?_⟩
  all_goals
    unfold call
    have hown : handleOwner s (.root oi) = some (oi, true) := by simp [handleOwner, hlt]
    have hn0 : handleNode s (.root oi) = some o.root := by simp [handleNode, ho]
    simp only [hown, hn0, ho]
    unfold callOn
    simp only [hpre, hlf, herr1, hnode1]
    unfold finishCall
  · -- the result
    simp only
    cases (runBody (s.fam o) (updNode (s.fam o) o.root d s.next).val op (loadRoot s oi).1.next).err <;> rfl
  · intro hm
    simp only [hm, Bool.false_eq_true, if_false]
    have hsave : ∀ (x : State) (ob : Obj), x.objs[oi]? = some ob → (saveRoot x oi).store ob.res = some ob.root.toBase := by
      intro x ob hx
      unfold saveRoot; simp only [hx]; exact State.store_setStore _ _ _
    have hobj2 : (applyBody (loadRoot s oi).1 (.root oi) oi
        (runBody (s.fam o) (updNode (s.fam o) o.root d s.next).val op (loadRoot s oi).1.next)).objs[oi]? =
        some { o with root := (runBody (s.fam o) (updNode (s.fam o) o.root d s.next).val op (loadRoot s oi).1.next).node } := by
      unfold applyBody
      show ((State.own _ _ _ _).objs)[oi]? = _
      rw [objs_own]
      unfold putNode
      simp only [hobj1]
      show ((loadRoot s oi).1.objs.set oi _)[oi]? = _
      have hlt1 : oi < (loadRoot s oi).1.objs.length := (List.getElem?_eq_some_iff.mp hobj1).1
      rw [List.getElem?_set_self hlt1]
    have := hsave _ _ hobj2
    split <;> exact this
  · intro hr
    simp only [hr, if_true]
    have : (applyBody (loadRoot s oi).1 (.root oi) oi
        (runBody (s.fam o) (updNode (s.fam o) o.root d s.next).val op (loadRoot s oi).1.next)).stores = s.stores := by
      rw [applyBody_stores, loadRoot_stores]
    split <;> exact this

/-! ### child handles -/

theorem findSome?_at {α β : Type} (f : α → Option β) : ∀ (l : List α) (i : Nat) (a : α) (b : β),
    l[i]? = some a → f a = some b → (∀ j a', j < i → l[j]? = some a' → f a' = none) →
    l.findSome? f = some b
  | [], i, _, _, h, _, _ => by simp at h
  | x :: xs, 0, a, b, h, hf, _ => by
    simp only [List.getElem?_cons_zero, Option.some.injEq] at h; subst h
    simp [List.findSome?, hf]
  | x :: xs, i + 1, a, b, h, hf, hn => by
    simp only [List.getElem?_cons_succ] at h
    have hx : f x = none := hn 0 x (by omega) (by simp)
    simp only [List.findSome?, hx]
    exact findSome?_at f xs i a b h hf (fun j a' hj ha' => hn (j + 1) a' (by omega) (by simpa using ha'))

/-- the node a handle denotes, when its identity occurs in object `oi`'s tree and in no earlier one -/
theorem findNode_at (s : State) (oi id : Nat) (o : Obj) (c : T)
    (ho : s.objs[oi]? = some o) (hf : Tr.find id o.root = some c)
    (hother : ∀ j o', j < oi → s.objs[j]? = some o' → Tr.find id o'.root = none) :
    findNode s id = some c := by
  unfold findNode
  rw [findSome?_at (fun o => Tr.find id o.root) s.objs oi o c ho hf hother]

/-- THE REFINEMENT STEP FOR A CHILD HANDLE.  The user holds a nested collection: the node with
identity `id`, which sits at path `p` (any depth) of object `oi`'s tree.  The backend currently
holds `d` (written by whoever), valid, with containers of the same kind along `p`; `oi`'s memory is
ARBITRARY otherwise.  Identities in `oi`'s tree are pairwise distinct (they are Python objects) and
`id` occurs in no object before `oi`.  Then a call through the handle: loads the ROOT, after which
the handle still denotes the node at `p` — same identity — whose content is exactly the data at `p`;
runs the body on that node; and (mutators) leaves the backend holding the merged content with the
body's result AT PATH `p` and everything else as the backend had it. -/
theorem call_child_refines (s : State) (oi id : Nat) (o : Obj) (d : J) (p : List Seg) (c : T) (op : Op)
    (ho : s.objs[oi]? = some o) (hst : s.store o.res = some d) (hown : s.ownerOf id = some oi)
    (hsub : Tr.sub p o.root = some c) (hid : c.id? = some id)
    (hnd : (Tr.ids o.root).Nodup) (hlt : ∀ i ∈ Tr.ids o.root, i < s.next)
    (hother : ∀ j o', j < oi → s.objs[j]? = some o' → id ∉ Tr.ids o'.root)
    (hv : Valid (s.fam o) d) (hwd : d.wf = true) (hwt : o.root.wf = true)
    (hk : kindsMatch p o.root d = true) (hns : op.skipsLoad = false)
    (hpre : preValidate (s.fam o) c.isDict op = none) :
    ∃ c' dc, Tr.sub p (updNode (s.fam o) o.root d s.next).val = some c' ∧ c'.id? = some id ∧
      Tr.sub p d = some dc ∧ Eqv c' dc ∧
      Eqv (updNode (s.fam o) o.root d s.next).val d ∧
      (call s (.node id) op).2 =
        (match (runBody (s.fam o) c' op (loadRoot s oi).1.next).err with
         | some e => .error e
         | none => .ok (runBody (s.fam o) c' op (loadRoot s oi).1.next).out) ∧
      (op.isRead = false → (call s (.node id) op).1.store o.res =
        some (Tr.setSub p (updNode (s.fam o) o.root d s.next).val.toBase
          (runBody (s.fam o) c' op (loadRoot s oi).1.next).node.toBase)) ∧
      (op.isRead = true → (call s (.node id) op).1.stores = s.stores) := by
  have hlto : oi < s.objs.length := (List.getElem?_eq_some_iff.mp ho).1
  have hkroot : sameKind o.root d = true := kindsMatch_sameKind p o.root d hk
  have hnn : d ≠ .leaf .null := by
    intro h; subst h; cases hr : o.root <;> simp [hr, sameKind] at hkroot
  obtain ⟨herr, c0, c', h1, h2, h3, h4⟩ := attach (s.fam o) p o.root d s.next hv hwd hwt hk
  rw [hsub] at h1
  simp only [Option.some.injEq] at h1
  subst h1
  have hid' : c'.id? = some id := by rw [h3, hid]
  have hpost := updNode_post (s.fam o) d o.root s.next hwd hwt hnn herr
  obtain ⟨dc, hdc, hcdc⟩ := eqv_sub p _ d c' hpost.1 h2
  have hids := updNode_ids (s.fam o) d o.root s.next hnd hlt
  -- the state after the load
  have hload := loadRoot_eq s oi o d ho hst
  have hlf : loadFor s oi false op = loadRoot s oi := by simp [loadFor, hns]
  have hobjs1 : (loadRoot s oi).1.objs = s.objs.set oi { o with root := (updNode (s.fam o) o.root d s.next).val } := by
    rw [hload]
    show ((State.own _ _ _ _).objs) = _
    rw [objs_own]
    rfl
  have hobj1 : (loadRoot s oi).1.objs[oi]? = some { o with root := (updNode (s.fam o) o.root d s.next).val } := by
    rw [hobjs1]; exact List.getElem?_set_self hlto
  have herr1 : (loadRoot s oi).2 = none := by rw [hload]; exact herr
  -- the handle before and after the load
  have hfind0 : findNode s id = some c :=
    findNode_at s oi id o c ho (find_of_sub p o.root c id hnd hsub hid)
      (fun j o' hj ho' => find_none_of_not_mem id o'.root (hother j o' hj ho'))
  have hfind1 : findNode (loadRoot s oi).1 id = some c' := by
    refine findNode_at _ oi id _ c' hobj1 (find_of_sub p _ c' id hids.2.1 h2 hid') ?_
    intro j o' hj ho'
    rw [hobjs1, List.getElem?_set_ne (by omega)] at ho'
    exact find_none_of_not_mem id o'.root (hother j o' hj ho')
  have hownr : handleOwner s (.node id) = some (oi, false) := by simp [handleOwner, hown]
  have hn0 : handleNode s (.node id) = some c := hfind0
  have hnode1 : handleNode (loadRoot s oi).1 (.node id) = some c' := hfind1
  refine ⟨c', dc, h2, hid', hdc, hcdc, hpost.1, ?_, ?_, ?_⟩
  all_goals
    unfold call
    simp only [hownr, hn0, ho]
    unfold callOn
    simp only [hpre, hlf, herr1, hnode1]
    unfold finishCall
  · simp only
    cases (runBody (s.fam o) c' op (loadRoot s oi).1.next).err <;> rfl
  · intro hm
    simp only [hm, Bool.false_eq_true, if_false]
    have hsave : ∀ (x : State) (ob : Obj), x.objs[oi]? = some ob → (saveRoot x oi).store ob.res = some ob.root.toBase := by
      intro x ob hx
      unfold saveRoot; simp only [hx]; exact State.store_setStore _ _ _
    have hobj2 : (applyBody (loadRoot s oi).1 (.node id) oi
        (runBody (s.fam o) c' op (loadRoot s oi).1.next)).objs[oi]? =
        some { o with root := (Tr.replace id (runBody (s.fam o) c' op (loadRoot s oi).1.next).node
          (updNode (s.fam o) o.root d s.next).val) } := by
      unfold applyBody
      show ((State.own _ _ _ _).objs)[oi]? = _
      rw [objs_own]
      unfold putNode replaceNode
      simp only [List.getElem?_map, hobj1, Option.map_some]
    have := hsave _ _ hobj2
    simp only at this
    rw [replace_of_sub _ p _ c' id hids.2.1 h2 hid', toBase_setSub] at this
    split <;> exact this
  · intro hr
    simp only [hr, if_true]
    have : (applyBody (loadRoot s oi).1 (.node id) oi
        (runBody (s.fam o) c' op (loadRoot s oi).1.next)).stores = s.stores := by
      rw [applyBody_stores, loadRoot_stores]
    split <;> exact this

end SC
