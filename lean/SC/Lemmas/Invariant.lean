/-
C11 — forbidden data never reaches memory, along every operation: the body of every public
operation keeps the node (and everything that falls out of it) within the family's requirement,
given that the validation that precedes the operation passed.
-/
import SC.Lemmas.Tree
import SC.Lemmas.Seq
namespace SC
open Tr

section
variable {ι : Type} (kr : KeyReq) (lr : LeafReq)

theorem allKV_iff {kvs : List (Key × Tr ι)} :
    Tr.allKV kr lr kvs = true ↔ ∀ p ∈ kvs, kr.ok p.1 = true ∧ Tr.all kr lr p.2 = true := by
  induction kvs with
  | nil => simp [Tr.allKV]
  | cons q qs ih =>
    obtain ⟨k, v⟩ := q
    simp [Tr.allKV, ih, and_assoc]

theorem allL_take {xs : List (Tr ι)} (n : Nat) (h : Tr.allL kr lr xs = true) : Tr.allL kr lr (xs.take n) = true := by
  rw [allL_iff] at h ⊢; exact fun x hx => h x (List.mem_of_mem_take hx)
theorem allL_drop {xs : List (Tr ι)} (n : Nat) (h : Tr.allL kr lr xs = true) : Tr.allL kr lr (xs.drop n) = true := by
  rw [allL_iff] at h ⊢; exact fun x hx => h x (List.mem_of_mem_drop hx)
theorem allL_set {xs : List (Tr ι)} (n : Nat) (v : Tr ι) (h : Tr.allL kr lr xs = true) (hv : Tr.all kr lr v = true) :
    Tr.allL kr lr (xs.set n v) = true := by
  rw [allL_iff] at h ⊢
  intro x hx
  rcases List.mem_or_eq_of_mem_set hx with h1 | h1
  · exact h x h1
  · exact h1 ▸ hv
theorem allL_eraseIdx {xs : List (Tr ι)} (n : Nat) (h : Tr.allL kr lr xs = true) : Tr.allL kr lr (xs.eraseIdx n) = true := by
  rw [allL_iff] at h ⊢; exact fun x hx => h x (List.mem_of_mem_eraseIdx hx)
theorem allL_reverse {xs : List (Tr ι)} (h : Tr.allL kr lr xs = true) : Tr.allL kr lr xs.reverse = true := by
  rw [allL_iff] at h ⊢; exact fun x hx => h x (List.mem_reverse.mp hx)
theorem allL_getElem? {xs : List (Tr ι)} {n : Nat} (h : Tr.allL kr lr xs = true) :
    Tr.allL kr lr (xs[n]?).toList = true := by
  rw [allL_iff] at h ⊢
  intro x hx
  cases hn : xs[n]? with
  | none => simp [hn] at hx
  | some y =>
    simp only [hn, Option.toList_some, List.mem_cons, List.not_mem_nil, or_false] at hx
    subst hx; exact h _ (List.mem_of_getElem? hn)
theorem allL_filterMap_get {xs : List (Tr ι)} (is : List Nat) (h : Tr.allL kr lr xs = true) :
    Tr.allL kr lr (is.filterMap (xs[·]?)) = true := by
  rw [allL_iff] at h ⊢
  intro x hx
  obtain ⟨i, _, hi⟩ := List.mem_filterMap.mp hx
  exact h _ (List.mem_of_getElem? hi)
theorem allL_eraseMany {xs : List (Tr ι)} (is : List Nat) (h : Tr.allL kr lr xs = true) :
    Tr.allL kr lr (Py.eraseMany xs is) = true := by
  rw [allL_iff] at h ⊢
  intro x hx
  unfold Py.eraseMany at hx
  obtain ⟨p, hp, rfl⟩ := List.mem_map.mp hx
  have := (List.mem_filter.mp hp).1
  exact h _ (List.mem_zipIdx' this |>.2 ▸ List.getElem_mem _) 
theorem allL_setMany : ∀ (xs : List (Tr ι)) (is : List Nat) (vs : List (Tr ι)), Tr.allL kr lr xs = true →
    Tr.allL kr lr vs = true → Tr.allL kr lr (Py.setMany xs is vs) = true
  | xs, [], _, h, _ => by simpa [Py.setMany] using h
  | xs, _ :: _, [], h, _ => by simpa [Py.setMany] using h
  | xs, i :: is, v :: vs, h, hv => by
    simp only [Tr.allL, Bool.and_eq_true] at hv
    simp only [Py.setMany]
    exact allL_setMany _ is vs (allL_set kr lr i v h hv.1) hv.2
theorem allL_insertAt {xs : List (Tr ι)} (i : Int) (v : Tr ι) (h : Tr.allL kr lr xs = true) (hv : Tr.all kr lr v = true) :
    Tr.allL kr lr (Py.insertAt xs i v) = true := by
  unfold Py.insertAt
  simp only
  rw [allL_append, allL_take kr lr _ h]
  simp [Tr.allL, hv, allL_drop kr lr _ h]

/-- what a plain dict method is given must be within the requirement -/
def DictMut.Ok : DictMut (Tr ι) → Prop
  | .setitem k v => kr.ok k = true ∧ Tr.all kr lr v = true
  | _ => True

def ListMut.Ok : ListMut (Tr ι) → Prop
  | .setitem _ v => Tr.all kr lr v = true
  | .setslice _ vs => Tr.allL kr lr vs = true
  | .insert _ v => Tr.all kr lr v = true
  | .append v => Tr.all kr lr v = true
  | .extend vs => Tr.allL kr lr vs = true
  | _ => True

theorem allL_single {v : Tr ι} (h : Tr.all kr lr v = true) : Tr.allL kr lr [v] = true := by simp [Tr.allL, h]

theorem dictMut_ok (kvs : List (Key × Tr ι)) (m : DictMut (Tr ι)) (h : Tr.allKV kr lr kvs = true)
    (hm : DictMut.Ok kr lr m) :
    ∀ r, dictMut kvs m = .ok r → Tr.allKV kr lr r.data = true ∧ Tr.allL kr lr r.removed = true := by
  intro r hr
  cases m with
  | setitem k v =>
    simp only [dictMut, Except.ok.injEq] at hr; subst hr
    refine ⟨allKV_setKey kr lr h hm.1 hm.2, ?_⟩
    cases hl : Tr.lookup k kvs with
    | none => simp [Tr.allL]
    | some old => simpa using allL_single kr lr (allKV_lookup kr lr h hl).2
  | delitem k =>
    simp only [dictMut] at hr
    cases hl : Tr.lookup k kvs with
    | none => simp [hl] at hr
    | some old =>
      simp only [hl, Except.ok.injEq] at hr; subst hr
      exact ⟨allKV_delKey kr lr k h, allL_single kr lr (allKV_lookup kr lr h hl).2⟩
  | pop k dflt =>
    simp only [dictMut] at hr
    cases hl : Tr.lookup k kvs with
    | none => simp only [hl, Except.ok.injEq] at hr; subst hr; exact ⟨h, by simp [Tr.allL]⟩
    | some old =>
      simp only [hl, Except.ok.injEq] at hr; subst hr
      exact ⟨allKV_delKey kr lr k h, allL_single kr lr (allKV_lookup kr lr h hl).2⟩
  | popitem =>
    simp only [dictMut] at hr
    cases hl : kvs.getLast? with
    | none => simp [hl] at hr
    | some p =>
      obtain ⟨k, v⟩ := p
      simp only [hl, Except.ok.injEq] at hr; subst hr
      rw [allKV_iff] at h
      refine ⟨?_, allL_single kr lr (h (k, v) (List.mem_of_getLast? hl)).2⟩
      rw [allKV_iff]
      exact fun q hq => h q ((List.dropLast_sublist _).subset hq)
  | clear =>
    simp only [dictMut, Except.ok.injEq] at hr; subst hr
    exact ⟨by simp [Tr.allKV], allL_of_allKV_values kr lr h⟩

theorem listMut_ok (xs : List (Tr ι)) (m : ListMut (Tr ι)) (h : Tr.allL kr lr xs = true)
    (hm : ListMut.Ok kr lr m) :
    ∀ r, listMut xs m = .ok r → Tr.allL kr lr r.data = true ∧ Tr.allL kr lr r.removed = true := by
  intro r hr
  cases m with
  | setitem i v =>
    simp only [listMut] at hr
    cases hn : Py.normIdx xs.length i with
    | none => simp [hn] at hr
    | some j =>
      simp only [hn, Except.ok.injEq] at hr; subst hr
      exact ⟨allL_set kr lr j v h hm, allL_getElem? kr lr h⟩
  | setslice s vs =>
    simp only [listMut] at hr
    cases hs : Py.sliceIndices s xs.length with
    | none => simp [hs] at hr
    | some t =>
      obtain ⟨start, stop, step⟩ := t
      simp only [hs] at hr
      split at hr
      · simp only [Except.ok.injEq] at hr; subst hr
        refine ⟨?_, allL_take kr lr _ (allL_drop kr lr _ h)⟩
        have hm' : Tr.allL kr lr vs = true := hm
        rw [allL_append, allL_append, allL_take kr lr _ h, allL_drop kr lr _ h, hm']
        rfl
      · split at hr
        · simp at hr
        · simp only [Except.ok.injEq] at hr; subst hr
          exact ⟨allL_setMany kr lr _ _ _ h hm, allL_filterMap_get kr lr _ h⟩
  | delitem ix =>
    cases ix with
    | i i =>
      simp only [listMut] at hr
      cases hn : Py.normIdx xs.length i with
      | none => simp [hn] at hr
      | some j =>
        simp only [hn, Except.ok.injEq] at hr; subst hr
        exact ⟨allL_eraseIdx kr lr j h, allL_getElem? kr lr h⟩
    | sl s =>
      simp only [listMut] at hr
      cases hs : Py.sliceIndices s xs.length with
      | none => simp [hs] at hr
      | some t =>
        obtain ⟨start, stop, step⟩ := t
        simp only [hs, Except.ok.injEq] at hr; subst hr
        exact ⟨allL_eraseMany kr lr _ h, allL_filterMap_get kr lr _ h⟩
  | insert i v =>
    simp only [listMut, Except.ok.injEq] at hr; subst hr
    exact ⟨allL_insertAt kr lr i v h hm, by simp [Tr.allL]⟩
  | append v =>
    simp only [listMut, Except.ok.injEq] at hr; subst hr
    have hm' : Tr.all kr lr v = true := hm
    exact ⟨by rw [allL_append, h]; simp [Tr.allL, hm'], by simp [Tr.allL]⟩
  | extend vs =>
    simp only [listMut, Except.ok.injEq] at hr; subst hr
    have hm' : Tr.allL kr lr vs = true := hm
    exact ⟨by rw [allL_append, h, hm']; rfl, by simp [Tr.allL]⟩
  | remove v =>
    simp only [listMut] at hr
    cases hf : Py.findFrom (fun x => Tr.pyEq x v) xs 0 xs.length with
    | none => simp [hf] at hr
    | some j =>
      simp only [hf, Except.ok.injEq] at hr; subst hr
      exact ⟨allL_eraseIdx kr lr j h, allL_getElem? kr lr h⟩
  | clear =>
    simp only [listMut, Except.ok.injEq] at hr; subst hr
    exact ⟨by simp [Tr.allL], h⟩
  | pop i =>
    simp only [listMut] at hr
    cases hn : Py.normIdx xs.length i with
    | none => simp [hn] at hr
    | some j =>
      simp only [hn] at hr
      cases hx : xs[j]? with
      | none => simp [hx] at hr
      | some x =>
        simp only [hx, Except.ok.injEq] at hr; subst hr
        refine ⟨allL_eraseIdx kr lr j h, ?_⟩
        have := allL_getElem? kr lr (n := j) h
        simpa [hx] using this
  | reverse =>
    simp only [listMut, Except.ok.injEq] at hr; subst hr
    exact ⟨allL_reverse kr lr h, by simp [Tr.allL]⟩

end

/-! ### the body of every operation -/

section body
variable (kr : KeyReq) (lr : LeafReq) (fam : Fam)
variable (hd : keyReq fam.dictV = kr ∧ leafReq fam.dictV = lr)
variable (hl : keyReq fam.listV = kr ∧ leafReq fam.listV = lr)

theorem lr_ok_str (s : String) : lr.ok (.str s) = true := by cases lr <;> simp [LeafReq.ok, Scalar.isClean]
theorem lr_ok_int (i : Int) : lr.ok (.int i) = true := by cases lr <;> simp [LeafReq.ok, Scalar.isClean]

/-- iterating a value within the requirement gives values within the requirement (`list(d)` of a
dict gives its keys) -/
theorem iterate_ok {ι : Type} (t : Tr ι) (vs : List (Tr ι)) (ht : Tr.all kr lr t = true) (h : iterate t = .ok vs) :
    Tr.allL kr lr vs = true := by
  cases t with
  | list i xs => simp only [iterate, Except.ok.injEq] at h; subst h; simpa [Tr.all] using ht
  | dict i kvs =>
    simp only [iterate, Except.ok.injEq] at h; subst h
    rw [allL_iff]
    intro x hx
    obtain ⟨kv, _, rfl⟩ := List.mem_map.mp hx
    cases kv.1 with
    | s k => simp [Tr.all, lr_ok_str]
    | n i => simp [Tr.all, lr_ok_int]
  | leaf sc =>
    cases sc with
    | str s =>
      simp only [iterate, Except.ok.injEq] at h; subst h
      rw [allL_iff]
      intro x hx
      obtain ⟨c, _, rfl⟩ := List.mem_map.mp hx
      simp [Tr.all, lr_ok_str]
    | null => simp [iterate] at h
    | bool b => simp [iterate] at h
    | int i => simp [iterate] at h
    | flt a b => simp [iterate] at h
    | other o => simp [iterate] at h

theorem dmutRes_ok (t : T) (i : Nat) (kvs : List (Key × T)) (m : DictMut T) (n : Nat)
    (ht : Tr.all kr lr t = true) (hk : Tr.allKV kr lr kvs = true) (hm : DictMut.Ok kr lr m) :
    Tr.all kr lr (dmutRes t i kvs m n).node = true ∧ Tr.allL kr lr (dmutRes t i kvs m n).det = true := by
  unfold dmutRes
  cases hr : dictMut kvs m with
  | error e => exact ⟨ht, by simp [Tr.allL]⟩
  | ok r =>
    have := dictMut_ok kr lr kvs m hk hm r hr
    exact ⟨by simpa [Tr.all] using this.1, this.2⟩

theorem lmutRes_ok (t : T) (i : Nat) (xs : List T) (m : ListMut T) (n : Nat)
    (ht : Tr.all kr lr t = true) (hk : Tr.allL kr lr xs = true) (hm : ListMut.Ok kr lr m) :
    Tr.all kr lr (lmutRes t i xs m n).node = true ∧ Tr.allL kr lr (lmutRes t i xs m n).det = true := by
  unfold lmutRes
  cases hr : listMut xs m with
  | error e => exact ⟨ht, by simp [Tr.allL]⟩
  | ok r =>
    have := listMut_ok kr lr xs m hk hm r hr
    exact ⟨by simpa [Tr.all] using this.1, this.2⟩

include hd hl in
/-- C11, the body: on a node within the requirement, after the validation that precedes the
operation passed, the node afterwards and everything that left it are within the requirement —
for every operation of the API, also when the body raises half-way. -/
theorem runBody_ok (t : T) (op : Op) (n : Nat) (ht : Tr.all kr lr t = true)
    (hpre : preValidate fam t.isDict op = none) :
    Tr.all kr lr (runBody fam t op n).node = true ∧ Tr.allL kr lr (runBody fam t op n).det = true := by
  have hvalKV : ∀ (k : Key) (v : J), validateKV fam.dictV [(k, v)] = none → kr.ok k = true ∧ Tr.all kr lr v = true := by
    intro k v h
    rw [validateKV_none, hd.1, hd.2] at h
    simpa [Tr.allKV] using h
  have hvalL : ∀ (v : J), validate fam.listV v = none → Tr.all kr lr v = true := by
    intro v h; rw [validate_none, hl.1, hl.2] at h; exact h
  have hfail : ∀ e : Err, Tr.all kr lr (⟨t, .unit, [], n, some e⟩ : NodeRes).node = true ∧
      Tr.allL kr lr (⟨t, .unit, [], n, some e⟩ : NodeRes).det = true := fun _ => ⟨ht, by simp [Tr.allL]⟩
  cases t with
  | leaf s => cases op <;> exact ⟨ht, by simp [runBody, Tr.allL]⟩
  | dict i kvs =>
    have hk : Tr.allKV kr lr kvs = true := by simpa [Tr.all] using ht
    cases op with
    | dSetitem k v =>
      have := hvalKV k v (by simpa [preValidate] using hpre)
      simp only [runBody]
      exact dmutRes_ok kr lr _ i kvs _ _ ht hk ⟨this.1, by rw [all_fromBase]; exact this.2⟩
    | dDelitem k => simp only [runBody]; exact dmutRes_ok kr lr _ i kvs _ _ ht hk trivial
    | dPop k d => simp only [runBody]; exact dmutRes_ok kr lr _ i kvs _ _ ht hk trivial
    | dPopitem => simp only [runBody]; exact dmutRes_ok kr lr _ i kvs _ _ ht hk trivial
    | dClear => simp only [runBody]; exact dmutRes_ok kr lr _ i kvs _ _ ht hk trivial
    | dSetdefault k d =>
      simp only [runBody]
      cases hlk : Tr.lookup k kvs with
      | some v => exact ⟨ht, by simp [Tr.allL]⟩
      | none =>
        simp only
        cases hv : validateKV fam.dictV [(k, d)] with
        | some e => exact hfail e
        | none =>
          have := hvalKV k d hv
          simp only
          exact ⟨by simp only [Tr.all]; exact allKV_setKey kr lr hk this.1 (by rw [all_fromBase]; exact this.2),
                 by simp [Tr.allL]⟩
    | dUpdate other kw =>
      simp only [runBody]
      have := updDictLoop_ok kr lr fam hd hl (overrideOrder kvs (kw.foldl (fun acc kv => Tr.setKey kv.1 kv.2 acc)
              (other.foldl (fun acc kv => Tr.setKey kv.1 kv.2 acc) []))) kvs n hk
      exact ⟨by simpa [Tr.all] using this.1, this.2⟩
    | dReset v =>
      simp only [runBody]
      exact updNode_ok kr lr fam hd hl v (.dict i kvs) n ht
    | dRead rd =>
      simp only [runBody]
      cases dictRead i kvs rd with
      | error e => exact hfail e
      | ok o => exact ⟨ht, by simp [Tr.allL]⟩
    | _ => exact ⟨ht, by simp [runBody, Tr.allL]⟩
  | list i xs =>
    have hk : Tr.allL kr lr xs = true := by simpa [Tr.all] using ht
    cases op with
    | lSetitem ix v =>
      have hv := hvalL v (by simpa [preValidate] using hpre)
      cases ix with
      | i j =>
        simp only [runBody]
        exact lmutRes_ok kr lr _ i xs _ _ ht hk (show Tr.all kr lr _ = true by rw [all_fromBase]; exact hv)
      | sl sl =>
        simp only [runBody]
        cases hit : iterate (fromBase v n).1 with
        | error e => exact ⟨ht, by simp [Tr.allL]⟩
        | ok vs =>
          simp only
          exact lmutRes_ok kr lr _ i xs _ _ ht hk
            (show Tr.allL kr lr vs = true from iterate_ok kr lr _ vs (by rw [all_fromBase]; exact hv) hit)
    | lDelitem ix => simp only [runBody]; exact lmutRes_ok kr lr _ i xs _ _ ht hk trivial
    | lInsert j v =>
      have hv := hvalL v (by simpa [preValidate] using hpre)
      simp only [runBody]
      exact lmutRes_ok kr lr _ i xs _ _ ht hk (show Tr.all kr lr _ = true by rw [all_fromBase]; exact hv)
    | lAppend v =>
      have hv := hvalL v (by simpa [preValidate] using hpre)
      simp only [runBody]
      exact lmutRes_ok kr lr _ i xs _ _ ht hk (show Tr.all kr lr _ = true by rw [all_fromBase]; exact hv)
    | lExtend v =>
      simp only [runBody]
      simp only [preValidate] at hpre
      cases hit : iterate v with
      | error e => exact hfail e
      | ok vs =>
        simp only [hit] at hpre
        have hvs : Tr.allL kr lr vs = true := by rw [validateL_none, hl.1, hl.2] at hpre; exact hpre
        simp only
        exact lmutRes_ok kr lr _ i xs _ _ ht hk (show Tr.allL kr lr _ = true by rw [allL_fromBaseL]; exact hvs)
    | lIadd v =>
      simp only [runBody]
      simp only [preValidate] at hpre
      cases hit : iterate v with
      | error e => exact hfail e
      | ok vs =>
        simp only [hit] at hpre
        have hvs : Tr.allL kr lr vs = true := by rw [validateL_none, hl.1, hl.2] at hpre; exact hpre
        simp only
        exact lmutRes_ok kr lr _ i xs _ _ ht hk (show Tr.allL kr lr _ = true by rw [allL_fromBaseL]; exact hvs)
    | lRemove v => simp only [runBody]; exact lmutRes_ok kr lr _ i xs _ _ ht hk trivial
    | lClear => simp only [runBody]; exact lmutRes_ok kr lr _ i xs _ _ ht hk trivial
    | lPop j => simp only [runBody]; exact lmutRes_ok kr lr _ i xs _ _ ht hk trivial
    | lReverse => simp only [runBody]; exact lmutRes_ok kr lr _ i xs _ _ ht hk trivial
    | lReset v =>
      simp only [runBody]
      exact updNode_ok kr lr fam hd hl v (.list i xs) n ht
    | lRead rd =>
      simp only [runBody]
      cases listRead i xs rd with
      | error e => exact hfail e
      | ok o => exact ⟨ht, by simp [Tr.allL]⟩
    | _ => exact ⟨ht, by simp [runBody, Tr.allL]⟩

end body

/-! ### subtrees, replacement, plain content -/

section trees
variable (kr : KeyReq) (lr : LeafReq)

mutual
theorem all_find (h : Nat) : ∀ (t c : T), Tr.all kr lr t = true → Tr.find h t = some c → Tr.all kr lr c = true
  | .leaf _, c, _, hf => by simp [Tr.find] at hf
  | .list i xs, c, ht, hf => by
    simp only [Tr.find] at hf
    split at hf
    · simp only [Option.some.injEq] at hf; subst hf; exact ht
    · exact allL_findL h xs c (by simpa [Tr.all] using ht) hf
  | .dict i kvs, c, ht, hf => by
    simp only [Tr.find] at hf
    split at hf
    · simp only [Option.some.injEq] at hf; subst hf; exact ht
    · exact allKV_findKV h kvs c (by simpa [Tr.all] using ht) hf
theorem allL_findL (h : Nat) : ∀ (xs : List T) (c : T), Tr.allL kr lr xs = true → Tr.findL h xs = some c → Tr.all kr lr c = true
  | [], c, _, hf => by simp [Tr.findL] at hf
  | x :: xs, c, ht, hf => by
    simp only [Tr.allL, Bool.and_eq_true] at ht
    simp only [Tr.findL] at hf
    cases hx : Tr.find h x with
    | some t => simp only [hx, Option.some.injEq] at hf; subst hf; exact all_find h x t ht.1 hx
    | none => simp only [hx] at hf; exact allL_findL h xs c ht.2 hf
theorem allKV_findKV (h : Nat) : ∀ (kvs : List (Key × T)) (c : T), Tr.allKV kr lr kvs = true → Tr.findKV h kvs = some c → Tr.all kr lr c = true
  | [], c, _, hf => by simp [Tr.findKV] at hf
  | (k, v) :: kvs, c, ht, hf => by
    simp only [Tr.allKV, Bool.and_eq_true] at ht
    simp only [Tr.findKV] at hf
    cases hx : Tr.find h v with
    | some t => simp only [hx, Option.some.injEq] at hf; subst hf; exact all_find h v t ht.1.2 hx
    | none => simp only [hx] at hf; exact allKV_findKV h kvs c ht.2 hf
end

mutual
theorem all_replace (h : Nat) (new : T) (hn : Tr.all kr lr new = true) :
    ∀ t : T, Tr.all kr lr t = true → Tr.all kr lr (Tr.replace h new t) = true
  | .leaf s, ht => by simpa [Tr.replace] using ht
  | .list i xs, ht => by
    simp only [Tr.replace]
    split
    · exact hn
    · simp only [Tr.all]; exact allL_replaceL h new hn xs (by simpa [Tr.all] using ht)
  | .dict i kvs, ht => by
    simp only [Tr.replace]
    split
    · exact hn
    · simp only [Tr.all]; exact allKV_replaceKV h new hn kvs (by simpa [Tr.all] using ht)
theorem allL_replaceL (h : Nat) (new : T) (hn : Tr.all kr lr new = true) :
    ∀ xs : List T, Tr.allL kr lr xs = true → Tr.allL kr lr (Tr.replaceL h new xs) = true
  | [], _ => by simp [Tr.replaceL, Tr.allL]
  | x :: xs, ht => by
    simp only [Tr.allL, Bool.and_eq_true] at ht
    simp only [Tr.replaceL, Tr.allL, Bool.and_eq_true]
    exact ⟨all_replace h new hn x ht.1, allL_replaceL h new hn xs ht.2⟩
theorem allKV_replaceKV (h : Nat) (new : T) (hn : Tr.all kr lr new = true) :
    ∀ kvs : List (Key × T), Tr.allKV kr lr kvs = true → Tr.allKV kr lr (Tr.replaceKV h new kvs) = true
  | [], _ => by simp [Tr.replaceKV, Tr.allKV]
  | (k, v) :: kvs, ht => by
    simp only [Tr.allKV, Bool.and_eq_true] at ht
    simp only [Tr.replaceKV, Tr.allKV, Bool.and_eq_true]
    exact ⟨⟨ht.1.1, all_replace h new hn v ht.1.2⟩, allKV_replaceKV h new hn kvs ht.2⟩
end

mutual
theorem all_map {ι κ : Type} (f : ι → κ) : ∀ t : Tr ι, Tr.all kr lr (t.map f) = Tr.all kr lr t
  | .leaf s => by simp [Tr.map, Tr.all]
  | .list i xs => by simp only [Tr.map, Tr.all]; exact allL_mapL f xs
  | .dict i kvs => by simp only [Tr.map, Tr.all]; exact allKV_mapKV f kvs
theorem allL_mapL {ι κ : Type} (f : ι → κ) : ∀ xs : List (Tr ι), Tr.allL kr lr (Tr.mapL f xs) = Tr.allL kr lr xs
  | [] => by simp [Tr.mapL, Tr.allL]
  | x :: xs => by simp only [Tr.mapL, Tr.allL, all_map f x, allL_mapL f xs]
theorem allKV_mapKV {ι κ : Type} (f : ι → κ) : ∀ kvs : List (Key × Tr ι), Tr.allKV kr lr (Tr.mapKV f kvs) = Tr.allKV kr lr kvs
  | [] => by simp [Tr.mapKV, Tr.allKV]
  | (k, v) :: kvs => by simp only [Tr.mapKV, Tr.allKV, all_map f v, allKV_mapKV f kvs]
end

theorem all_toBase {ι : Type} (t : Tr ι) : Tr.all kr lr t.toBase = Tr.all kr lr t := all_map kr lr _ t

end trees

/-! ### the invariant of the sequential machine -/

section state
variable (kr : KeyReq) (lr : LeafReq) (W : J → Prop)

/-- the family's validators enforce exactly `(kr, lr)` on both sides -/
def FamReq (f : Fam) : Prop :=
  (keyReq f.dictV = kr ∧ leafReq f.dictV = lr) ∧ (keyReq f.listV = kr ∧ leafReq f.listV = lr)

/-- everything in memory (every object's tree, every node that fell out of a tree) and every
backend is within the requirement, and every object belongs to a family that enforces it -/
structure Clean (s : State) : Prop where
  objs : ∀ o ∈ s.objs, Tr.all kr lr o.root = true
  det : ∀ p ∈ s.detached, Tr.all kr lr p.2 = true
  stores : ∀ p ∈ s.stores, W p.2
  fams : ∀ o ∈ s.objs, FamReq kr lr (s.fam o)

variable {kr lr W}

theorem Clean.setRoot {s : State} (h : Clean kr lr W s) {oi : Nat} {o : Obj} (ho : s.objs[oi]? = some o)
    (new : T) (hn : Tr.all kr lr new = true) : Clean kr lr W (s.setObj oi { o with root := new }) := by
  refine ⟨?_, h.det, h.stores, ?_⟩
  · intro x hx
    rcases List.mem_or_eq_of_mem_set hx with h1 | h1
    · exact h.objs x h1
    · subst h1; exact hn
  · intro x hx
    rcases List.mem_or_eq_of_mem_set hx with h1 | h1
    · exact h.fams x h1
    · subst h1; exact h.fams o (List.mem_of_getElem? ho)

theorem Clean.after_own {s : State} (h : Clean kr lr W s) (a b c : Nat) : Clean kr lr W (s.own a b c) := by
  unfold State.own; split <;> exact ⟨h.objs, h.det, h.stores, h.fams⟩

theorem Clean.after_addDetached {s : State} (h : Clean kr lr W s) (oi : Nat) (ts : List T) (ht : Tr.allL kr lr ts = true) :
    Clean kr lr W (s.addDetached oi ts) := by
  refine ⟨h.objs, ?_, h.stores, h.fams⟩
  intro p hp
  simp only [State.addDetached, List.mem_append, List.mem_map] at hp
  rcases hp with h1 | ⟨t, htm, rfl⟩
  · exact h.det p h1
  · exact (allL_iff kr lr).mp (containers_ok kr lr ht) t htm

theorem Clean.after_replaceNode {s : State} (h : Clean kr lr W s) (id : Nat) (new : T) (hn : Tr.all kr lr new = true) :
    Clean kr lr W (replaceNode s id new) := by
  refine ⟨?_, ?_, h.stores, ?_⟩
  · intro x hx
    obtain ⟨o, ho, rfl⟩ := List.mem_map.mp hx
    exact all_replace kr lr id new hn _ (h.objs o ho)
  · intro x hx
    obtain ⟨p, hp, rfl⟩ := List.mem_map.mp hx
    exact all_replace kr lr id new hn _ (h.det p hp)
  · intro x hx
    obtain ⟨o, ho, rfl⟩ := List.mem_map.mp hx
    exact h.fams o ho

theorem Clean.after_setStore {s : State} (h : Clean kr lr W s) (r : Nat) (d : J) (hd : W d) :
    Clean kr lr W (s.setStore r d) := by
  refine ⟨h.objs, h.det, ?_, h.fams⟩
  intro p hp
  simp only [State.setStore, List.mem_cons, List.mem_filter] at hp
  rcases hp with rfl | ⟨h1, _⟩
  · exact hd
  · exact h.stores p h1

theorem findSome_mem {α β : Type} (f : α → Option β) : ∀ (l : List α) (b : β), l.findSome? f = some b → ∃ a ∈ l, f a = some b
  | [], b, h => by simp at h
  | a :: l, b, h => by
    simp only [List.findSome?_cons] at h
    cases ha : f a with
    | some x => simp only [ha, Option.some.injEq] at h; subst h; exact ⟨a, List.mem_cons_self .., ha⟩
    | none =>
      simp only [ha] at h
      obtain ⟨a', ha', hf⟩ := findSome_mem f l b h
      exact ⟨a', List.mem_cons_of_mem _ ha', hf⟩

theorem Clean.of_handleNode {s : State} (h : Clean kr lr W s) {hd : Handle} {t : T} (ht : handleNode s hd = some t) :
    Tr.all kr lr t = true := by
  cases hd with
  | root o =>
    simp only [SC.handleNode] at ht
    cases ho : s.objs[o]? with
    | none => simp [ho] at ht
    | some ob =>
      simp only [ho, Option.map_some, Option.some.injEq] at ht
      subst ht; exact h.objs ob (List.mem_of_getElem? ho)
  | node id =>
    simp only [SC.handleNode, findNode] at ht
    cases h1 : s.objs.findSome? (fun o => Tr.find id o.root) with
    | some t1 =>
      simp only [h1, Option.some.injEq] at ht; subst ht
      obtain ⟨o, ho, hf⟩ := findSome_mem _ _ _ h1
      exact all_find kr lr id _ _ (h.objs o ho) hf
    | none =>
      simp only [h1] at ht
      obtain ⟨p, hp, hf⟩ := findSome_mem _ _ _ ht
      exact all_find kr lr id _ _ (h.det p hp) hf

theorem Clean.after_loadRoot {s : State} (h : Clean kr lr W s) (oi : Nat) : Clean kr lr W (loadRoot s oi).1 := by
  unfold SC.loadRoot
  cases ho : s.objs[oi]? with
  | none => exact h
  | some o =>
    simp only
    cases hst : s.store o.res with
    | none => exact h
    | some d =>
      simp only
      have hf := h.fams o (List.mem_of_getElem? ho)
      have hu := updNode_ok kr lr (s.fam o) hf.1 hf.2 d o.root s.next (h.objs o (List.mem_of_getElem? ho))
      exact ((h.setRoot ho _ hu.1).after_own _ _ _).after_addDetached _ _ hu.2

theorem Clean.after_putNode {s : State} (h : Clean kr lr W s) (hd : Handle) (new : T) (hn : Tr.all kr lr new = true) :
    Clean kr lr W (putNode s hd new) := by
  unfold SC.putNode
  cases hd with
  | root o =>
    simp only
    cases ho : s.objs[o]? with
    | none => exact h
    | some ob => exact h.setRoot ho new hn
  | node id => exact h.after_replaceNode id new hn

theorem Clean.after_saveRoot {s : State} (hW : ∀ d : J, Tr.all kr lr d = true → W d) (h : Clean kr lr W s) (oi : Nat) : Clean kr lr W (saveRoot s oi) := by
  unfold SC.saveRoot
  cases ho : s.objs[oi]? with
  | none => exact h
  | some o =>
    simp only
    exact h.after_setStore _ _ (hW _ (by rw [all_toBase]; exact h.objs o (List.mem_of_getElem? ho)))

/-- the validation before the lock does not depend on the kind of the target node -/
theorem preValidate_irrel (fam : Fam) (b b' : Bool) (op : Op) : preValidate fam b op = preValidate fam b' op := by
  cases op <;> rfl

theorem fam_eq_of_fams {s s' : State} (hf : s'.fams = s.fams) (o : Obj) : s'.fam o = s.fam o := by
  simp [State.fam, hf]

/-- C11 for one public call: from a clean state, whatever the handle, the operation and its
arguments, the state after the call is clean — memory of every object, every node that fell out
of a tree, every backend — whether the call returns or raises. -/
theorem Clean.after_call {s : State} (hW : ∀ d : J, Tr.all kr lr d = true → W d) (h : Clean kr lr W s) (hd : Handle) (op : Op) : Clean kr lr W (call s hd op).1 := by
  unfold SC.call
  split
  · rename_i oi isRoot t0 _ hn0
    cases ho : s.objs[oi]? with
    | none => exact h
    | some o =>
      simp only
      unfold callOn
      cases hpre : preValidate (s.fam o) t0.isDict op with
      | some e => exact h
      | none =>
        simp only
        have hls : Clean kr lr W (loadFor s oi isRoot op).1 := by
          unfold loadFor; split
          · exact h
          · exact h.after_loadRoot oi
        cases hle : (loadFor s oi isRoot op).2 with
        | some e => exact hls
        | none =>
          simp only
          cases hnode : handleNode (loadFor s oi isRoot op).1 hd with
          | none => exact hls
          | some t =>
            simp only
            have ht := hls.of_handleNode hnode
            have hf := h.fams o (List.mem_of_getElem? ho)
            have hb := runBody_ok kr lr (s.fam o) hf.1 hf.2 t op (loadFor s oi isRoot op).1.next ht
              (by rw [preValidate_irrel _ t.isDict t0.isDict]; exact hpre)
            have h2 : Clean kr lr W (applyBody (loadFor s oi isRoot op).1 hd oi
                (runBody (s.fam o) t op (loadFor s oi isRoot op).1.next)) := by
              unfold applyBody
              exact ((hls.after_putNode hd _ hb.1).after_own _ _ _).after_addDetached _ _ hb.2
            unfold finishCall
            simp only
            have h3 : Clean kr lr W (if op.isRead = true then applyBody (loadFor s oi isRoot op).1 hd oi
                (runBody (s.fam o) t op (loadFor s oi isRoot op).1.next) else
                SC.saveRoot (applyBody (loadFor s oi isRoot op).1 hd oi
                (runBody (s.fam o) t op (loadFor s oi isRoot op).1.next)) oi) := by
              split
              · exact h2
              · exact h2.after_saveRoot hW oi
            split <;> exact h3
  · exact h

theorem own_fams (s : State) (a b c : Nat) : (s.own a b c).fams = s.fams := by
  unfold State.own; split <;> rfl

theorem loadRoot_fams (s : State) (oi : Nat) : (SC.loadRoot s oi).1.fams = s.fams := by
  unfold SC.loadRoot
  split
  · rfl
  · split
    · rfl
    · simp only [State.addDetached, own_fams]; rfl

theorem putNode_fams (s : State) (hd : Handle) (t : T) : (SC.putNode s hd t).fams = s.fams := by
  unfold SC.putNode
  cases hd with
  | root o => simp only; split <;> rfl
  | node id => rfl

theorem call_fams (s : State) (hd : Handle) (op : Op) : (SC.call s hd op).1.fams = s.fams := by
  unfold SC.call
  split
  · rename_i oi isRoot t0 _ _
    split
    · rfl
    · rename_i o _
      unfold callOn
      split
      · rfl
      · simp only
        have hl : (loadFor s oi isRoot op).1.fams = s.fams := by
          unfold loadFor; split
          · rfl
          · exact loadRoot_fams s oi
        split
        · exact hl
        · split
          · exact hl
          · rename_i t _
            unfold finishCall applyBody
            simp only
            have h2 : ∀ r : NodeRes, (((SC.putNode (loadFor s oi isRoot op).1 hd r.node).own oi
                (loadFor s oi isRoot op).1.next r.next).addDetached oi r.det).fams = s.fams := by
              intro r
              show (State.own _ _ _ _).fams = _
              rw [own_fams, putNode_fams, hl]
            have h3 : ∀ x : State, x.fams = s.fams → (SC.saveRoot x oi).fams = s.fams := by
              intro x hx
              unfold SC.saveRoot
              split
              · exact hx
              · exact hx
            split <;> (split <;> first | exact h2 _ | exact h3 _ (h2 _))
  · rfl

theorem openObj_fams (s : State) (fam : Nat) (d : Bool) (r : Nat) (data : Option J) :
    (SC.openObj s fam d r data).1.fams = s.fams := by
  unfold SC.openObj
  simp only
  cases data with
  | none => simp only; rw [own_fams]
  | some dd =>
    simp only
    split
    · rfl
    · split
      · rfl
      · rw [own_fams]

/-- a constructor call: constructor data is validated, not saved -/
theorem Clean.after_openObj {s : State} (h : Clean kr lr W s) (fam : Nat) (isDict : Bool) (res : Nat) (data : Option J)
    (hfam : FamReq kr lr (s.fams.getD fam default)) :
    Clean kr lr W (openObj s fam isDict res data).1 := by
  unfold openObj
  simp only
  have hadd : ∀ (root : T) (a b c : Nat), Tr.all kr lr root = true →
      Clean kr lr W (({ s with objs := s.objs ++ [(⟨fam, isDict, res, root⟩ : Obj)] }).own a b c) := by
    intro root a b c hr
    apply Clean.after_own
    refine ⟨?_, h.det, h.stores, ?_⟩
    · intro o ho
      rcases List.mem_append.mp ho with h1 | h1
      · exact h.objs o h1
      · simp only [List.mem_cons, List.not_mem_nil, or_false] at h1; subst h1; exact hr
    · intro o ho
      rcases List.mem_append.mp ho with h1 | h1
      · exact h.fams o h1
      · simp only [List.mem_cons, List.not_mem_nil, or_false] at h1; subst h1; exact hfam
  cases data with
  | none =>
    simp only
    apply hadd
    split <;> simp [Tr.all, Tr.allKV, Tr.allL]
  | some d =>
    simp only
    split
    · exact h
    · cases hv : validate (if isDict = true then (s.fams.getD fam default).dictV else (s.fams.getD fam default).listV) d with
      | some e => exact h
      | none =>
        simp only
        apply hadd
        rw [all_fromBase]
        cases isDict with
        | true =>
          simp only [if_true] at hv
          rw [validate_none, hfam.1.1, hfam.1.2] at hv; exact hv
        | false =>
          simp only [Bool.false_eq_true, if_false] at hv
          rw [validate_none, hfam.2.1, hfam.2.2] at hv; exact hv

/-- an outside writer: memory is untouched; the backend holds whatever was written -/
theorem Clean.after_ext {s : State} (h : Clean kr lr W s) (res : Nat) (d : J) (hd : W d) :
    Clean kr lr W (extWrite s res d) := h.after_setStore res d hd

end state
end SC
