/-
C16 — `_from_base` builds new nodes: every container identity of the result is drawn from the
fresh range `[n, n')`, all are distinct, whatever the argument is (plain data, or data that
contains synced nodes with identities of their own).
-/
import SC.Tree
namespace SC
open Tr

variable {ι : Type}

/-- the identities in `is` all lie in `[lo, hi)` and are pairwise distinct -/
def FreshIn (lo hi : Nat) (is : List Nat) : Prop := (∀ i ∈ is, lo ≤ i ∧ i < hi) ∧ is.Nodup

theorem FreshIn.nil (lo : Nat) : FreshIn lo lo [] := ⟨by simp, List.nodup_nil⟩

theorem FreshIn.append {a b c : Nat} {xs ys : List Nat} (h1 : FreshIn a b xs) (h2 : FreshIn b c ys)
    (hab : a ≤ b) (hbc : b ≤ c) : FreshIn a c (xs ++ ys) := by
  refine ⟨?_, ?_⟩
  · intro i hi
    rcases List.mem_append.mp hi with h | h
    · have := h1.1 i h; omega
    · have := h2.1 i h; omega
  · refine List.nodup_append.mpr ⟨h1.2, h2.2, ?_⟩
    intro x hx y hy hxy
    have := h1.1 x hx; have := h2.1 y hy; omega

theorem FreshIn.cons {n c : Nat} {xs : List Nat} (h : FreshIn (n + 1) c xs) (hle : n + 1 ≤ c) :
    FreshIn n c (n :: xs) := by
  refine ⟨?_, ?_⟩
  · intro i hi
    rcases List.mem_cons.mp hi with rfl | hi
    · omega
    · have := h.1 i hi; omega
  · refine List.nodup_cons.mpr ⟨?_, h.2⟩
    intro hn; have := h.1 n hn; omega

mutual
theorem fromBase_fresh : ∀ (t : Tr ι) (n : Nat),
    n ≤ (fromBase t n).2 ∧ FreshIn n (fromBase t n).2 (Tr.ids (fromBase t n).1)
  | .leaf s, n => by simp [fromBase, Tr.ids, FreshIn]
  | .list _ xs, n => by
    have h := fromBaseL_fresh xs (n + 1)
    simp only [fromBase, Tr.ids]
    exact ⟨by omega, FreshIn.cons h.2 h.1⟩
  | .dict _ kvs, n => by
    have h := fromBaseKV_fresh kvs (n + 1)
    simp only [fromBase, Tr.ids]
    exact ⟨by omega, FreshIn.cons h.2 h.1⟩
theorem fromBaseL_fresh : ∀ (xs : List (Tr ι)) (n : Nat),
    n ≤ (fromBaseL xs n).2 ∧ FreshIn n (fromBaseL xs n).2 (Tr.idsL (fromBaseL xs n).1)
  | [], n => by simp [fromBaseL, Tr.idsL, FreshIn]
  | x :: xs, n => by
    have h1 := fromBase_fresh x n
    have h2 := fromBaseL_fresh xs (fromBase x n).2
    simp only [fromBaseL, Tr.idsL]
    exact ⟨by omega, FreshIn.append h1.2 h2.2 h1.1 h2.1⟩
theorem fromBaseKV_fresh : ∀ (kvs : List (Key × Tr ι)) (n : Nat),
    n ≤ (fromBaseKV kvs n).2 ∧ FreshIn n (fromBaseKV kvs n).2 (Tr.idsKV (fromBaseKV kvs n).1)
  | [], n => by simp [fromBaseKV, Tr.idsKV, FreshIn]
  | (k, v) :: kvs, n => by
    have h1 := fromBase_fresh v n
    have h2 := fromBaseKV_fresh kvs (fromBase v n).2
    simp only [fromBaseKV, Tr.idsKV]
    exact ⟨by omega, FreshIn.append h1.2 h2.2 h1.1 h2.1⟩
end

/-- identities of the values of a dict after removing a key: a sub-list of the original's -/
theorem idsKV_delKey_sub (k : Key) : ∀ (kvs : List (Key × T)) (i : Nat),
    i ∈ Tr.idsKV (Tr.delKey k kvs) → i ∈ Tr.idsKV kvs
  | [], i, h => by simp [Tr.delKey, Tr.idsKV] at h
  | (k', v) :: kvs, i, h => by
    simp only [Tr.delKey] at h
    simp only [Tr.idsKV, List.mem_append]
    split at h
    · exact Or.inr h
    · simp only [Tr.idsKV, List.mem_append] at h
      rcases h with h | h
      · exact Or.inl h
      · exact Or.inr (idsKV_delKey_sub k kvs i h)

/-- with pairwise distinct identities, the value removed from a dict shares no identity with
what remains -/
theorem removed_disjoint (k : Key) : ∀ (kvs : List (Key × T)) (old : T),
    (Tr.idsKV kvs).Nodup → Tr.lookup k kvs = some old →
    ∀ i ∈ Tr.ids old, i ∉ Tr.idsKV (Tr.delKey k kvs)
  | [], old, _, hl => by simp [Tr.lookup] at hl
  | (k', v) :: kvs, old, hn, hl => by
    simp only [Tr.idsKV] at hn
    have hnd := List.nodup_append.mp hn
    simp only [Tr.lookup] at hl
    intro i hi
    simp only [Tr.delKey]
    split at hl
    · -- this binding is removed
      rename_i hk
      simp only [Option.some.injEq] at hl
      subst hl
      simp only [hk, if_true]
      intro hin
      exact hnd.2.2 i hi i hin rfl
    · rename_i hk
      simp only [hk, if_false, Tr.idsKV, List.mem_append, not_or]
      refine ⟨?_, removed_disjoint k kvs old hnd.2.1 hl i hi⟩
      intro hiv
      -- i is in v and in old ⊆ kvs: contradiction with Nodup
      have hsub : i ∈ Tr.idsKV kvs := by
        clear hn hnd
        induction kvs with
        | nil => simp [Tr.lookup] at hl
        | cons p ps ih =>
          obtain ⟨k2, v2⟩ := p
          simp only [Tr.lookup] at hl
          simp only [Tr.idsKV, List.mem_append]
          split at hl
          · simp only [Option.some.injEq] at hl; subst hl; exact Or.inl hi
          · exact Or.inr (ih hl)
      exact hnd.2.2 i hiv i hsub rfl

end SC
