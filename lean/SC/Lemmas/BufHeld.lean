/-
C15 — boundedness and zero-outside.
Invariant `Held`: every file in the buffer has a *holder*: a registered object bound to that
file that is currently buffered.  With it: a forced flush leaves size 0, hence size ≤ capacity
after every step; and when no object is buffered the buffer is empty.
-/
import SC.Lemmas.BufSize
import SC.Lemmas.BufCap
namespace SC.B
open SC

def Holder (s : State) (r : Nat) : Prop :=
  ∃ oi ∈ s.registry, ∃ o, s.objs[oi]? = some o ∧ o.res = r ∧ s.isBuffered o = true

def Held (s : State) : Prop := ∀ p ∈ s.entries, Holder s p.1

/-- what a flush leaves alone: context counter, every object's file and `buffered` counter (hence
who is buffered), strategy; and it adds no entry -/
structure Frame (s s' : State) : Prop where
  ctx : s'.ctx = s.ctx
  objs : s'.objs.map (fun o => (o.res, o.buffered)) = s.objs.map (fun o => (o.res, o.buffered))
  sub : ∀ p ∈ s'.entries, ∃ e0, (p.1, e0) ∈ s.entries
  strat : s'.strategy = s.strategy
  reg : s'.registry = s.registry

theorem Frame.refl (s : State) : Frame s s := ⟨rfl, rfl, fun p hp => ⟨p.2, hp⟩, rfl, rfl⟩
theorem Frame.trans {a b c : State} (h1 : Frame a b) (h2 : Frame b c) : Frame a c :=
  ⟨h2.ctx.trans h1.ctx, h2.objs.trans h1.objs,
   fun p hp => let ⟨e1, he1⟩ := h2.sub p hp; h1.sub (p.1, e1) he1, h2.strat.trans h1.strat,
   h2.reg.trans h1.reg⟩

/-- same entries, objects, counter -/
theorem Frame.of_eq {s s' : State} (h1 : s'.ctx = s.ctx) (h2 : s'.objs = s.objs) (h3 : s'.entries = s.entries)
    (h4 : s'.strategy = s.strategy) (h5 : s'.registry = s.registry) : Frame s s' :=
  ⟨h1, by rw [h2], fun p hp => ⟨p.2, by rw [← h3]; exact hp⟩, h4, h5⟩

theorem frame_trySave (s : State) (o : Obj) : Frame s (trySave s o).1 ∧ (trySave s o).1.entries = s.entries := by
  unfold trySave; split
  · exact ⟨Frame.refl s, rfl⟩
  · exact ⟨Frame.of_eq rfl rfl rfl rfl rfl, rfl⟩

theorem frame_own (s : State) (a b c : Nat) : Frame s (s.own a b c) := by
  unfold State.own; split <;> exact Frame.of_eq rfl rfl rfl rfl rfl

theorem frame_mergeInto (s : State) (oi : Nat) (o : Obj) (d : J) : Frame s (mergeInto s oi o d).1 := by
  unfold mergeInto
  simp only
  exact Frame.trans (Frame.trans (b := (s.setCell o.cell (updNode s.fam (s.root o) d s.next).val).syncFrom o.cell)
    (Frame.of_eq rfl rfl rfl rfl rfl) (frame_own _ _ _ _)) (Frame.of_eq rfl rfl rfl rfl rfl)

/-- objects' (file, counter) and the context counter determine who is buffered -/
theorem obj_of_frame {s s' : State} (h : Frame s s') {oi : Nat} {o' : Obj} (ho : s'.objs[oi]? = some o') :
    ∃ o, s.objs[oi]? = some o ∧ o.res = o'.res ∧ o.buffered = o'.buffered := by
  have hm := congrArg (fun l => l[oi]?) h.objs
  simp only [List.getElem?_map, ho, Option.map_some] at hm
  cases hs : s.objs[oi]? with
  | none => simp [hs] at hm
  | some o =>
    simp only [hs, Option.map_some, Option.some.injEq, Prod.mk.injEq] at hm
    exact ⟨o, rfl, hm.1.symm, hm.2.symm⟩

theorem obj_of_frame' {s s' : State} (h : Frame s s') {oi : Nat} {o : Obj} (ho : s.objs[oi]? = some o) :
    ∃ o', s'.objs[oi]? = some o' ∧ o'.res = o.res ∧ o'.buffered = o.buffered := by
  have hm := congrArg (fun l => l[oi]?) h.objs
  simp only [List.getElem?_map, ho, Option.map_some] at hm
  cases hs : s'.objs[oi]? with
  | none => simp [hs] at hm
  | some o' =>
    simp only [hs, Option.map_some, Option.some.injEq, Prod.mk.injEq] at hm
    exact ⟨o', rfl, hm.1, hm.2⟩

theorem isBuffered_eq {s s' : State} {o o' : Obj} (hc : s'.ctx = s.ctx) (hb : o'.buffered = o.buffered) :
    s'.isBuffered o' = s.isBuffered o := by
  simp [State.isBuffered, hc, hb]

theorem mem_delEntry {s : State} {r : Nat} {p : Nat × Entry} (hp : p ∈ (s.delEntry r).entries) :
    p ∈ s.entries ∧ p.1 ≠ r := by
  simp only [State.delEntry, List.mem_filter, decide_eq_true_eq] at hp
  exact hp

theorem mem_setEntry_key {s : State} {r : Nat} {e : Entry} {p : Nat × Entry}
    (hp : p ∈ (s.setEntry r e).entries) : p.1 = r ∨ p ∈ s.entries := by
  unfold State.setEntry at hp
  simp only at hp
  split at hp
  · obtain ⟨q, hq, rfl⟩ := List.mem_map.mp hp
    by_cases hqr : q.1 = r
    · simp [hqr]
    · simp only [hqr, if_false]; exact Or.inr hq
  · rcases List.mem_append.mp hp with h | h
    · exact Or.inr h
    · simp only [List.mem_cons, List.not_mem_nil, or_false] at h; subst h; exact Or.inl rfl

theorem entry_mem {s : State} {r : Nat} {e : Entry} (h : s.entry r = some e) : (r, e) ∈ s.entries := by
  unfold State.entry at h
  cases hf : s.entries.find? (·.1 = r) with
  | none => simp [hf] at h
  | some p =>
    simp only [hf, Option.map_some, Option.some.injEq] at h
    have h1 := List.mem_of_find?_eq_some hf
    have h2 := List.find?_some hf
    simp only [decide_eq_true_eq] at h2
    have : p = (r, e) := by cases p; simp_all
    rw [← this]; exact h1

end SC.B

namespace SC.B
open SC

/-- serialized flush: frame; the result's entries are a sub-list of the old ones; and if the
flush was due (object not buffered, or forced) the object's file has left the buffer -/
theorem flushSer_facts (s : State) (oi : Nat) (o : Obj) (force : Bool) :
    Frame s (flushSer s oi o force).1 ∧
    (∀ p ∈ (flushSer s oi o force).1.entries, p ∈ s.entries) ∧
    ((!(s.isBuffered o) || force) = true → ∀ p ∈ (flushSer s oi o force).1.entries, p.1 ≠ o.res) := by
  unfold flushSer
  split
  · rename_i hdue
    cases he : s.entry o.res with
    | none =>
      refine ⟨Frame.refl s, fun p hp => hp, fun _ p hp hpr => ?_⟩
      -- no entry for o.res at all
      have : s.entries.find? (·.1 = o.res) = none := by simpa [State.entry] using he
      have := List.find?_eq_none.mp this p hp
      simp [hpr] at this
    | some e =>
      simp only
      -- every branch ends in `fin s'` with s' having the entries of s
      have hfin : ∀ s' : State, Frame s s' → s'.entries = s.entries →
          Frame s { (s'.delEntry o.res) with size := s'.size - encLen s.flen e.contents } ∧
          (∀ p ∈ ({ (s'.delEntry o.res) with size := s'.size - encLen s.flen e.contents } : State).entries, p ∈ s.entries) ∧
          (∀ p ∈ ({ (s'.delEntry o.res) with size := s'.size - encLen s.flen e.contents } : State).entries, p.1 ≠ o.res) := by
        intro s' hf hent
        refine ⟨⟨hf.ctx, hf.objs, ?_, hf.strat, hf.reg⟩, ?_, ?_⟩
        · intro p hp
          have := (mem_delEntry (s := s') hp).1
          exact ⟨p.2, by rw [← hent]; exact this⟩
        · intro p hp; rw [← hent]; exact (mem_delEntry (s := s') hp).1
        · intro p hp; exact (mem_delEntry (s := s') hp).2
      split
      · split
        · have := hfin s (Frame.refl s) rfl
          exact ⟨this.1, this.2.1, fun _ => this.2.2⟩
        · cases hm : mergeInto s oi o e.contents with
          | mk s1 err =>
            have hf1 : Frame s s1 := by have := frame_mergeInto s oi o e.contents; rwa [hm] at this
            have he1 : s1.entries = s.entries := by
              have := (sameBook_mergeInto s oi o e.contents).1; rwa [hm] at this
            cases err with
            | some er =>
              have := hfin s1 hf1 he1
              exact ⟨this.1, this.2.1, fun _ => this.2.2⟩
            | none =>
              simp only
              have hts := frame_trySave s1 o
              have := hfin (trySave s1 o).1 (hf1.trans hts.1) (hts.2.trans he1)
              exact ⟨this.1, this.2.1, fun _ => this.2.2⟩
      · have := hfin s (Frame.refl s) rfl
        exact ⟨this.1, this.2.1, fun _ => this.2.2⟩
  · rename_i hdue
    exact ⟨Frame.refl s, fun p hp => hp, fun h => absurd h hdue⟩

end SC.B

namespace SC.B
open SC

theorem map_set_same {α β : Type} (f : α → β) : ∀ (l : List α) (i : Nat) (a a' : α),
    l[i]? = some a → f a' = f a → (l.set i a').map f = l.map f
  | [], i, a, a', h, _ => by simp at h
  | x :: xs, 0, a, a', h, hf => by
    simp only [List.getElem?_cons_zero, Option.some.injEq] at h
    subst h; simp [List.set, hf]
  | x :: xs, i + 1, a, a', h, hf => by
    simp only [List.getElem?_cons_succ] at h
    simp only [List.set, List.map_cons, map_set_same f xs i a a' h hf]

theorem frame_setObj {s : State} {oi : Nat} {o o' : Obj} (ho : s.objs[oi]? = some o)
    (hr : o'.res = o.res) (hb : o'.buffered = o.buffered) : Frame s (s.setObj oi o') :=
  ⟨rfl, by
    show (s.objs.set oi o').map _ = _
    exact map_set_same _ s.objs oi o o' ho (by simp [hr, hb]), fun p hp => ⟨p.2, hp⟩, rfl, rfl⟩

theorem mem_setEntry_cases {s : State} {r : Nat} {e : Entry} {p : Nat × Entry}
    (hp : p ∈ (s.setEntry r e).entries) : p = (r, e) ∨ (p ∈ s.entries ∧ p.1 ≠ r) := by
  unfold State.setEntry at hp
  simp only at hp
  split at hp
  · obtain ⟨q, hq, rfl⟩ := List.mem_map.mp hp
    by_cases hqr : q.1 = r
    · simp [hqr]
    · simp only [hqr, if_false]; exact Or.inr ⟨hq, hqr⟩
  · rename_i hany
    rcases List.mem_append.mp hp with h | h
    · refine Or.inr ⟨h, ?_⟩
      intro hpr
      exact hany (List.any_eq_true.mpr ⟨p, h, by simp [hpr]⟩)
    · simp only [List.mem_cons, List.not_mem_nil, or_false] at h; exact Or.inl h

/-- the four facts about a shared-memory flush, as one predicate on the result -/
def MemFacts (s : State) (o : Obj) (force due : Bool) (R : State) : Prop :=
  Frame s R ∧
  (∀ p ∈ R.entries, p ∈ s.entries ∨ (p.1 = o.res ∧ p.2.modified = false)) ∧
  (due = true → force = false → ∀ p ∈ R.entries, p.1 ≠ o.res) ∧
  (due = true → force = true → ∀ p ∈ R.entries, p.1 = o.res → p.2.modified = false)

/-- a result that differs from `s` in memory only, when `s` has no entry for the file -/
theorem memFacts_of_same {s X : State} {o : Obj} {force due : Bool} (hf : Frame s X) (hx : X.entries = s.entries)
    (hno : ∀ p ∈ s.entries, p.1 ≠ o.res) : MemFacts s o force due X :=
  ⟨hf, fun p hp => Or.inl (hx ▸ hp), fun _ _ p hp => hno p (hx ▸ hp),
   fun _ _ p hp hpr => absurd hpr (hno p (hx ▸ hp))⟩

/-- the `finally` part of the flush of an existing entry: `X` is any state with the entries of `s` -/
theorem memFacts_fin {s X : State} {o : Obj} {e : Entry} (force : Bool) (e' : Entry) (he : s.entry o.res = some e)
    (hxf : Frame s X) (hxe : X.entries = s.entries) :
    MemFacts s o force true
      (if !force then X.delEntry o.res else X.setEntry o.res { e' with modified := false }) := by
  cases force
  · simp only [Bool.not_false, if_true]
    refine ⟨⟨hxf.ctx, hxf.objs, ?_, hxf.strat, hxf.reg⟩, ?_, ?_, ?_⟩
    · intro p hp; exact ⟨p.2, by rw [← hxe]; exact (mem_delEntry hp).1⟩
    · intro p hp; exact Or.inl (by rw [← hxe]; exact (mem_delEntry hp).1)
    · intro _ _ p hp; exact (mem_delEntry hp).2
    · intro _ h; simp at h
  · simp only [Bool.not_true, Bool.false_eq_true, if_false]
    refine ⟨⟨hxf.ctx, hxf.objs, ?_, hxf.strat, hxf.reg⟩, ?_, ?_, ?_⟩
    · intro p hp
      rcases mem_setEntry_cases hp with rfl | h
      · exact ⟨e, entry_mem he⟩
      · exact ⟨p.2, hxe ▸ h.1⟩
    · intro p hp
      rcases mem_setEntry_cases hp with rfl | h
      · exact Or.inr ⟨rfl, rfl⟩
      · exact Or.inl (hxe ▸ h.1)
    · intro _ h; simp at h
    · intro _ _ p hp hpr
      rcases mem_setEntry_cases hp with rfl | h
      · rfl
      · exact absurd hpr h.2

theorem reload_facts (s : State) (o : Obj) (oi : Nat) (force : Bool)
    (hno : ∀ p ∈ s.entries, p.1 ≠ o.res) :
    MemFacts s o force true
      (match loadFromResource s o with
       | none => (s, (none : Option Err))
       | some d => mergeInto s oi o d).1 := by
  cases loadFromResource s o with
  | none => exact memFacts_of_same (Frame.refl s) rfl hno
  | some d => exact memFacts_of_same (frame_mergeInto _ _ _ _) ((sameBook_mergeInto _ _ _ _).1) hno

theorem flushMem_facts (s : State) (oi : Nat) (o : Obj) (force : Bool) (ho : s.objs[oi]? = some o) :
    MemFacts s o force (!(s.isBuffered o) || force) (flushMem s oi o force).1 := by
  unfold flushMem
  split
  · rename_i hdue
    rw [hdue]
    cases he : s.entry o.res with
    | none =>
      have hno : ∀ p ∈ s.entries, p.1 ≠ o.res := by
        intro p hp hpr
        have : s.entries.find? (·.1 = o.res) = none := by simpa [State.entry] using he
        have := List.find?_eq_none.mp this p hp
        simp [hpr] at this
      simp only
      split
      · -- merge the file content in place: memory only
        exact reload_facts s o oi force hno
      · exact memFacts_of_same (Frame.refl s) rfl hno
    | some e =>
      have hts := frame_trySave (s.setObj oi { o with cell := e.cell }) { o with cell := e.cell }
      have hsave : Frame s (trySave (s.setObj oi { o with cell := e.cell }) { o with cell := e.cell }).1 :=
        (frame_setObj (o' := { o with cell := e.cell }) ho rfl rfl).trans hts.1
      cases hm : e.modified
      · simp only [hm, Bool.false_eq_true, if_false]
        exact memFacts_fin force e he (Frame.refl s) rfl
      · simp only [hm, if_true]
        split
        · exact memFacts_fin force e he (Frame.of_eq rfl rfl rfl rfl rfl) rfl
        · split
          · exact memFacts_fin force e he (hsave.trans (Frame.of_eq rfl rfl rfl rfl rfl)) hts.2
          · exact memFacts_fin force _ he (hsave.trans (Frame.of_eq rfl rfl rfl rfl rfl)) hts.2
  · rename_i hdue
    have hd : (!(s.isBuffered o) || force) = false := by simpa using hdue
    rw [hd]
    refine ⟨?_, ?_, fun h => by simp at h, fun h => by simp at h⟩
    · exact Frame.trans (b := { (s.setCell s.nextCell (s.root o)) with nextCell := s.nextCell + 1 })
        (Frame.of_eq rfl rfl rfl rfl rfl) (frame_setObj ho rfl rfl)
    · intro p hp
      exact Or.inl hp

end SC.B

namespace SC.B
open SC

/-- "file `r` is not in the buffer" -/
def Absent (r : Nat) (s : State) : Prop := ∀ p ∈ s.entries, p.1 ≠ r
/-- "the buffered copy of `r`, if any, is unmodified" -/
def Unmod (r : Nat) (s : State) : Prop := ∀ p ∈ s.entries, p.1 = r → p.2.modified = false
/-- entries only disappear or become unmodified -/
def Evolves (s s' : State) : Prop := ∀ p ∈ s'.entries, p ∈ s.entries ∨ p.2.modified = false

theorem Evolves.refl (s : State) : Evolves s s := fun _ hp => Or.inl hp
theorem Evolves.trans {a b c : State} (h1 : Evolves a b) (h2 : Evolves b c) : Evolves a c := by
  intro p hp
  rcases h2 p hp with h | h
  · exact h1 p h
  · exact Or.inr h

theorem Absent.of_frame {r : Nat} {s s' : State} (hf : Frame s s') (h : Absent r s) : Absent r s' := by
  intro p hp hpr
  obtain ⟨e0, he0⟩ := hf.sub p hp
  exact h (p.1, e0) he0 hpr

theorem Unmod.of_evolves {r : Nat} {s s' : State} (he : Evolves s s') (h : Unmod r s) : Unmod r s' := by
  intro p hp hpr
  rcases he p hp with h1 | h1
  · exact h p h1 hpr
  · exact h1

/-- was the flush of `o` due? -/
def due (s : State) (o : Obj) (force : Bool) : Bool := !(s.isBuffered o) || force

theorem flushOne_facts (s : State) (oi : Nat) (force : Bool) (o : Obj) (ho : s.objs[oi]? = some o)
    (hst : s.strategy ≠ .none) :
    Frame s (flushOne s oi force).1 ∧ Evolves s (flushOne s oi force).1 ∧
    (due s o force = true → (s.strategy = .serialized ∨ force = false) → Absent o.res (flushOne s oi force).1) ∧
    (due s o force = true → s.strategy = .sharedMemory → force = true → Unmod o.res (flushOne s oi force).1) := by
  unfold flushOne
  simp only [ho]
  cases hs : s.strategy with
  | none => exact absurd hs hst
  | serialized =>
    simp only
    have h := flushSer_facts s oi o force
    refine ⟨h.1, fun p hp => Or.inl (h.2.1 p hp), fun hd _ => h.2.2 hd, fun _ h2 => by simp at h2⟩
  | sharedMemory =>
    simp only
    have h := flushMem_facts s oi o force ho
    refine ⟨h.1, ?_, ?_, ?_⟩
    · intro p hp
      rcases h.2.1 p hp with h1 | h1
      · exact Or.inl h1
      · exact Or.inr h1.2
    · intro hd hor
      rcases hor with h2 | h2
      · simp at h2
      · exact h.2.2.1 hd h2
    · intro hd _ hf
      exact h.2.2.2 hd hf

/-- which registered objects stay registered after a flush of the buffer -/
def keeps (s : State) (force retain : Bool) (oi : Nat) : Bool :=
  match s.objs[oi]? with
  | none => false
  | some o => (s.isBuffered o && !force) || (force && retain)

theorem due_frame {s s' : State} (hf : Frame s s') {oi : Nat} {o : Obj} (ho : s.objs[oi]? = some o) (force : Bool) :
    ∃ o', s'.objs[oi]? = some o' ∧ o'.res = o.res ∧ due s' o' force = due s o force ∧
      s'.isBuffered o' = s.isBuffered o := by
  obtain ⟨o', ho', hr, hb⟩ := obj_of_frame' hf ho
  have hib := isBuffered_eq (s := s) (s' := s') hf.ctx hb
  exact ⟨o', ho', hr, by simp [due, hib], hib⟩

theorem keeps_frame {s s' : State} (hf : Frame s s') (force retain : Bool) (oi : Nat) :
    keeps s' force retain oi = keeps s force retain oi := by
  unfold keeps
  cases ho : s.objs[oi]? with
  | none =>
    have : s'.objs[oi]? = none := by
      cases ho' : s'.objs[oi]? with
      | none => rfl
      | some o' => obtain ⟨o, h, _⟩ := obj_of_frame hf ho'; rw [ho] at h; simp at h
    simp [this]
  | some o =>
    obtain ⟨o', ho', _, _, hib⟩ := due_frame hf ho force
    simp [ho', hib]

/-- the loop of `_flush_buffer` -/
theorem flushBufferLoop_facts (force retain : Bool) (order : List Nat) :
    ∀ (s : State) (remaining issues : List Nat), s.strategy ≠ .none →
      let R := flushBufferLoop force retain order s remaining issues
      Frame s R.1 ∧ Evolves s R.1 ∧
      (∀ oi ∈ order, ∀ o, s.objs[oi]? = some o → due s o force = true →
        ((s.strategy = .serialized ∨ force = false) → Absent o.res R.1) ∧
        (s.strategy = .sharedMemory → force = true → Unmod o.res R.1)) ∧
      R.2.1 = remaining ++ order.filter (keeps s force retain) := by
  induction order with
  | nil =>
    intro s remaining issues _
    simp only [flushBufferLoop]
    exact ⟨Frame.refl s, Evolves.refl s, by intro oi h; simp at h, by simp⟩
  | cons oi rest ih =>
    intro s remaining issues hst
    simp only
    unfold flushBufferLoop
    cases ho : s.objs[oi]? with
    | none =>
      simp only
      have := ih s remaining issues hst
      refine ⟨this.1, this.2.1, ?_, ?_⟩
      · intro oj hoj o hoo hd
        rcases List.mem_cons.mp hoj with rfl | hm
        · rw [ho] at hoo; simp at hoo
        · exact this.2.2.1 oj hm o hoo hd
      · rw [this.2.2.2]; simp [List.filter_cons, keeps, ho]
    | some o =>
      simp only
      by_cases hkeep : (s.isBuffered o && !force) = true
      · -- still buffered and not forced: stays registered, not flushed
        simp only [hkeep, if_true]
        have := ih s (remaining ++ [oi]) issues hst
        have hnd : due s o force = false := by
          simp only [Bool.and_eq_true, Bool.not_eq_true'] at hkeep
          simp [due, hkeep.1, hkeep.2]
        refine ⟨this.1, this.2.1, ?_, ?_⟩
        · intro oj hoj o2 hoo hd
          rcases List.mem_cons.mp hoj with rfl | hm
          · rw [ho] at hoo; simp only [Option.some.injEq] at hoo; subst hoo; rw [hnd] at hd; simp at hd
          · exact this.2.2.1 oj hm o2 hoo hd
        · rw [this.2.2.2]
          have : keeps s force retain oi = true := by simp [keeps, ho, hkeep]
          simp [List.filter_cons, this, List.append_assoc]
      · rw [if_neg hkeep]
        have hdue : due s o force = true := by
          simp only [Bool.and_eq_true, Bool.not_eq_true', not_and, Bool.not_eq_false] at hkeep
          simp only [due, Bool.or_eq_true, Bool.not_eq_true']
          by_cases hb : s.isBuffered o = true
          · exact Or.inr (hkeep hb)
          · exact Or.inl (by simpa using hb)
        cases hf1 : flushOne s oi force with
        | mk s1 err =>
          have hone := flushOne_facts s oi force o ho hst
          rw [hf1] at hone
          obtain ⟨f1, e1, a1, u1⟩ := hone
          have hst1 : s1.strategy ≠ .none := by rw [f1.strat]; exact hst
          -- whichever error branch, the recursive call is on s1 with some remaining' and issues'
          have hrec : ∀ (rem' iss' : List Nat),
              rem' = (if (force && retain) = true then remaining ++ [oi] else remaining) →
              let R := flushBufferLoop force retain rest s1 rem' iss'
              Frame s R.1 ∧ Evolves s R.1 ∧
              (∀ oj ∈ oi :: rest, ∀ o2, s.objs[oj]? = some o2 → due s o2 force = true →
                ((s.strategy = .serialized ∨ force = false) → Absent o2.res R.1) ∧
                (s.strategy = .sharedMemory → force = true → Unmod o2.res R.1)) ∧
              R.2.1 = remaining ++ (oi :: rest).filter (keeps s force retain) := by
            intro rem' iss' hrem
            have := ih s1 rem' iss' hst1
            simp only at this ⊢
            obtain ⟨f2, e2, a2, r2⟩ := this
            refine ⟨f1.trans f2, e1.trans e2, ?_, ?_⟩
            · intro oj hoj o2 hoo hd
              have hhead : ∀ o2, s.objs[oi]? = some o2 → due s o2 force = true →
                  ((s.strategy = .serialized ∨ force = false) → Absent o2.res (flushBufferLoop force retain rest s1 rem' iss').1) ∧
                  (s.strategy = .sharedMemory → force = true → Unmod o2.res (flushBufferLoop force retain rest s1 rem' iss').1) := by
                intro o2 hoo2 hd2
                rw [ho] at hoo2; simp only [Option.some.injEq] at hoo2; subst hoo2
                exact ⟨fun h => (a1 hd2 h).of_frame f2, fun h1 h2 => (u1 hd2 h1 h2).of_evolves e2⟩
              rcases List.mem_cons.mp hoj with rfl | hm
              · exact hhead o2 hoo hd
              · obtain ⟨o2', ho2', hr2, hd2, _⟩ := due_frame f1 hoo force
                have := a2 oj hm o2' ho2' (by rw [hd2]; exact hd)
                rw [hr2, f1.strat] at this
                exact this
            · rw [r2, hrem]
              have hk : keeps s force retain oi = (force && retain) := by
                simp only [keeps, ho]
                simp only [Bool.not_eq_true] at hkeep
                simp [hkeep]
              have hfilt : rest.filter (keeps s1 force retain) = rest.filter (keeps s force retain) := by
                apply List.filter_congr
                intro x _
                exact keeps_frame f1 force retain x
              rw [hfilt]
              cases hfr : (force && retain) <;> simp [List.filter_cons, hk, hfr, List.append_assoc]
          simp only
          split <;> exact hrec _ _ rfl

end SC.B

namespace SC.B
open SC

/-- holders survive: registered stay registered, objects keep their file, buffered stay buffered -/
structure Mono (s s' : State) : Prop where
  reg : ∀ x ∈ s.registry, x ∈ s'.registry
  obj : ∀ (oi : Nat) (o : Obj), s.objs[oi]? = some o →
    ∃ o' : Obj, s'.objs[oi]? = some o' ∧ o'.res = o.res ∧ (s.isBuffered o = true → s'.isBuffered o' = true)

theorem Mono.refl (s : State) : Mono s s := ⟨fun _ h => h, fun _ o h => ⟨o, h, rfl, id⟩⟩
theorem Mono.trans {a b c : State} (h1 : Mono a b) (h2 : Mono b c) : Mono a c :=
  ⟨fun x hx => h2.reg x (h1.reg x hx), fun oi o ho => by
    obtain ⟨o1, ho1, hr1, hb1⟩ := h1.obj oi o ho
    obtain ⟨o2, ho2, hr2, hb2⟩ := h2.obj oi o1 ho1
    exact ⟨o2, ho2, hr2.trans hr1, fun h => hb2 (hb1 h)⟩⟩

theorem Mono.of_frame {s s' : State} (hf : Frame s s') (hreg : ∀ x ∈ s.registry, x ∈ s'.registry) : Mono s s' :=
  ⟨hreg, fun oi o ho => by
    obtain ⟨o', ho', hr, _, hib⟩ := due_frame hf ho false
    exact ⟨o', ho', hr, fun h => by rw [hib]; exact h⟩⟩

theorem holder_mono {s s' : State} (hm : Mono s s') {r : Nat} (h : Holder s r) : Holder s' r := by
  obtain ⟨oi, hreg, o, ho, hr, hb⟩ := h
  obtain ⟨o', ho', hr', hb'⟩ := hm.obj oi o ho
  exact ⟨oi, hm.reg oi hreg, o', ho', hr'.trans hr, hb' hb⟩

/-- new entries keys come from old entries, holders survive -/
theorem Held.of_mono {s s' : State} (hsub : ∀ p ∈ s'.entries, ∃ e0, (p.1, e0) ∈ s.entries) (hm : Mono s s')
    (h : Held s) : Held s' := by
  intro p hp
  obtain ⟨e0, he0⟩ := hsub p hp
  exact holder_mono hm (h (p.1, e0) he0)

/-- every buffered file has a registered object bound to it (buffered or not) -/
def WHeld (s : State) : Prop :=
  ∀ p ∈ s.entries, ∃ h ∈ s.registry, ∃ o, s.objs[h]? = some o ∧ o.res = p.1

theorem Held.weak {s : State} (h : Held s) : WHeld s := by
  intro p hp
  obtain ⟨oi, hreg, o, ho, hr, _⟩ := h p hp
  exact ⟨oi, hreg, o, ho, hr⟩

theorem strategy_cases {s : State} (h : s.strategy ≠ .none) :
    s.strategy = .serialized ∨ s.strategy = .sharedMemory := by
  cases hs : s.strategy <;> simp_all

/-- `_flush_buffer`: every file still in the buffer afterwards has a buffered, registered holder.
Needs only that every buffered file had a registered object (for a non-forced flush, and for a
forced serialized one) — objects that are no longer buffered get flushed, which removes their file. -/
theorem flushBuffer_held (s : State) (force : Bool) (hst : s.strategy ≠ .none)
    (hw : WHeld s) (hh : force = true → s.strategy = .sharedMemory → Held s) :
    Held (flushBuffer s force).1 := by
  unfold flushBuffer
  simp only
  have hst0 : ({ s with registry := [] } : State).strategy ≠ .none := hst
  have hl := flushBufferLoop_facts force (s.strategy == .sharedMemory) s.registry.reverse
    { s with registry := [] } [] [] hst0
  simp only at hl
  cases hloop : flushBufferLoop force (s.strategy == .sharedMemory) s.registry.reverse
      { s with registry := [] } [] [] with
  | mk s1 rest =>
    obtain ⟨remaining, issues⟩ := rest
    rw [hloop] at hl
    simp only at hl
    obtain ⟨f, _, facts, hrem⟩ := hl
    have key : Held { s1 with registry := remaining ++ s1.registry.filter (fun x => !remaining.contains x) } := by
      intro p hp
      have hp1 : p ∈ s1.entries := hp
      obtain ⟨e0, he0⟩ := f.sub p hp1
      have he0s : (p.1, e0) ∈ s.entries := he0
      -- a registered object on the file; a buffered one when the flush is forced with retention
      have hpick : ∃ h ∈ s.registry, ∃ o : Obj, s.objs[h]? = some o ∧ o.res = p.1 ∧
          ((force = true ∧ s.strategy = .sharedMemory) → s.isBuffered o = true) := by
        by_cases hfm : force = true ∧ s.strategy = .sharedMemory
        · obtain ⟨h2, hreg2, o2, ho2, hr2, hb2⟩ := hh hfm.1 hfm.2 (p.1, e0) he0s
          exact ⟨h2, hreg2, o2, ho2, hr2, fun _ => hb2⟩
        · obtain ⟨h2, hreg2, o2, ho2, hr2⟩ := hw (p.1, e0) he0s
          exact ⟨h2, hreg2, o2, ho2, hr2, fun hx => absurd hx hfm⟩
      obtain ⟨h, hreg, o, ho, hr, hbf⟩ := hpick
      have hord : h ∈ s.registry.reverse := List.mem_reverse.mpr hreg
      have ho0 : ({ s with registry := [] } : State).objs[h]? = some o := ho
      obtain ⟨o', ho', hr', _, hib⟩ := due_frame f ho0 force
      -- is h kept?
      by_cases hk : keeps { s with registry := [] } force (s.strategy == .sharedMemory) h = true
      · have hin : h ∈ remaining := by
          rw [hrem]; simp only [List.nil_append]
          exact List.mem_filter.mpr ⟨hord, hk⟩
        -- h is buffered in the result
        have hbuf : s.isBuffered o = true := by
          simp only [keeps, ho0, Bool.or_eq_true, Bool.and_eq_true] at hk
          rcases hk with hk | hk
          · exact hk.1
          · exact hbf ⟨hk.1, by simpa using hk.2⟩
        exact ⟨h, List.mem_append_left _ hin, o', ho', hr'.trans hr, by
          show State.isBuffered { s1 with registry := _ } o' = true
          have : State.isBuffered { s1 with registry := remaining ++ s1.registry.filter (fun x => !remaining.contains x) } o'
              = s1.isBuffered o' := rfl
          rw [this, hib]; exact hbuf⟩
      · -- h was flushed: its file left the buffer
        exfalso
        have hdue : due { s with registry := [] } o force = true := by
          simp only [keeps, ho0, Bool.or_eq_true, Bool.and_eq_true, not_or, not_and] at hk
          simp only [due, Bool.or_eq_true, Bool.not_eq_true']
          by_cases hf : force = true
          · exact Or.inr hf
          · left
            have := hk.1
            by_cases hb : State.isBuffered { s with registry := [] } o = true
            · exact absurd (this hb) (by simp [hf])
            · simpa using hb
        have hcase : s.strategy = .serialized ∨ force = false := by
          rcases strategy_cases hst with h1 | h1
          · exact Or.inl h1
          · right
            simp only [keeps, ho0, Bool.or_eq_true, Bool.and_eq_true, not_or, not_and] at hk
            by_cases hf : force = true
            · exact absurd (by simp [h1]) (hk.2 hf)
            · simpa using hf
        have habs := (facts h hord o ho0 hdue).1 hcase
        exact habs p hp1 (hr.symm ▸ rfl)
    split <;> exact key

end SC.B
