/-
Identities under the merge.  `_update` keeps the Python objects that stay (their identities are
unchanged) and creates new ones for new containers (`_from_base`, identities from the counter).
So if the identities of a tree are pairwise distinct and below the counter before a merge, they
are so after it — at any depth, for any data, also when the merge stops with an exception.
This is what makes "the object the user holds" and "the node at the path" the same thing
(`Lemmas/Path.lean`).
-/
import SC.Lemmas.Fresh
import SC.Lemmas.Path
namespace SC
variable {ι : Type}

/-- outcome of a step that started at counter `n` with identities `old`: the counter did not go
back, the new identities are pairwise distinct, each is an old one or was drawn from `[n, next)` -/
def IdStep (n : Nat) (old : List Nat) (next : Nat) (new : List Nat) : Prop :=
  n ≤ next ∧ new.Nodup ∧ ∀ i ∈ new, i ∈ old ∨ (n ≤ i ∧ i < next)

theorem IdStep.refl {n : Nat} {old : List Nat} (h : old.Nodup) : IdStep n old n old :=
  ⟨Nat.le_refl _, h, fun _ hi => Or.inl hi⟩

theorem IdStep.bound {n next : Nat} {old new : List Nat} (h : IdStep n old next new)
    (hb : ∀ i ∈ old, i < n) : ∀ i ∈ new, i < next := by
  intro i hi
  rcases h.2.2 i hi with ho | hf
  · have := hb i ho; have := h.1; omega
  · exact hf.2

theorem idsKV_append : ∀ (a b : List (Key × T)), Tr.idsKV (a ++ b) = Tr.idsKV a ++ Tr.idsKV b
  | [], b => rfl
  | (k, v) :: a, b => by simp [Tr.idsKV, idsKV_append a b]

theorem idsKV_filter_sublist (p : Key × T → Bool) : ∀ (kvs : List (Key × T)),
    (Tr.idsKV (kvs.filter p)).Sublist (Tr.idsKV kvs)
  | [] => by simp [Tr.idsKV]
  | (k, v) :: kvs => by
    simp only [List.filter]
    split
    · simp only [Tr.idsKV]; exact List.Sublist.append (List.Sublist.refl _) (idsKV_filter_sublist p kvs)
    · simp only [Tr.idsKV]; exact (idsKV_filter_sublist p kvs).trans (List.sublist_append_right _ _)

/-! ### replacing one binding -/

theorem mem_idsKV_setKey {k : Key} {v : T} : ∀ {cur : List (Key × T)} {i : Nat},
    i ∈ Tr.idsKV (Tr.setKey k v cur) → i ∈ Tr.ids v ∨ i ∈ Tr.idsKV cur
  | [], i, h => by simp [Tr.setKey, Tr.idsKV] at h; exact Or.inl h
  | (k', v') :: rest, i, h => by
    simp only [Tr.setKey] at h
    split at h
    · simp only [Tr.idsKV, List.mem_append] at h ⊢
      rcases h with h | h
      · exact Or.inl h
      · exact Or.inr (Or.inr h)
    · simp only [Tr.idsKV, List.mem_append] at h ⊢
      rcases h with h | h
      · exact Or.inr (Or.inl h)
      · rcases mem_idsKV_setKey h with h | h
        · exact Or.inl h
        · exact Or.inr (Or.inr h)

theorem nodup_idsKV_setKey {k : Key} {v : T} : ∀ {cur : List (Key × T)} {ex : T},
    (Tr.idsKV cur).Nodup → Tr.lookup k cur = some ex → (Tr.ids v).Nodup →
    (∀ i ∈ Tr.ids v, i ∈ Tr.ids ex ∨ i ∉ Tr.idsKV cur) → (Tr.idsKV (Tr.setKey k v cur)).Nodup
  | [], _, _, hl, _, _ => by simp [Tr.lookup] at hl
  | (k', v') :: rest, ex, hn, hl, hv, hsrc => by
    simp only [Tr.idsKV] at hn
    have hnd := List.nodup_append.mp hn
    simp only [Tr.lookup] at hl
    simp only [Tr.setKey]
    split at hl
    · rename_i hk
      simp only [Option.some.injEq] at hl; subst hl
      simp only [hk, if_true, Tr.idsKV]
      refine List.nodup_append.mpr ⟨hv, hnd.2.1, ?_⟩
      intro a ha b hb hab
      subst hab
      rcases hsrc a ha with h | h
      · exact hnd.2.2 a h a hb rfl
      · exact h (by simp only [Tr.idsKV, List.mem_append]; exact Or.inr hb)
    · rename_i hk
      simp only [hk, if_false, Tr.idsKV]
      have hex : ∀ i ∈ Tr.ids ex, i ∈ Tr.idsKV rest := ids_of_lookup hl
      have ih := nodup_idsKV_setKey (k := k) (v := v) hnd.2.1 hl hv (by
        intro i hi
        rcases hsrc i hi with h | h
        · exact Or.inl h
        · exact Or.inr (fun hr => h (by simp only [Tr.idsKV, List.mem_append]; exact Or.inr hr)))
      refine List.nodup_append.mpr ⟨hnd.1, ih, ?_⟩
      intro a ha b hb hab
      subst hab
      rcases mem_idsKV_setKey hb with h | h
      · rcases hsrc a h with h2 | h2
        · exact hnd.2.2 a ha a (hex a h2) rfl
        · exact h2 (by simp only [Tr.idsKV, List.mem_append]; exact Or.inl ha)
      · exact hnd.2.2 a ha a h rfl

/-! ### one position of the loop -/

theorem elemStep_ids {existing : T} {new : Tr ι} {nested : UpdRes T} {verr : Option Err} {n : Nat}
    (he : (Tr.ids existing).Nodup)
    (hn : IdStep n (Tr.ids existing) nested.next (Tr.ids nested.val)) :
    IdStep n (Tr.ids existing) (elemStep existing new nested verr n).next
      (Tr.ids (elemStep existing new nested verr n).val) := by
  have hrep : ∀ (cur : T) (m : Nat) (det : List T), IdStep n (Tr.ids existing) m (Tr.ids cur) →
      IdStep n (Tr.ids existing)
        (match verr with
         | some e => (⟨cur, m, det, some e⟩ : UpdRes T)
         | none => ⟨(fromBase new m).1, (fromBase new m).2, det ++ containers [cur], none⟩).next
        (Tr.ids (match verr with
         | some e => (⟨cur, m, det, some e⟩ : UpdRes T)
         | none => ⟨(fromBase new m).1, (fromBase new m).2, det ++ containers [cur], none⟩).val) := by
    intro cur m det hc
    cases verr with
    | some e => exact hc
    | none =>
      have hf := fromBase_fresh new m
      dsimp only
      refine ⟨by have := hc.1; have := hf.1; omega, hf.2.2, ?_⟩
      intro i hi
      have := hf.2.1 i hi
      have := hc.1
      exact Or.inr ⟨by omega, by omega⟩
  unfold elemStep
  cases existing with
  | leaf s =>
    cases new with
    | leaf s' =>
      simp only
      split
      · exact IdStep.refl he
      · exact hrep _ _ _ (IdStep.refl he)
    | list i xs => exact hrep _ _ _ (IdStep.refl he)
    | dict i kvs => exact hrep _ _ _ (IdStep.refl he)
  | list i xs =>
    simp only
    split
    · exact hrep _ _ _ (IdStep.refl he)
    · split
      · exact hn
      · split
        · exact hrep _ _ _ hn
        · exact hn
  | dict i kvs =>
    simp only
    split
    · exact hrep _ _ _ (IdStep.refl he)
    · split
      · exact hn
      · split
        · exact hrep _ _ _ hn
        · exact hn

/-! ### the merge -/

variable (fam : Fam)

mutual
/-- THE IDENTITY INVARIANT OF THE MERGE: pairwise distinct identities below the counter stay
pairwise distinct and below the (new) counter; every identity of the result is one the tree had
or a new one — for every tree, every data, whether or not the merge raises -/
theorem updNode_ids : ∀ (d : Tr ι) (t : T) (n : Nat), (Tr.ids t).Nodup → (∀ i ∈ Tr.ids t, i < n) →
    IdStep n (Tr.ids t) (updNode fam t d n).next (Tr.ids (updNode fam t d n).val)
  | .leaf s, t, n, ht, _ => by
    cases s <;> cases t <;> simp only [updNode] <;> exact IdStep.refl ht
  | .list j dxs, t, n, ht, hb => by
    cases t with
    | leaf s => simp only [updNode]; exact IdStep.refl ht
    | dict i kvs => simp only [updNode]; exact IdStep.refl ht
    | list i xs =>
      simp only [Tr.ids, List.nodup_cons] at ht
      have hb' : ∀ a ∈ Tr.idsL xs, a < n := fun a ha => hb a (by simp only [Tr.ids, List.mem_cons]; exact Or.inr ha)
      have hi : i < n := hb i (by simp [Tr.ids])
      have h := updListLoop_ids dxs xs n ht.2 hb'
      simp only [updNode, Tr.ids]
      refine ⟨h.1, List.nodup_cons.mpr ⟨?_, h.2.1⟩, ?_⟩
      · intro hm
        rcases h.2.2 i hm with ho | hf
        · exact ht.1 ho
        · omega
      · intro a ha
        rcases List.mem_cons.mp ha with rfl | ha
        · exact Or.inl (by simp)
        · rcases h.2.2 a ha with ho | hf
          · exact Or.inl (List.mem_cons_of_mem _ ho)
          · exact Or.inr hf
  | .dict j dkvs, t, n, ht, hb => by
    cases t with
    | leaf s => simp only [updNode]; exact IdStep.refl ht
    | list i xs => simp only [updNode]; exact IdStep.refl ht
    | dict i kvs =>
      simp only [Tr.ids, List.nodup_cons] at ht
      have hb' : ∀ a ∈ Tr.idsKV kvs, a < n := fun a ha => hb a (by simp only [Tr.ids, List.mem_cons]; exact Or.inr ha)
      have hi : i < n := hb i (by simp [Tr.ids])
      have h := updDictLoop_ids dkvs kvs n ht.2 hb'
      have hcons : ∀ (l : List Nat), l.Sublist (Tr.idsKV (updDictLoop fam kvs dkvs n).val) →
          IdStep n (i :: Tr.idsKV kvs) (updDictLoop fam kvs dkvs n).next (i :: l) := by
        intro l hl
        refine ⟨h.1, List.nodup_cons.mpr ⟨?_, List.Nodup.sublist hl h.2.1⟩, ?_⟩
        · intro hm
          rcases h.2.2 i (hl.subset hm) with ho | hf
          · exact ht.1 ho
          · omega
        · intro a ha
          rcases List.mem_cons.mp ha with rfl | ha
          · exact Or.inl (by simp)
          · rcases h.2.2 a (hl.subset ha) with ho | hf
            · exact Or.inl (List.mem_cons_of_mem _ ho)
            · exact Or.inr hf
      simp only [updNode]
      split
      · simp only [Tr.ids]; exact hcons _ (List.Sublist.refl _)
      · simp only [Tr.ids]; exact hcons _ (idsKV_filter_sublist _ _)
theorem updDictLoop_ids : ∀ (data : List (Key × Tr ι)) (cur : List (Key × T)) (n : Nat),
    (Tr.idsKV cur).Nodup → (∀ i ∈ Tr.idsKV cur, i < n) →
    IdStep n (Tr.idsKV cur) (updDictLoop fam cur data n).next (Tr.idsKV (updDictLoop fam cur data n).val)
  | [], cur, n, hc, _ => by simp only [updDictLoop]; exact IdStep.refl hc
  | (k, v) :: rest, cur, n, hc, hb => by
    simp only [updDictLoop]
    split
    · -- new key
      split
      · exact IdStep.refl hc
      · have hf := fromBase_fresh v n
        have hids : Tr.idsKV (cur ++ [(k, (fromBase v n).1)]) = Tr.idsKV cur ++ Tr.ids (fromBase v n).1 := by
          rw [idsKV_append]; simp [Tr.idsKV]
        have hc' : (Tr.idsKV (cur ++ [(k, (fromBase v n).1)])).Nodup := by
          rw [hids]
          refine List.nodup_append.mpr ⟨hc, hf.2.2, ?_⟩
          intro a ha b hb2 hab
          have := hb a ha; have := hf.2.1 b hb2; omega
        have hb' : ∀ i ∈ Tr.idsKV (cur ++ [(k, (fromBase v n).1)]), i < (fromBase v n).2 := by
          intro i hi
          rw [hids] at hi
          rcases List.mem_append.mp hi with h | h
          · have := hb i h; have := hf.1; omega
          · exact (hf.2.1 i h).2
        have h := updDictLoop_ids rest _ (fromBase v n).2 hc' hb'
        dsimp only
        refine ⟨by have := h.1; have := hf.1; omega, h.2.1, ?_⟩
        intro i hi
        rcases h.2.2 i hi with ho | hn
        · rw [hids] at ho
          rcases List.mem_append.mp ho with h1 | h1
          · exact Or.inl h1
          · have := hf.2.1 i h1; have := h.1; exact Or.inr ⟨by omega, by omega⟩
        · have := hf.1; exact Or.inr ⟨by omega, hn.2⟩
    · next existing hlook =>
      have hexsub : ∀ i ∈ Tr.ids existing, i ∈ Tr.idsKV cur := ids_of_lookup hlook
      have hexn : (Tr.ids existing).Nodup := nodup_of_lookup hc hlook
      have hexb : ∀ i ∈ Tr.ids existing, i < n := fun i hi => hb i (hexsub i hi)
      have hs := elemStep_ids (new := v) (verr := validateKV fam.dictV [(k, v)]) (n := n) hexn
        (updNode_ids v existing n hexn hexb)
      have hc' : (Tr.idsKV (Tr.setKey k (elemStep existing v (updNode fam existing v n)
          (validateKV fam.dictV [(k, v)]) n).val cur)).Nodup := by
        refine nodup_idsKV_setKey hc hlook hs.2.1 ?_
        intro i hi
        rcases hs.2.2 i hi with ho | hn
        · exact Or.inl ho
        · exact Or.inr (fun hm => by have := hb i hm; omega)
      have hmem : ∀ i ∈ Tr.idsKV (Tr.setKey k (elemStep existing v (updNode fam existing v n)
          (validateKV fam.dictV [(k, v)]) n).val cur), i ∈ Tr.idsKV cur ∨
          (n ≤ i ∧ i < (elemStep existing v (updNode fam existing v n) (validateKV fam.dictV [(k, v)]) n).next) := by
        intro i hi
        rcases mem_idsKV_setKey hi with h | h
        · rcases hs.2.2 i h with ho | hn
          · exact Or.inl (hexsub i ho)
          · exact Or.inr hn
        · exact Or.inl h
      split
      · exact ⟨hs.1, hc', hmem⟩
      · have hb' : ∀ i ∈ Tr.idsKV (Tr.setKey k (elemStep existing v (updNode fam existing v n)
            (validateKV fam.dictV [(k, v)]) n).val cur),
            i < (elemStep existing v (updNode fam existing v n) (validateKV fam.dictV [(k, v)]) n).next := by
          intro i hi
          rcases hmem i hi with h | h
          · have := hb i h; have := hs.1; omega
          · exact h.2
        have h := updDictLoop_ids rest _ (elemStep existing v (updNode fam existing v n)
            (validateKV fam.dictV [(k, v)]) n).next hc' hb'
        dsimp only
        refine ⟨by have := h.1; have := hs.1; omega, h.2.1, ?_⟩
        intro i hi
        rcases h.2.2 i hi with ho | hn
        · rcases hmem i ho with h1 | h1
          · exact Or.inl h1
          · have := h.1; exact Or.inr ⟨h1.1, by omega⟩
        · have := hs.1; exact Or.inr ⟨by omega, hn.2⟩
theorem updListLoop_ids : ∀ (data : List (Tr ι)) (cur : List T) (n : Nat),
    (Tr.idsL cur).Nodup → (∀ i ∈ Tr.idsL cur, i < n) →
    IdStep n (Tr.idsL cur) (updListLoop fam cur data n).next (Tr.idsL (updListLoop fam cur data n).val)
  | [], [], n, hc, _ => by simp only [updListLoop]; exact IdStep.refl hc
  | [], c :: cs, n, _, _ => by
    simp only [updListLoop, Tr.idsL]
    exact ⟨Nat.le_refl _, List.nodup_nil, by simp⟩
  | d :: ds, [], n, _, _ => by
    simp only [updListLoop]
    split
    · simp only [Tr.idsL]; exact ⟨Nat.le_refl _, List.nodup_nil, by simp⟩
    · have hf := fromBaseL_fresh (d :: ds) n
      exact ⟨hf.1, hf.2.2, fun i hi => Or.inr (hf.2.1 i hi)⟩
  | d :: ds, c :: cs, n, hc, hb => by
    simp only [Tr.idsL] at hc hb
    have hnd := List.nodup_append.mp hc
    have hcb : ∀ i ∈ Tr.ids c, i < n := fun i hi => hb i (List.mem_append.mpr (Or.inl hi))
    have hcsb : ∀ i ∈ Tr.idsL cs, i < n := fun i hi => hb i (List.mem_append.mpr (Or.inr hi))
    have hs := elemStep_ids (new := d) (verr := validate fam.listV d) (n := n) hnd.1
      (updNode_ids d c n hnd.1 hcb)
    simp only [updListLoop]
    split
    · -- the position raised: the rest of the list is untouched
      simp only [Tr.idsL]
      refine ⟨hs.1, List.nodup_append.mpr ⟨hs.2.1, hnd.2.1, ?_⟩, ?_⟩
      · intro a ha b hb2 hab
        subst hab
        rcases hs.2.2 a ha with ho | hn
        · exact hnd.2.2 a ho a hb2 rfl
        · have := hcsb a hb2; omega
      · intro i hi
        rcases List.mem_append.mp hi with h | h
        · rcases hs.2.2 i h with ho | hn
          · exact Or.inl (List.mem_append.mpr (Or.inl ho))
          · exact Or.inr hn
        · exact Or.inl (List.mem_append.mpr (Or.inr h))
    · have hcsb' : ∀ i ∈ Tr.idsL cs,
          i < (elemStep c d (updNode fam c d n) (validate fam.listV d) n).next := by
        intro i hi; have := hcsb i hi; have := hs.1; omega
      have h := updListLoop_ids ds cs (elemStep c d (updNode fam c d n) (validate fam.listV d) n).next
        hnd.2.1 hcsb'
      simp only [Tr.idsL]
      refine ⟨by have := h.1; have := hs.1; omega, List.nodup_append.mpr ⟨hs.2.1, h.2.1, ?_⟩, ?_⟩
      · intro a ha b hb2 hab
        subst hab
        rcases hs.2.2 a ha with ho | hn
        · rcases h.2.2 a hb2 with ho2 | hn2
          · exact hnd.2.2 a ho a ho2 rfl
          · have := hcb a ho; have := hs.1; omega
        · rcases h.2.2 a hb2 with ho2 | hn2
          · have := hcsb a ho2; omega
          · omega
      · intro i hi
        rcases List.mem_append.mp hi with h1 | h1
        · rcases hs.2.2 i h1 with ho | hn
          · exact Or.inl (List.mem_append.mpr (Or.inl ho))
          · have := h.1; exact Or.inr ⟨hn.1, by omega⟩
        · rcases h.2.2 i h1 with ho | hn
          · exact Or.inl (List.mem_append.mpr (Or.inr ho))
          · have := hs.1; exact Or.inr ⟨by omega, hn.2⟩
end

end SC
