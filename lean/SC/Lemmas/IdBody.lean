/-
Identities under the operation bodies: whatever public operation runs on a node whose identities
are pairwise distinct and below the counter, the node afterwards has pairwise distinct identities,
each an old one or a newly drawn one — for every operation of the API and every argument, also when
the body raises.
-/
import SC.Lemmas.SubP
import SC.Lemmas.IdInv
import SC.Seq
namespace SC

theorem idsL_eq_flatMap : ∀ xs : List T, Tr.idsL xs = xs.flatMap Tr.ids
  | [] => rfl
  | x :: xs => by simp [Tr.idsL, idsL_eq_flatMap xs]

theorem idsKV_eq_flatMap : ∀ kvs : List (Key × T), Tr.idsKV kvs = kvs.flatMap (fun kv => Tr.ids kv.2)
  | [] => rfl
  | (k, v) :: kvs => by simp [Tr.idsKV, idsKV_eq_flatMap kvs]

theorem idsL_append (a b : List T) : Tr.idsL (a ++ b) = Tr.idsL a ++ Tr.idsL b := by
  simp [idsL_eq_flatMap]

theorem FreshIn.sublist {a b : Nat} {xs ys : List Nat} (h : FreshIn a b xs) (s : ys.Sublist xs) :
    FreshIn a b ys :=
  ⟨fun i hi => h.1 i (s.subset hi), List.Nodup.sublist s h.2⟩

theorem IdStep.refl_le {n m : Nat} {old : List Nat} (h : old.Nodup) (hnm : n ≤ m) : IdStep n old m old :=
  ⟨hnm, h, fun _ hi => Or.inl hi⟩

/-- a container whose children's identities are, up to order, a selection of the old children's and
of newly drawn ones -/
theorem idstep_of_subp {n m i : Nat} {old res nw : List Nat} (hn : (i :: old).Nodup)
    (hb : ∀ a ∈ i :: old, a < n) (hf : FreshIn n m nw) (hnm : n ≤ m) (hs : SubP res (old ++ nw)) :
    IdStep n (i :: old) m (i :: res) := by
  have hn' := List.nodup_cons.mp hn
  have hall : (old ++ nw).Nodup := by
    refine List.nodup_append.mpr ⟨hn'.2, hf.2, ?_⟩
    intro a ha b hb2 hab
    have := hb a (List.mem_cons_of_mem _ ha); have := hf.1 b hb2; omega
  refine ⟨hnm, List.nodup_cons.mpr ⟨?_, hs.nodup hall⟩, ?_⟩
  · intro hi
    rcases List.mem_append.mp (hs.subset i hi) with h | h
    · exact hn'.1 h
    · have := hb i (by simp); have := hf.1 i h; omega
  · intro a ha
    rcases List.mem_cons.mp ha with rfl | ha
    · exact Or.inl (by simp)
    · rcases List.mem_append.mp (hs.subset a ha) with h | h
      · exact Or.inl (List.mem_cons_of_mem _ h)
      · exact Or.inr (hf.1 a h)

/-- the same for a container whose children went through a merge loop -/
theorem IdStep.container {n m i : Nat} {old res : List Nat} (h : IdStep n old m res) (hi : i ∉ old)
    (hin : i < n) : IdStep n (i :: old) m (i :: res) := by
  refine ⟨h.1, List.nodup_cons.mpr ⟨?_, h.2.1⟩, ?_⟩
  · intro hm
    rcases h.2.2 i hm with ho | hf
    · exact hi ho
    · omega
  · intro a ha
    rcases List.mem_cons.mp ha with rfl | ha
    · exact Or.inl (by simp)
    · rcases h.2.2 a ha with ho | hf
      · exact Or.inl (List.mem_cons_of_mem _ ho)
      · exact Or.inr hf

theorem idsL_nil_of_leaves : ∀ vs : List T, (∀ x ∈ vs, Tr.ids x = []) → Tr.idsL vs = []
  | [], _ => rfl
  | x :: xs, h => by
    simp only [Tr.idsL, h x (by simp), List.nil_append]
    exact idsL_nil_of_leaves xs (fun y hy => h y (List.mem_cons_of_mem _ hy))

/-- iterating a synced value yields its own children (or scalars): no new identities -/
theorem iterate_ids (t : T) (vs : List T) (h : iterate t = .ok vs) : (Tr.idsL vs).Sublist (Tr.ids t) := by
  cases t with
  | list i xs =>
    simp only [iterate, Except.ok.injEq] at h; subst h
    simp only [Tr.ids]; exact List.Sublist.cons _ (List.Sublist.refl _)
  | dict i kvs =>
    simp only [iterate, Except.ok.injEq] at h; subst h
    rw [idsL_nil_of_leaves]
    · exact List.nil_sublist _
    · intro x hx
      obtain ⟨kv, _, rfl⟩ := List.mem_map.mp hx
      split <;> rfl
  | leaf s =>
    cases s
    case str st =>
      simp only [iterate, Except.ok.injEq] at h; subst h
      rw [idsL_nil_of_leaves]
      · exact List.nil_sublist _
      · intro x hx
        obtain ⟨c, _, rfl⟩ := List.mem_map.mp hx
        rfl
    all_goals simp [iterate] at h

/-! ### the two result builders -/

theorem dmutRes_ids (i : Nat) (kvs : List (Key × T)) (m : DictMut T) (n n' : Nat)
    (hn : (i :: Tr.idsKV kvs).Nodup) (hb : ∀ a ∈ i :: Tr.idsKV kvs, a < n)
    (hf : FreshIn n n' (Tr.idsKV (DictMut.news m))) (hnm : n ≤ n') :
    IdStep n (i :: Tr.idsKV kvs) (dmutRes (.dict i kvs) i kvs m n').next
      (Tr.ids (dmutRes (.dict i kvs) i kvs m n').node) := by
  unfold dmutRes
  cases h : dictMut kvs m with
  | error e => exact IdStep.refl_le hn hnm
  | ok r =>
    simp only [Tr.ids]
    refine idstep_of_subp hn hb hf hnm ?_
    have := (dictMut_subp kvs m r h).flatMap (fun kv => Tr.ids kv.2)
    rw [List.flatMap_append] at this
    simpa [idsKV_eq_flatMap] using this

theorem lmutRes_ids (i : Nat) (xs : List T) (m : ListMut T) (n n' : Nat)
    (hn : (i :: Tr.idsL xs).Nodup) (hb : ∀ a ∈ i :: Tr.idsL xs, a < n)
    (hf : FreshIn n n' (Tr.idsL (ListMut.news m))) (hnm : n ≤ n') :
    IdStep n (i :: Tr.idsL xs) (lmutRes (.list i xs) i xs m n').next
      (Tr.ids (lmutRes (.list i xs) i xs m n').node) := by
  unfold lmutRes
  cases h : listMut xs m with
  | error e => exact IdStep.refl_le hn hnm
  | ok r =>
    simp only [Tr.ids]
    refine idstep_of_subp hn hb hf hnm ?_
    have := (listMut_subp xs m r h).flatMap Tr.ids
    rw [List.flatMap_append] at this
    simpa [idsL_eq_flatMap] using this

theorem freshIn_nil (n : Nat) : FreshIn n n ([] : List Nat) := FreshIn.nil n

/-! ### every operation body -/

/-- THE IDENTITY INVARIANT OF THE OPERATION BODIES -/
theorem runBody_ids (fam : Fam) (t : T) (op : Op) (n : Nat) (hn : (Tr.ids t).Nodup)
    (hb : ∀ a ∈ Tr.ids t, a < n) :
    IdStep n (Tr.ids t) (runBody fam t op n).next (Tr.ids (runBody fam t op n).node) := by
  have hfail : ∀ e : Err, IdStep n (Tr.ids t) (⟨t, .unit, [], n, some e⟩ : NodeRes).next
      (Tr.ids (⟨t, .unit, [], n, some e⟩ : NodeRes).node) := fun _ => IdStep.refl hn
  have hone : ∀ v : J, FreshIn n (fromBase v n).2 (Tr.ids (fromBase v n).1 ++ []) ∧ n ≤ (fromBase v n).2 := by
    intro v
    have := fromBase_fresh v n
    simpa using ⟨this.2, this.1⟩
  cases t with
  | leaf s => cases op <;> exact IdStep.refl hn
  | dict i kvs =>
    simp only [Tr.ids] at hn hb
    cases op with
    | dSetitem k v =>
      simp only [runBody]
      exact dmutRes_ids i kvs _ n _ hn hb (by simpa [DictMut.news, Tr.idsKV] using (hone v).1) (hone v).2
    | dDelitem k =>
      simp only [runBody]
      exact dmutRes_ids i kvs _ n n hn hb (by simpa [DictMut.news, Tr.idsKV] using freshIn_nil n) (Nat.le_refl _)
    | dPop k d =>
      simp only [runBody]
      exact dmutRes_ids i kvs _ n n hn hb (by simpa [DictMut.news, Tr.idsKV] using freshIn_nil n) (Nat.le_refl _)
    | dPopitem =>
      simp only [runBody]
      exact dmutRes_ids i kvs _ n n hn hb (by simpa [DictMut.news, Tr.idsKV] using freshIn_nil n) (Nat.le_refl _)
    | dClear =>
      simp only [runBody]
      exact dmutRes_ids i kvs _ n n hn hb (by simpa [DictMut.news, Tr.idsKV] using freshIn_nil n) (Nat.le_refl _)
    | dSetdefault k d =>
      simp only [runBody]
      cases hlk : Tr.lookup k kvs with
      | some v => exact IdStep.refl hn
      | none =>
        simp only
        cases hv : validateKV fam.dictV [(k, d)] with
        | some e => exact hfail e
        | none =>
          simp only [Tr.ids]
          refine idstep_of_subp hn hb (hone d).1 (hone d).2 ?_
          have := (setKey_subp k (fromBase d n).1 kvs).flatMap (fun kv => Tr.ids kv.2)
          rw [List.flatMap_append] at this
          simpa [idsKV_eq_flatMap] using this
    | dUpdate other kw =>
      simp only [runBody, Tr.ids]
      have hn' := List.nodup_cons.mp hn
      exact IdStep.container
        (updDictLoop_ids fam _ kvs n hn'.2 (fun a ha => hb a (List.mem_cons_of_mem _ ha))) hn'.1 (hb i (by simp))
    | dReset v =>
      simp only [runBody]
      exact updNode_ids fam v (.dict i kvs) n (by simpa [Tr.ids] using hn) (by simpa [Tr.ids] using hb)
    | dRead rd =>
      simp only [runBody]
      cases dictRead i kvs rd with
      | error e => exact hfail e
      | ok o => exact IdStep.refl hn
    | _ => exact IdStep.refl hn
  | list i xs =>
    simp only [Tr.ids] at hn hb
    cases op with
    | lSetitem ix v =>
      cases ix with
      | i j =>
        simp only [runBody]
        exact lmutRes_ids i xs _ n _ hn hb (by simpa [ListMut.news, Tr.idsL] using (hone v).1) (hone v).2
      | sl sl =>
        simp only [runBody]
        have hfr := fromBase_fresh v n
        cases hit : iterate (fromBase v n).1 with
        | error e => exact IdStep.refl_le hn hfr.1
        | ok vs =>
          simp only
          exact lmutRes_ids i xs _ n _ hn hb
            (by simpa [ListMut.news] using hfr.2.sublist (iterate_ids _ vs hit)) hfr.1
    | lDelitem ix =>
      simp only [runBody]
      exact lmutRes_ids i xs _ n n hn hb (by simpa [ListMut.news, Tr.idsL] using freshIn_nil n) (Nat.le_refl _)
    | lInsert j v =>
      simp only [runBody]
      exact lmutRes_ids i xs _ n _ hn hb (by simpa [ListMut.news, Tr.idsL] using (hone v).1) (hone v).2
    | lAppend v =>
      simp only [runBody]
      exact lmutRes_ids i xs _ n _ hn hb (by simpa [ListMut.news, Tr.idsL] using (hone v).1) (hone v).2
    | lExtend v =>
      simp only [runBody]
      cases hit : iterate v with
      | error e => exact hfail e
      | ok vs =>
        simp only
        have hfr := fromBaseL_fresh vs n
        exact lmutRes_ids i xs _ n _ hn hb (by simpa [ListMut.news] using hfr.2) hfr.1
    | lIadd v =>
      simp only [runBody]
      cases hit : iterate v with
      | error e => exact hfail e
      | ok vs =>
        simp only
        have hfr := fromBaseL_fresh vs n
        exact lmutRes_ids i xs _ n _ hn hb (by simpa [ListMut.news] using hfr.2) hfr.1
    | lRemove v =>
      simp only [runBody]
      exact lmutRes_ids i xs _ n n hn hb (by simpa [ListMut.news, Tr.idsL] using freshIn_nil n) (Nat.le_refl _)
    | lClear =>
      simp only [runBody]
      exact lmutRes_ids i xs _ n n hn hb (by simpa [ListMut.news, Tr.idsL] using freshIn_nil n) (Nat.le_refl _)
    | lPop j =>
      simp only [runBody]
      exact lmutRes_ids i xs _ n n hn hb (by simpa [ListMut.news, Tr.idsL] using freshIn_nil n) (Nat.le_refl _)
    | lReverse =>
      simp only [runBody]
      exact lmutRes_ids i xs _ n n hn hb (by simpa [ListMut.news, Tr.idsL] using freshIn_nil n) (Nat.le_refl _)
    | lReset v =>
      simp only [runBody]
      exact updNode_ids fam v (.list i xs) n (by simpa [Tr.ids] using hn) (by simpa [Tr.ids] using hb)
    | lRead rd =>
      simp only [runBody]
      cases listRead i xs rd with
      | error e => exact hfail e
      | ok o => exact IdStep.refl hn
    | _ => exact IdStep.refl hn

end SC
