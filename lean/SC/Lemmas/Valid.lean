/-
Validators are exactly characterised by two requirements: one on every mapping
key (at every depth, through mappings *and* sequences) and one on every leaf.
`validate vs t = none ↔ Tr.all (keyReq vs) (leafReq vs) t`, for every list of
validators and every (unboundedly deep / wide) value.
-/
import SC.Validators
namespace SC

inductive KeyReq | any | str | strNoDot
deriving DecidableEq, Repr

inductive LeafReq | any | json
deriving DecidableEq, Repr

namespace KeyReq
def ok : KeyReq → Key → Bool
  | .any, _ => true
  | .str, k => k.isStr
  | .strNoDot, .s s => !hasDot s
  | .strNoDot, .n _ => false
def meet : KeyReq → KeyReq → KeyReq
  | .any, b => b
  | a, .any => a
  | .str, .str => .str
  | _, _ => .strNoDot
theorem ok_meet (a b : KeyReq) (k : Key) : (a.meet b).ok k = (a.ok k && b.ok k) := by
  cases a <;> cases b <;> cases k <;> simp [meet, ok, Key.isStr]
end KeyReq

namespace LeafReq
def ok : LeafReq → Scalar → Bool
  | .any, _ => true
  | .json, s => s.isClean
def meet : LeafReq → LeafReq → LeafReq
  | .any, b => b
  | a, .any => a
  | .json, .json => .json
theorem ok_meet (a b : LeafReq) (s : Scalar) : (a.meet b).ok s = (a.ok s && b.ok s) := by
  cases a <;> cases b <;> simp [meet, ok]
end LeafReq

variable {ι : Type}

namespace Tr
mutual
/-- every key (at any depth) satisfies `kr`, every leaf satisfies `lr` -/
def all (kr : KeyReq) (lr : LeafReq) : Tr ι → Bool
  | .leaf s => lr.ok s
  | .list _ xs => allL kr lr xs
  | .dict _ kvs => allKV kr lr kvs
def allL (kr : KeyReq) (lr : LeafReq) : List (Tr ι) → Bool
  | [] => true
  | x :: xs => all kr lr x && allL kr lr xs
def allKV (kr : KeyReq) (lr : LeafReq) : List (Key × Tr ι) → Bool
  | [] => true
  | (k, v) :: kvs => kr.ok k && all kr lr v && allKV kr lr kvs
end

mutual
theorem all_meet (a b : KeyReq) (c d : LeafReq) :
    ∀ t : Tr ι, all (a.meet b) (c.meet d) t = (all a c t && all b d t)
  | .leaf s => by simp [all, LeafReq.ok_meet]
  | .list _ xs => by simp [all, allL_meet a b c d xs]
  | .dict _ kvs => by simp [all, allKV_meet a b c d kvs]
theorem allL_meet (a b : KeyReq) (c d : LeafReq) :
    ∀ xs : List (Tr ι), allL (a.meet b) (c.meet d) xs = (allL a c xs && allL b d xs)
  | [] => by simp [allL]
  | x :: xs => by
    simp only [allL, all_meet a b c d x, allL_meet a b c d xs]
    cases all a c x <;> cases all b d x <;> cases allL a c xs <;> cases allL b d xs <;> rfl
theorem allKV_meet (a b : KeyReq) (c d : LeafReq) :
    ∀ kvs : List (Key × Tr ι), allKV (a.meet b) (c.meet d) kvs = (allKV a c kvs && allKV b d kvs)
  | [] => by simp [allKV]
  | (k, v) :: kvs => by
    simp only [allKV, KeyReq.ok_meet, all_meet a b c d v, allKV_meet a b c d kvs]
    cases a.ok k <;> cases b.ok k <;> cases all a c v <;> cases all b d v <;>
      cases allKV a c kvs <;> cases allKV b d kvs <;> rfl
end

mutual
theorem all_any_any : ∀ t : Tr ι, all .any .any t = true
  | .leaf s => by simp [all, LeafReq.ok]
  | .list _ xs => by simp [all, allL_any_any xs]
  | .dict _ kvs => by simp [all, allKV_any_any kvs]
theorem allL_any_any : ∀ xs : List (Tr ι), allL .any .any xs = true
  | [] => rfl
  | x :: xs => by simp [allL, all_any_any x, allL_any_any xs]
theorem allKV_any_any : ∀ kvs : List (Key × Tr ι), allKV .any .any kvs = true
  | [] => rfl
  | (k, v) :: kvs => by simp [allKV, KeyReq.ok, all_any_any v, allKV_any_any kvs]
end

mutual
theorem all_mono {a b : KeyReq} {c d : LeafReq} (hk : ∀ k, a.ok k = true → b.ok k = true)
    (hs : ∀ s, c.ok s = true → d.ok s = true) :
    ∀ t : Tr ι, all a c t = true → all b d t = true
  | .leaf s => by simpa [all] using hs s
  | .list _ xs => by simpa [all] using allL_mono hk hs xs
  | .dict _ kvs => by simpa [all] using allKV_mono hk hs kvs
theorem allL_mono {a b : KeyReq} {c d : LeafReq} (hk : ∀ k, a.ok k = true → b.ok k = true)
    (hs : ∀ s, c.ok s = true → d.ok s = true) :
    ∀ xs : List (Tr ι), allL a c xs = true → allL b d xs = true
  | [] => by simp [allL]
  | x :: xs => by
    simp only [allL, Bool.and_eq_true]
    exact fun h => ⟨all_mono hk hs x h.1, allL_mono hk hs xs h.2⟩
theorem allKV_mono {a b : KeyReq} {c d : LeafReq} (hk : ∀ k, a.ok k = true → b.ok k = true)
    (hs : ∀ s, c.ok s = true → d.ok s = true) :
    ∀ kvs : List (Key × Tr ι), allKV a c kvs = true → allKV b d kvs = true
  | [] => by simp [allKV]
  | (k, v) :: kvs => by
    simp only [allKV, Bool.and_eq_true]
    exact fun h => ⟨⟨hk k h.1.1, all_mono hk hs v h.1.2⟩, allKV_mono hk hs kvs h.2⟩
end

/-- the C11/C12 specification predicate in the same vocabulary -/
def cleanKeyReq (nodot : Bool) : KeyReq := if nodot then .strNoDot else .str

mutual
theorem clean_eq_all (nodot : Bool) : ∀ t : Tr ι, clean nodot t = all (cleanKeyReq nodot) .json t
  | .leaf s => by simp [clean, all, LeafReq.ok]
  | .list _ xs => by simp [clean, all, cleanL_eq_allL nodot xs]
  | .dict _ kvs => by simp [clean, all, cleanKV_eq_allKV nodot kvs]
theorem cleanL_eq_allL (nodot : Bool) :
    ∀ xs : List (Tr ι), cleanL nodot xs = allL (cleanKeyReq nodot) .json xs
  | [] => rfl
  | x :: xs => by simp [cleanL, allL, clean_eq_all nodot x, cleanL_eq_allL nodot xs]
theorem cleanKV_eq_allKV (nodot : Bool) :
    ∀ kvs : List (Key × Tr ι), cleanKV nodot kvs = allKV (cleanKeyReq nodot) .json kvs
  | [] => rfl
  | (k, v) :: kvs => by
    simp only [cleanKV, allKV, clean_eq_all nodot v, cleanKV_eq_allKV nodot kvs]
    cases k <;> cases nodot <;> simp [cleanKeyReq, KeyReq.ok, Key.isStr, hasDot]
end
end Tr

open Tr

/-! ### each validator, exactly -/

private theorem orErr3_none {a b c : Option Err} :
    orErr a (orErr b c) = none ↔ a = none ∧ b = none ∧ c = none := by
  simp [orErr_eq_none]

mutual
theorem reqStr_none : ∀ t : Tr ι, reqStr t = none ↔ all .str .any t = true
  | .leaf s => by simp [reqStr, all, LeafReq.ok]
  | .list _ xs => by simp [reqStr, all, reqStrL_none xs]
  | .dict _ kvs => by simp [reqStr, all, reqStrKV_none kvs]
theorem reqStrL_none : ∀ xs : List (Tr ι), reqStrL xs = none ↔ allL .str .any xs = true
  | [] => by simp [reqStrL, allL]
  | x :: xs => by simp [reqStrL, allL, orErr_eq_none, reqStr_none x, reqStrL_none xs]
theorem reqStrKV_none : ∀ kvs : List (Key × Tr ι), reqStrKV kvs = none ↔ allKV .str .any kvs = true
  | [] => by simp [reqStrKV, allKV]
  | (k, v) :: kvs => by
    simp only [reqStrKV, allKV, orErr3_none, reqStr_none v, reqStrKV_none kvs, KeyReq.ok,
      Bool.and_eq_true]
    cases h : k.isStr <;> simp
end

mutual
theorem jsonFmt_none : ∀ t : Tr ι, jsonFmt t = none ↔ all .str .json t = true
  | .leaf s => by cases h : s.isClean <;> simp [jsonFmt, all, LeafReq.ok, h]
  | .list _ xs => by simp [jsonFmt, all, jsonFmtL_none xs]
  | .dict _ kvs => by simp [jsonFmt, all, jsonFmtKV_none kvs]
theorem jsonFmtL_none : ∀ xs : List (Tr ι), jsonFmtL xs = none ↔ allL .str .json xs = true
  | [] => by simp [jsonFmtL, allL]
  | x :: xs => by simp [jsonFmtL, allL, orErr_eq_none, jsonFmt_none x, jsonFmtL_none xs]
theorem jsonFmtKV_none : ∀ kvs : List (Key × Tr ι), jsonFmtKV kvs = none ↔ allKV .str .json kvs = true
  | [] => by simp [jsonFmtKV, allKV]
  | (k, v) :: kvs => by
    simp only [jsonFmtKV, allKV, orErr3_none, jsonFmt_none v, jsonFmtKV_none kvs, KeyReq.ok,
      Bool.and_eq_true]
    cases h : k.isStr <;> simp
end

private theorem dotCheck_none (k : Key) :
    dotKeyCheck k = none ↔ KeyReq.strNoDot.ok k = true := by
  cases k with
  | s s => cases h : hasDot s <;> simp [dotKeyCheck, KeyReq.ok, h]
  | n i => simp [dotKeyCheck, KeyReq.ok]

mutual
theorem noDot_none : ∀ t : Tr ι, noDot t = none ↔ all .strNoDot .any t = true
  | .leaf s => by simp [noDot, all, LeafReq.ok]
  | .list _ xs => by simp [noDot, all, noDotL_none xs]
  | .dict _ kvs => by simp [noDot, all, noDotKV_none kvs]
theorem noDotL_none : ∀ xs : List (Tr ι), noDotL xs = none ↔ allL .strNoDot .any xs = true
  | [] => by simp [noDotL, allL]
  | x :: xs => by simp [noDotL, allL, orErr_eq_none, noDot_none x, noDotL_none xs]
theorem noDotKV_none : ∀ kvs : List (Key × Tr ι), noDotKV kvs = none ↔ allKV .strNoDot .any kvs = true
  | [] => by simp [noDotKV, allKV]
  | (k, v) :: kvs => by
    simp only [noDotKV, allKV, orErr3_none, noDot_none v, noDotKV_none kvs, dotCheck_none,
      Bool.and_eq_true, and_assoc]
end

mutual
theorem jsonAttr_none : ∀ t : Tr ι, jsonAttr t = none ↔ all .strNoDot .json t = true
  | .leaf s => by cases h : s.isClean <;> simp [jsonAttr, all, LeafReq.ok, h]
  | .list _ xs => by simp [jsonAttr, all, jsonAttrL_none xs]
  | .dict _ kvs => by simp [jsonAttr, all, jsonAttrKV_none kvs]
theorem jsonAttrL_none : ∀ xs : List (Tr ι), jsonAttrL xs = none ↔ allL .strNoDot .json xs = true
  | [] => by simp [jsonAttrL, allL]
  | x :: xs => by simp [jsonAttrL, allL, orErr_eq_none, jsonAttr_none x, jsonAttrL_none xs]
theorem jsonAttrKV_none :
    ∀ kvs : List (Key × Tr ι), jsonAttrKV kvs = none ↔ allKV .strNoDot .json kvs = true
  | [] => by simp [jsonAttrKV, allKV]
  | (k, v) :: kvs => by
    simp only [jsonAttrKV, allKV, orErr3_none, jsonAttr_none v, jsonAttrKV_none kvs, dotCheck_none,
      Bool.and_eq_true]
    constructor
    · rintro ⟨a, b, c⟩; exact ⟨⟨b, a⟩, c⟩
    · rintro ⟨⟨b, a⟩, c⟩; exact ⟨a, b, c⟩
end

/-! ### lists of validators -/

namespace Validator
def keyReq : Validator → KeyReq
  | .requireStringKey => .str
  | .jsonFormat => .str
  | .noDotInKey => .strNoDot
  | .jsonAttrDict => .strNoDot
  | .unknown _ => .any
def leafReq : Validator → LeafReq
  | .requireStringKey => .any
  | .jsonFormat => .json
  | .noDotInKey => .any
  | .jsonAttrDict => .json
  | .unknown _ => .any

theorem run_none (v : Validator) (t : Tr ι) : v.run t = none ↔ all v.keyReq v.leafReq t = true := by
  cases v <;> simp [run, keyReq, leafReq, reqStr_none, jsonFmt_none, noDot_none, jsonAttr_none,
    all_any_any]
theorem runL_none (v : Validator) (t : List (Tr ι)) :
    v.runL t = none ↔ allL v.keyReq v.leafReq t = true := by
  cases v <;> simp [runL, keyReq, leafReq, reqStrL_none, jsonFmtL_none, noDotL_none,
    jsonAttrL_none, allL_any_any]
theorem runKV_none (v : Validator) (t : List (Key × Tr ι)) :
    v.runKV t = none ↔ allKV v.keyReq v.leafReq t = true := by
  cases v <;> simp [runKV, keyReq, leafReq, reqStrKV_none, jsonFmtKV_none, noDotKV_none,
    jsonAttrKV_none, allKV_any_any]
end Validator

def keyReq : List Validator → KeyReq
  | [] => .any
  | v :: vs => v.keyReq.meet (keyReq vs)
def leafReq : List Validator → LeafReq
  | [] => .any
  | v :: vs => v.leafReq.meet (leafReq vs)

theorem validate_none (vs : List Validator) (t : Tr ι) :
    validate vs t = none ↔ all (keyReq vs) (leafReq vs) t = true := by
  induction vs with
  | nil => simp [validate, keyReq, leafReq, all_any_any]
  | cons v vs ih =>
    simp [validate, keyReq, leafReq, orErr_eq_none, Validator.run_none, ih, all_meet]
theorem validateL_none (vs : List Validator) (t : List (Tr ι)) :
    validateL vs t = none ↔ allL (keyReq vs) (leafReq vs) t = true := by
  induction vs with
  | nil => simp [validateL, keyReq, leafReq, allL_any_any]
  | cons v vs ih =>
    simp [validateL, keyReq, leafReq, orErr_eq_none, Validator.runL_none, ih, allL_meet]
theorem validateKV_none (vs : List Validator) (t : List (Key × Tr ι)) :
    validateKV vs t = none ↔ allKV (keyReq vs) (leafReq vs) t = true := by
  induction vs with
  | nil => simp [validateKV, keyReq, leafReq, allKV_any_any]
  | cons v vs ih =>
    simp [validateKV, keyReq, leafReq, orErr_eq_none, Validator.runKV_none, ih, allKV_meet]

/-- A validator list *implements* the specification "clean (with / without the dot
rule)": decidable, evaluated on the generated class table. -/
def implementsClean (nodot : Bool) (vs : List Validator) : Bool :=
  decide (keyReq vs = cleanKeyReq nodot) && decide (leafReq vs = .json)

/-- soundness and completeness of validation, for every value of any depth and width -/
theorem validate_iff_clean {nodot : Bool} {vs : List Validator} (h : implementsClean nodot vs = true)
    (t : Tr ι) : validate vs t = none ↔ clean nodot t = true := by
  simp [implementsClean] at h
  rw [validate_none, clean_eq_all, h.1, h.2]
theorem validateL_iff_clean {nodot : Bool} {vs : List Validator} (h : implementsClean nodot vs = true)
    (t : List (Tr ι)) : validateL vs t = none ↔ cleanL nodot t = true := by
  simp [implementsClean] at h
  rw [validateL_none, cleanL_eq_allL, h.1, h.2]
theorem validateKV_iff_clean {nodot : Bool} {vs : List Validator} (h : implementsClean nodot vs = true)
    (t : List (Key × Tr ι)) : validateKV vs t = none ↔ cleanKV nodot t = true := by
  simp [implementsClean] at h
  rw [validateKV_none, cleanKV_eq_allKV, h.1, h.2]

/-- every error a validator raises is a `TypeError` or `ValueError` subclass -/
theorem orErr_isTV {a b : Option Err} (ha : ∀ e, a = some e → e.isTypeOrValueError = true)
    (hb : ∀ e, b = some e → e.isTypeOrValueError = true) :
    ∀ e, orErr a b = some e → e.isTypeOrValueError = true := by
  intro e h
  cases a with
  | none => exact hb e (by simpa using h)
  | some x => exact ha e (by simpa using h)


/-! ### error classes -/

/-- the raised error, if any, is a TypeError / ValueError subclass -/
def ErrTV (x : Option Err) : Prop := ∀ e, x = some e → e.isTypeOrValueError = true

theorem ErrTV.none : ErrTV none := by intro e h; cases h
theorem ErrTV.orErr {a b : Option Err} (ha : ErrTV a) (hb : ErrTV b) : ErrTV (orErr a b) :=
  orErr_isTV ha hb
theorem ErrTV.ite {c : Prop} [Decidable c] {a b : Option Err} (ha : ErrTV a) (hb : ErrTV b) :
    ErrTV (if c then a else b) := by split <;> assumption
theorem ErrTV.some {e : Err} (h : e.isTypeOrValueError = true) : ErrTV (some e) := by
  intro e' h'; cases h'; exact h

theorem dotKeyCheck_TV (k : Key) : ErrTV (dotKeyCheck k) := by
  cases k with
  | s s => unfold dotKeyCheck; exact ErrTV.ite (ErrTV.some rfl) ErrTV.none
  | n i => exact ErrTV.some rfl

mutual
theorem reqStr_TV : ∀ t : Tr ι, ErrTV (reqStr t)
  | .leaf s => by simp [reqStr]; exact ErrTV.none
  | .list _ xs => by simp only [reqStr]; exact reqStrL_TV xs
  | .dict _ kvs => by simp only [reqStr]; exact reqStrKV_TV kvs
theorem reqStrL_TV : ∀ xs : List (Tr ι), ErrTV (reqStrL xs)
  | [] => ErrTV.none
  | x :: xs => by simp only [reqStrL]; exact (reqStr_TV x).orErr (reqStrL_TV xs)
theorem reqStrKV_TV : ∀ kvs : List (Key × Tr ι), ErrTV (reqStrKV kvs)
  | [] => ErrTV.none
  | (k, v) :: kvs => by
    simp only [reqStrKV]
    exact (ErrTV.ite ErrTV.none (ErrTV.some rfl)).orErr ((reqStr_TV v).orErr (reqStrKV_TV kvs))
end

mutual
theorem jsonFmt_TV : ∀ t : Tr ι, ErrTV (jsonFmt t)
  | .leaf s => by simp only [jsonFmt]; exact ErrTV.ite ErrTV.none (ErrTV.some rfl)
  | .list _ xs => by simp only [jsonFmt]; exact jsonFmtL_TV xs
  | .dict _ kvs => by simp only [jsonFmt]; exact jsonFmtKV_TV kvs
theorem jsonFmtL_TV : ∀ xs : List (Tr ι), ErrTV (jsonFmtL xs)
  | [] => ErrTV.none
  | x :: xs => by simp only [jsonFmtL]; exact (jsonFmt_TV x).orErr (jsonFmtL_TV xs)
theorem jsonFmtKV_TV : ∀ kvs : List (Key × Tr ι), ErrTV (jsonFmtKV kvs)
  | [] => ErrTV.none
  | (k, v) :: kvs => by
    simp only [jsonFmtKV]
    exact (ErrTV.ite ErrTV.none (ErrTV.some rfl)).orErr ((jsonFmt_TV v).orErr (jsonFmtKV_TV kvs))
end

mutual
theorem noDot_TV : ∀ t : Tr ι, ErrTV (noDot t)
  | .leaf s => by simp [noDot]; exact ErrTV.none
  | .list _ xs => by simp only [noDot]; exact noDotL_TV xs
  | .dict _ kvs => by simp only [noDot]; exact noDotKV_TV kvs
theorem noDotL_TV : ∀ xs : List (Tr ι), ErrTV (noDotL xs)
  | [] => ErrTV.none
  | x :: xs => by simp only [noDotL]; exact (noDot_TV x).orErr (noDotL_TV xs)
theorem noDotKV_TV : ∀ kvs : List (Key × Tr ι), ErrTV (noDotKV kvs)
  | [] => ErrTV.none
  | (k, v) :: kvs => by
    simp only [noDotKV]
    exact (dotKeyCheck_TV k).orErr ((noDot_TV v).orErr (noDotKV_TV kvs))
end

mutual
theorem jsonAttr_TV : ∀ t : Tr ι, ErrTV (jsonAttr t)
  | .leaf s => by simp only [jsonAttr]; exact ErrTV.ite ErrTV.none (ErrTV.some rfl)
  | .list _ xs => by simp only [jsonAttr]; exact jsonAttrL_TV xs
  | .dict _ kvs => by simp only [jsonAttr]; exact jsonAttrKV_TV kvs
theorem jsonAttrL_TV : ∀ xs : List (Tr ι), ErrTV (jsonAttrL xs)
  | [] => ErrTV.none
  | x :: xs => by simp only [jsonAttrL]; exact (jsonAttr_TV x).orErr (jsonAttrL_TV xs)
theorem jsonAttrKV_TV : ∀ kvs : List (Key × Tr ι), ErrTV (jsonAttrKV kvs)
  | [] => ErrTV.none
  | (k, v) :: kvs => by
    simp only [jsonAttrKV]
    exact (jsonAttr_TV v).orErr ((dotKeyCheck_TV k).orErr (jsonAttrKV_TV kvs))
end

theorem Validator.run_TV (v : Validator) (t : Tr ι) : ErrTV (v.run t) := by
  cases v <;> simp only [Validator.run]
  · exact reqStr_TV t
  · exact jsonFmt_TV t
  · exact noDot_TV t
  · exact jsonAttr_TV t
  · exact ErrTV.none
theorem Validator.runL_TV (v : Validator) (t : List (Tr ι)) : ErrTV (v.runL t) := by
  cases v <;> simp only [Validator.runL]
  · exact reqStrL_TV t
  · exact jsonFmtL_TV t
  · exact noDotL_TV t
  · exact jsonAttrL_TV t
  · exact ErrTV.none
theorem Validator.runKV_TV (v : Validator) (t : List (Key × Tr ι)) : ErrTV (v.runKV t) := by
  cases v <;> simp only [Validator.runKV]
  · exact reqStrKV_TV t
  · exact jsonFmtKV_TV t
  · exact noDotKV_TV t
  · exact jsonAttrKV_TV t
  · exact ErrTV.none

theorem validate_TV (vs : List Validator) (t : Tr ι) : ErrTV (validate vs t) := by
  induction vs with
  | nil => exact ErrTV.none
  | cons v vs ih => simp only [validate]; exact (v.run_TV t).orErr ih
theorem validateL_TV (vs : List Validator) (t : List (Tr ι)) : ErrTV (validateL vs t) := by
  induction vs with
  | nil => exact ErrTV.none
  | cons v vs ih => simp only [validateL]; exact (v.runL_TV t).orErr ih
theorem validateKV_TV (vs : List Validator) (t : List (Key × Tr ι)) : ErrTV (validateKV vs t) := by
  induction vs with
  | nil => exact ErrTV.none
  | cons v vs ih => simp only [validateKV]; exact (v.runKV_TV t).orErr ih

end SC
