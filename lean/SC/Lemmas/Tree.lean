/-
Lemmas about `fromBase` and the merge `updNode`: content, cleanliness.
All by (mutual) structural induction — no bound on depth or width.
-/
import SC.Tree
import SC.Lemmas.Valid
namespace SC
open Tr

variable {ι : Type}

/-! ### `toBase ∘ fromBase` -/

@[simp] theorem toBase_leaf (s : Scalar) : (Tr.leaf s : Tr ι).toBase = .leaf s := by
  simp [Tr.toBase, Tr.map]
theorem toBase_list (i : ι) (xs : List (Tr ι)) :
    (Tr.list i xs).toBase = .list () (Tr.mapL (fun _ => ()) xs) := by
  simp [Tr.toBase, Tr.map]
theorem toBase_dict (i : ι) (kvs : List (Key × Tr ι)) :
    (Tr.dict i kvs).toBase = .dict () (Tr.mapKV (fun _ => ()) kvs) := by
  simp [Tr.toBase, Tr.map]

mutual
theorem toBase_fromBase : ∀ (t : Tr ι) (n : Nat), (fromBase t n).1.toBase = t.toBase
  | .leaf s, n => by simp [fromBase]
  | .list _ xs, n => by
    simp only [fromBase, toBase_list]; congr 1; exact mapL_fromBaseL xs (n + 1)
  | .dict _ kvs, n => by
    simp only [fromBase, toBase_dict]; congr 1; exact mapKV_fromBaseKV kvs (n + 1)
theorem mapL_fromBaseL : ∀ (xs : List (Tr ι)) (n : Nat),
    Tr.mapL (fun _ => ()) (fromBaseL xs n).1 = Tr.mapL (fun _ => ()) xs
  | [], n => by simp [fromBaseL, Tr.mapL]
  | x :: xs, n => by
    simp only [fromBaseL, Tr.mapL]
    have h := toBase_fromBase x n
    simp only [Tr.toBase] at h
    rw [h, mapL_fromBaseL xs]
theorem mapKV_fromBaseKV : ∀ (kvs : List (Key × Tr ι)) (n : Nat),
    Tr.mapKV (fun _ => ()) (fromBaseKV kvs n).1 = Tr.mapKV (fun _ => ()) kvs
  | [], n => by simp [fromBaseKV, Tr.mapKV]
  | (k, v) :: kvs, n => by
    simp only [fromBaseKV, Tr.mapKV]
    have h := toBase_fromBase v n
    simp only [Tr.toBase] at h
    rw [h, mapKV_fromBaseKV kvs]
end

/-! ### cleanliness is about content only -/

mutual
theorem all_fromBase (kr : KeyReq) (lr : LeafReq) :
    ∀ (t : Tr ι) (n : Nat), Tr.all kr lr (fromBase t n).1 = Tr.all kr lr t
  | .leaf s, n => by simp [fromBase, Tr.all]
  | .list _ xs, n => by simp only [fromBase, Tr.all]; exact allL_fromBaseL kr lr xs (n + 1)
  | .dict _ kvs, n => by simp only [fromBase, Tr.all]; exact allKV_fromBaseKV kr lr kvs (n + 1)
theorem allL_fromBaseL (kr : KeyReq) (lr : LeafReq) :
    ∀ (xs : List (Tr ι)) (n : Nat), Tr.allL kr lr (fromBaseL xs n).1 = Tr.allL kr lr xs
  | [], n => by simp [fromBaseL, Tr.allL]
  | x :: xs, n => by simp only [fromBaseL, Tr.allL, all_fromBase kr lr x, allL_fromBaseL kr lr xs]
theorem allKV_fromBaseKV (kr : KeyReq) (lr : LeafReq) :
    ∀ (kvs : List (Key × Tr ι)) (n : Nat), Tr.allKV kr lr (fromBaseKV kvs n).1 = Tr.allKV kr lr kvs
  | [], n => by simp [fromBaseKV, Tr.allKV]
  | (k, v) :: kvs, n => by
    simp only [fromBaseKV, Tr.allKV, all_fromBase kr lr v, allKV_fromBaseKV kr lr kvs]
end

theorem clean_fromBase (nodot : Bool) (t : Tr ι) (n : Nat) :
    clean nodot (fromBase t n).1 = clean nodot t := by
  rw [clean_eq_all, clean_eq_all, all_fromBase]

/-! ### association-list facts for `allKV` -/

section kv
variable (kr : KeyReq) (lr : LeafReq)

theorem allKV_append (a b : List (Key × Tr ι)) :
    Tr.allKV kr lr (a ++ b) = (Tr.allKV kr lr a && Tr.allKV kr lr b) := by
  induction a with
  | nil => simp [Tr.allKV]
  | cons p a ih => obtain ⟨k, v⟩ := p; simp [Tr.allKV, ih, Bool.and_assoc]

theorem allKV_lookup {kvs : List (Key × Tr ι)} {k : Key} {v : Tr ι}
    (h : Tr.allKV kr lr kvs = true) (hl : Tr.lookup k kvs = some v) :
    kr.ok k = true ∧ Tr.all kr lr v = true := by
  induction kvs with
  | nil => simp [Tr.lookup] at hl
  | cons p kvs ih =>
    obtain ⟨k', v'⟩ := p
    simp only [Tr.allKV, Bool.and_eq_true] at h
    simp only [Tr.lookup] at hl
    split at hl
    · next hk => cases hl; subst hk; exact ⟨h.1.1, h.1.2⟩
    · exact ih h.2 hl

theorem allKV_setKey {kvs : List (Key × Tr ι)} {k : Key} {v : Tr ι}
    (h : Tr.allKV kr lr kvs = true) (hk : kr.ok k = true) (hv : Tr.all kr lr v = true) :
    Tr.allKV kr lr (Tr.setKey k v kvs) = true := by
  induction kvs with
  | nil => simp [Tr.setKey, Tr.allKV, hk, hv]
  | cons p kvs ih =>
    obtain ⟨k', v'⟩ := p
    simp only [Tr.allKV, Bool.and_eq_true] at h
    simp only [Tr.setKey]
    split
    · simp [Tr.allKV, hk, hv, h.2]
    · simp [Tr.allKV, h.1.1, h.1.2, ih h.2]

theorem allKV_delKey {kvs : List (Key × Tr ι)} (k : Key)
    (h : Tr.allKV kr lr kvs = true) : Tr.allKV kr lr (Tr.delKey k kvs) = true := by
  induction kvs with
  | nil => simp [Tr.delKey, Tr.allKV]
  | cons p kvs ih =>
    obtain ⟨k', v'⟩ := p
    simp only [Tr.allKV, Bool.and_eq_true] at h
    simp only [Tr.delKey]
    split
    · exact h.2
    · simp [Tr.allKV, h.1.1, h.1.2, ih h.2]

theorem allKV_filter {kvs : List (Key × Tr ι)} (p : Key × Tr ι → Bool)
    (h : Tr.allKV kr lr kvs = true) : Tr.allKV kr lr (kvs.filter p) = true := by
  induction kvs with
  | nil => simp [Tr.allKV]
  | cons q kvs ih =>
    obtain ⟨k', v'⟩ := q
    simp only [Tr.allKV, Bool.and_eq_true] at h
    simp only [List.filter]
    split
    · simp [Tr.allKV, h.1.1, h.1.2, ih h.2]
    · exact ih h.2

theorem allL_of_allKV_values {kvs : List (Key × Tr ι)} (h : Tr.allKV kr lr kvs = true) :
    Tr.allL kr lr (kvs.map (·.2)) = true := by
  induction kvs with
  | nil => simp [Tr.allL]
  | cons q kvs ih =>
    obtain ⟨k', v'⟩ := q
    simp only [Tr.allKV, Bool.and_eq_true] at h
    simp [Tr.allL, h.1.2, ih h.2]

theorem allL_append (a b : List (Tr ι)) :
    Tr.allL kr lr (a ++ b) = (Tr.allL kr lr a && Tr.allL kr lr b) := by
  induction a with
  | nil => simp [Tr.allL]
  | cons p a ih => simp [Tr.allL, ih, Bool.and_assoc]

theorem allL_iff {xs : List (Tr ι)} : Tr.allL kr lr xs = true ↔ ∀ x ∈ xs, Tr.all kr lr x = true := by
  induction xs with
  | nil => simp [Tr.allL]
  | cons x xs ih => simp [Tr.allL, ih]

theorem allL_filter {xs : List (Tr ι)} (p : Tr ι → Bool) (h : Tr.allL kr lr xs = true) :
    Tr.allL kr lr (xs.filter p) = true := by
  rw [allL_iff] at *
  intro x hx
  exact h x (List.mem_filter.mp hx).1

end kv

/-! ### the merge never lets forbidden data in -/

section merge
variable (kr : KeyReq) (lr : LeafReq) (fam : Fam)

/-- all tracked values of a merge result satisfy the requirement -/
def UpdRes.AllOk {α : Type} (okv : α → Bool) (r : UpdRes α) : Prop :=
  okv r.val = true ∧ Tr.allL kr lr r.det = true

theorem containers_ok {ts : List T} (h : Tr.allL kr lr ts = true) :
    Tr.allL kr lr (containers ts) = true := allL_filter kr lr _ h

/-- one position of the loop: if memory was fine, the nested merge result is fine and
a passed validation means the new value is fine, then the result is fine -/
theorem elemStep_ok {existing : T} {new : Tr ι} {nested : UpdRes T} {verr : Option Err} {n : Nat}
    (he : Tr.all kr lr existing = true)
    (hn : UpdRes.AllOk kr lr (Tr.all kr lr) nested)
    (hv : verr = none → Tr.all kr lr new = true) :
    UpdRes.AllOk kr lr (Tr.all kr lr) (elemStep existing new nested verr n) := by
  have hrep : ∀ (cur : T) (m : Nat) (det : List T), Tr.all kr lr cur = true →
      Tr.allL kr lr det = true →
      UpdRes.AllOk kr lr (Tr.all kr lr)
        (match verr with
         | some e => (⟨cur, m, det, some e⟩ : UpdRes T)
         | none => ⟨(fromBase new m).1, (fromBase new m).2, det ++ containers [cur], none⟩) := by
    intro cur m det hc hd
    cases verr with
    | some e => exact ⟨hc, hd⟩
    | none =>
      refine ⟨by rw [all_fromBase]; exact hv rfl, ?_⟩
      rw [allL_append, hd]
      simp only [Bool.true_and]
      apply containers_ok
      simp [Tr.allL, hc]
  unfold elemStep
  cases existing with
  | leaf s =>
    cases new with
    | leaf s' =>
      simp only
      split
      · exact ⟨he, by simp [Tr.allL]⟩
      · exact hrep _ _ _ he (by simp [Tr.allL])
    | list i xs => exact hrep _ _ _ he (by simp [Tr.allL])
    | dict i kvs => exact hrep _ _ _ he (by simp [Tr.allL])
  | list i xs =>
    simp only
    split
    · exact hrep _ _ _ he (by simp [Tr.allL])
    · split
      · exact hn
      · split
        · exact hrep _ _ _ hn.1 hn.2
        · exact hn
  | dict i kvs =>
    simp only
    split
    · exact hrep _ _ _ he (by simp [Tr.allL])
    · split
      · exact hn
      · split
        · exact hrep _ _ _ hn.1 hn.2
        · exact hn

variable (hd : keyReq fam.dictV = kr ∧ leafReq fam.dictV = lr)
variable (hl : keyReq fam.listV = kr ∧ leafReq fam.listV = lr)

include hd hl in
mutual
theorem updNode_ok : ∀ (d : Tr ι) (t : T) (n : Nat), Tr.all kr lr t = true →
    UpdRes.AllOk kr lr (Tr.all kr lr) (updNode fam t d n)
  | .leaf s, t, n, ht => by
    cases s <;> cases t <;> simp [updNode, UpdRes.AllOk, ht, Tr.allL]
  | .list j dxs, t, n, ht => by
    cases t with
    | leaf s => simp [updNode, UpdRes.AllOk, ht, Tr.allL]
    | dict i kvs => simp [updNode, UpdRes.AllOk, ht, Tr.allL]
    | list i xs =>
      have h := updListLoop_ok dxs xs n (by simpa [Tr.all] using ht)
      simp only [updNode]
      exact ⟨by simpa [Tr.all] using h.1, h.2⟩
  | .dict j dkvs, t, n, ht => by
    cases t with
    | leaf s => simp [updNode, UpdRes.AllOk, ht, Tr.allL]
    | list i xs => simp [updNode, UpdRes.AllOk, ht, Tr.allL]
    | dict i kvs =>
      have h := updDictLoop_ok dkvs kvs n (by simpa [Tr.all] using ht)
      simp only [updNode]
      split
      · exact ⟨by simpa [Tr.all] using h.1, h.2⟩
      · refine ⟨by simpa [Tr.all] using allKV_filter kr lr _ h.1, ?_⟩
        rw [allL_append, h.2]
        simp only [Bool.true_and]
        apply containers_ok
        exact allL_of_allKV_values kr lr (allKV_filter kr lr _ h.1)
theorem updDictLoop_ok : ∀ (data : List (Key × Tr ι)) (cur : List (Key × T)) (n : Nat),
    Tr.allKV kr lr cur = true →
    UpdRes.AllOk kr lr (Tr.allKV kr lr) (updDictLoop fam cur data n)
  | [], cur, n, hc => by simp [updDictLoop, UpdRes.AllOk, hc, Tr.allL]
  | (k, v) :: rest, cur, n, hc => by
    have hval : validateKV fam.dictV [(k, v)] = none → kr.ok k = true ∧ Tr.all kr lr v = true := by
      intro h
      rw [validateKV_none, hd.1, hd.2] at h
      simpa [Tr.allKV] using h
    simp only [updDictLoop]
    split
    · -- new key
      split
      · exact ⟨hc, by simp [Tr.allL]⟩
      · next hv =>
        have hkv := hval hv
        have hc' : Tr.allKV kr lr (cur ++ [(k, (fromBase v n).1)]) = true := by
          rw [allKV_append, hc]; simp [Tr.allKV, hkv.1, all_fromBase, hkv.2]
        have h := updDictLoop_ok rest _ (fromBase v n).2 hc'
        exact ⟨h.1, h.2⟩
    · next existing hlook =>
      have hex := allKV_lookup kr lr hc hlook
      have hs := elemStep_ok kr lr (n := n) (verr := validateKV fam.dictV [(k, v)]) hex.2
        (updNode_ok v existing n hex.2) (fun h => (hval h).2)
      have hc' := allKV_setKey kr lr hc hex.1 hs.1
      split
      · exact ⟨hc', hs.2⟩
      · have h := updDictLoop_ok rest _ (elemStep existing v (updNode fam existing v n)
            (validateKV fam.dictV [(k, v)]) n).next hc'
        refine ⟨h.1, ?_⟩
        rw [allL_append, hs.2, h.2]; rfl
theorem updListLoop_ok : ∀ (data : List (Tr ι)) (cur : List T) (n : Nat),
    Tr.allL kr lr cur = true →
    UpdRes.AllOk kr lr (Tr.allL kr lr) (updListLoop fam cur data n)
  | [], [], n, hc => by simp [updListLoop, UpdRes.AllOk, Tr.allL]
  | [], c :: cs, n, hc => by
    simp only [updListLoop]
    exact ⟨by simp [Tr.allL], containers_ok kr lr hc⟩
  | d :: ds, [], n, hc => by
    simp only [updListLoop]
    split
    · exact ⟨by simp [Tr.allL], by simp [Tr.allL]⟩
    · next hv =>
      rw [validateL_none, hl.1, hl.2] at hv
      exact ⟨by rw [allL_fromBaseL]; exact hv, by simp [Tr.allL]⟩
  | d :: ds, c :: cs, n, hc => by
    simp only [Tr.allL, Bool.and_eq_true] at hc
    have hs := elemStep_ok kr lr (n := n) (verr := validate fam.listV d) hc.1
      (updNode_ok d c n hc.1)
      (fun h => by rw [validate_none, hl.1, hl.2] at h; exact h)
    simp only [updListLoop]
    split
    · exact ⟨by simp [Tr.allL, hs.1, hc.2], hs.2⟩
    · have h := updListLoop_ok ds cs (elemStep c d (updNode fam c d n) (validate fam.listV d) n).next hc.2
      refine ⟨by simp [Tr.allL, hs.1, h.1], ?_⟩
      rw [allL_append, hs.2, h.2]; rfl
end

end merge
end SC
