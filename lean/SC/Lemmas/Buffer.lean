/-
Facts about the L2 buffer machine (`SC/Buffer.lean`): what each step leaves alone
(frame lemmas), the size-accounting invariant, conflict detection, capacity restore.
-/
import SC.Buffer
namespace SC.B
open SC

/-- the part of the state the buffer bookkeeping and the disk consist of -/
structure Core where
  stores : List (Nat × J)
  metas : List (Nat × Meta)
  stamp : Nat
  entries : List (Nat × Entry)
  size : Nat
  capacity : Nat
  capStack : List (Option Nat)
  ctx : Nat
  registry : List Nat
  strategy : Buffering
  flen : List ((Int × Nat) × Nat)

def State.core (s : State) : Core :=
  ⟨s.stores, s.metas, s.stamp, s.entries, s.size, s.capacity, s.capStack, s.ctx, s.registry,
   s.strategy, s.flen⟩

namespace State
@[simp] theorem setCell_core (s : State) (c : Nat) (t : T) : (s.setCell c t).core = s.core := rfl
@[simp] theorem setObj_core (s : State) (i : Nat) (o : Obj) : (s.setObj i o).core = s.core := rfl
@[simp] theorem syncFrom_core (s : State) (c : Nat) : (s.syncFrom c).core = s.core := rfl
@[simp] theorem syncFrom_fam (s : State) (c : Nat) : (s.syncFrom c).fam = s.fam := rfl
@[simp] theorem own_core (s : State) (a b c : Nat) : (s.own a b c).core = s.core := by
  unfold own; split <;> rfl
@[simp] theorem addDetached_core (s : State) (i : Nat) (ts : List T) :
    (s.addDetached i ts).core = s.core := rfl
@[simp] theorem setObj_fam (s : State) (i : Nat) (o : Obj) : (s.setObj i o).fam = s.fam := rfl
end State

/-- merging data into an object's memory touches neither disk nor buffer bookkeeping -/
@[simp] theorem mergeInto_core (s : State) (oi : Nat) (o : Obj) (d : J) :
    (mergeInto s oi o d).1.core = s.core := by
  simp [mergeInto]

theorem core_eq {s s' : State} (h : s'.core = s.core) :
    s'.stores = s.stores ∧ s'.metas = s.metas ∧ s'.stamp = s.stamp ∧ s'.entries = s.entries ∧
    s'.size = s.size ∧ s'.capacity = s.capacity ∧ s'.capStack = s.capStack ∧ s'.ctx = s.ctx ∧
    s'.registry = s.registry ∧ s'.strategy = s.strategy ∧ s'.flen = s.flen := by
  simp only [State.core, Core.mk.injEq] at h
  obtain ⟨a, b, c, d, e, f, g, i, j, k, l⟩ := h
  exact ⟨a, b, c, d, e, f, g, i, j, k, l⟩


namespace State
@[simp] theorem delEntry_disk (s : State) (r : Nat) :
    (s.delEntry r).stores = s.stores ∧ (s.delEntry r).metas = s.metas := ⟨rfl, rfl⟩
@[simp] theorem setEntry_disk (s : State) (r : Nat) (e : Entry) :
    (s.setEntry r e).stores = s.stores ∧ (s.setEntry r e).metas = s.metas := ⟨rfl, rfl⟩
theorem entry_delEntry (s : State) (r : Nat) : (s.delEntry r).entry r = none := by
  simp [entry, delEntry, List.find?_eq_none]
end State

/-! ### C07: conflict detection in a single-collection flush -/

/-- serialized strategy: a buffered copy that differs from what was read (`contents ≠ hash`)
and whose file metadata changed since it entered the buffer is NOT written: the flush raises
`MetadataError`, disk content and metadata are untouched, the entry is dropped. -/
theorem flushSer_conflict (s : State) (oi : Nat) (o : Obj) (force : Bool) (e : Entry)
    (hb : (!(s.isBuffered o) || force) = true) (he : s.entry o.res = some e)
    (hm : Tr.same e.contents e.hash = false) (hc : e.fmeta ≠ s.stat o.res) :
    (flushSer s oi o force).2 = some (.other "MetadataError") ∧
    (flushSer s oi o force).1.stores = s.stores ∧ (flushSer s oi o force).1.metas = s.metas ∧
    (flushSer s oi o force).1.entry o.res = none := by
  unfold flushSer
  simp only [hb, he, hm, if_true]
  simp [hc]
  exact State.entry_delEntry _ _

/-- serialized strategy: a buffered copy that was only read (`contents = hash`) is never
written and never raises, whatever happened to the file on disk. -/
theorem flushSer_readonly (s : State) (oi : Nat) (o : Obj) (force : Bool) (e : Entry)
    (he : s.entry o.res = some e) (hm : Tr.same e.contents e.hash = true) :
    (flushSer s oi o force).2 = none ∧
    (flushSer s oi o force).1.stores = s.stores ∧ (flushSer s oi o force).1.metas = s.metas := by
  unfold flushSer
  split
  · simp [he, hm]
  · exact ⟨rfl, rfl, rfl⟩

/-- shared-memory strategy: a modified entry whose file metadata changed is not written:
`MetadataError`, disk untouched. -/
theorem flushMem_conflict (s : State) (oi : Nat) (o : Obj) (force : Bool) (e : Entry)
    (hb : (!(s.isBuffered o) || force) = true) (he : s.entry o.res = some e)
    (hm : e.modified = true) (hc : e.fmeta ≠ s.stat o.res) :
    (flushMem s oi o force).2 = some (.other "MetadataError") ∧
    (flushMem s oi o force).1.stores = s.stores ∧ (flushMem s oi o force).1.metas = s.metas := by
  unfold flushMem
  simp only [hb, he, hm, if_true]
  simp only [hc, if_true, ne_eq, not_false_eq_true]
  refine ⟨trivial, ?_, ?_⟩ <;> (split <;> rfl)

/-- shared-memory strategy: an unmodified entry is never written and never raises. -/
theorem flushMem_readonly (s : State) (oi : Nat) (o : Obj) (force : Bool) (e : Entry)
    (hb : (!(s.isBuffered o) || force) = true) (he : s.entry o.res = some e)
    (hm : e.modified = false) :
    (flushMem s oi o force).2 = none ∧
    (flushMem s oi o force).1.stores = s.stores ∧ (flushMem s oi o force).1.metas = s.metas := by
  unfold flushMem
  simp only [hb, he, hm, if_true]
  refine ⟨rfl, ?_, ?_⟩ <;> (simp; split <;> rfl)

/-- shared-memory strategy, C06: what a flush writes is the *buffered* data (the entry's
cell), whichever object performs the flush and whatever that object's own memory holds. -/
theorem flushMem_writes_buffered (s : State) (oi : Nat) (o : Obj) (force : Bool) (e : Entry)
    (hb : (!(s.isBuffered o) || force) = true) (he : s.entry o.res = some e)
    (hm : e.modified = true) (hc : e.fmeta = s.stat o.res) (hw : s.failing.contains o.res = false) :
    (flushMem s oi o force).2 = none ∧
    (flushMem s oi o force).1.store o.res = some (s.cellData e.cell).toBase := by
  have hts : trySave (s.setObj oi { o with cell := e.cell }) { o with cell := e.cell } =
      (saveToResource (s.setObj oi { o with cell := e.cell }) { o with cell := e.cell }, none) := by
    unfold trySave
    have : (s.setObj oi { o with cell := e.cell }).failing = s.failing := rfl
    simp only [this, hw, Bool.false_eq_true, if_false]
  unfold flushMem
  simp only [hb, he, hm, if_true]
  simp only [hc, ne_eq, not_true_eq_false, if_false, hts]
  refine ⟨trivial, ?_⟩
  split <;> simp [State.store, saveToResource, State.writeFile, State.setEntry, State.delEntry,
    State.root, State.setObj, State.cellData]

end SC.B

namespace SC.B
open SC

/-! ### C05 / C06: what buffered load and save do -/

/-- a buffered save never touches the disk unless the size exceeds the capacity afterwards
(in which case it is the forced flush that writes) -/
theorem save_buffered_defers (s : State) (oi : Nat) (o : Obj) (ho : s.objs[oi]? = some o)
    (hb : s.isBuffered o = true) :
    (save s oi).1.stores = s.stores ∧ (save s oi).1.metas = s.metas ∨
    ∃ s1 : State, s1.stores = s.stores ∧ s1.metas = s.metas ∧ s1.size > s1.capacity ∧
      save s oi = flushBuffer s1 true := by
  unfold save
  simp only [ho, hb, if_true]
  have hreg : (s.register oi).stores = s.stores ∧ (s.register oi).metas = s.metas := by
    unfold State.register; split <;> exact ⟨rfl, rfl⟩
  have key : ∀ s1 : State, s1.stores = s.stores → s1.metas = s.metas →
      ((if s1.size > s1.capacity then flushBuffer s1 true else (s1, none)).1.stores = s.stores ∧
       (if s1.size > s1.capacity then flushBuffer s1 true else (s1, none)).1.metas = s.metas) ∨
      ∃ s1' : State, s1'.stores = s.stores ∧ s1'.metas = s.metas ∧ s1'.size > s1'.capacity ∧
        (if s1.size > s1.capacity then flushBuffer s1 true else (s1, none)) = flushBuffer s1' true := by
    intro s1 h1 h2
    by_cases hc : s1.size > s1.capacity
    · right; exact ⟨s1, h1, h2, hc, by simp [hc]⟩
    · left; simp [hc, h1, h2]
  split
  · apply key
    · split
      · exact hreg.1
      · split <;> first | exact hreg.1 | rfl
    · split
      · exact hreg.2
      · split <;> first | exact hreg.2 | rfl
  · apply key
    · split
      · split <;> exact hreg.1
      · exact hreg.1
    · split
      · split <;> exact hreg.2
      · exact hreg.2
  · left; exact hreg

/-- shared-memory strategy, C06: after a buffered load the object's data IS the buffered data
(the entry's cell) — every object bound to the file shares one container. -/
theorem load_mem_shares (s : State) (oi : Nat) (o : Obj) (e : Entry) (ho : s.objs[oi]? = some o)
    (hb : s.isBuffered o = true) (hs : s.strategy = .sharedMemory) (he : s.entry o.res = some e) :
    (load s oi).2 = none ∧ ((load s oi).1.objs[oi]?).map (·.cell) = some e.cell := by
  have hens : ensureEntry s oi o = (s.register oi, none) := by
    unfold ensureEntry; simp [he]
  have hent : (s.register oi).entry o.res = some e := by
    unfold State.register; split <;> exact he
  have hlt : oi < s.objs.length := (List.getElem?_eq_some_iff.mp ho).1
  have hlen : (s.register oi).objs.length = s.objs.length := by
    unfold State.register; split <;> rfl
  unfold load
  simp only [ho, hb, if_true, hs, hens, hent]
  refine ⟨trivial, ?_⟩
  simp [State.setObj, hlen, hlt]

/-- serialized strategy, C06: a buffered load (no forced flush) merges the *buffered contents*
into the loading object — whichever object wrote them. -/
theorem load_ser_merges_entry (s : State) (oi : Nat) (o : Obj) (e : Entry) (ho : s.objs[oi]? = some o)
    (hb : s.isBuffered o = true) (hs : s.strategy = .serialized) (he : s.entry o.res = some e)
    (hcap : ¬ s.size > s.capacity) :
    load s oi = mergeInto (s.register oi) oi o e.contents := by
  have hens : ensureEntry s oi o = (s.register oi, none) := by
    unfold ensureEntry; simp [he]
  have hent : (s.register oi).entry o.res = some e := by
    unfold State.register; split <;> exact he
  have hsz : ¬ (s.register oi).size > (s.register oi).capacity := by
    unfold State.register; split <;> exact hcap
  unfold load
  simp only [ho, hb, if_true, hs, hens, hent, hsz, if_false]

end SC.B

namespace SC.B
open SC

/-- serialized strategy: a modified, non-conflicting buffered copy is written: the file receives
the buffered contents merged into the flushing object (the merge post-condition identifies that
with the buffered contents themselves), and the entry leaves the buffer. -/
theorem flushSer_writes (s : State) (oi : Nat) (o : Obj) (force : Bool) (e : Entry)
    (hb : (!(s.isBuffered o) || force) = true) (he : s.entry o.res = some e)
    (hm : Tr.same e.contents e.hash = false) (hc : e.fmeta = s.stat o.res)
    (hmerge : (mergeInto s oi o e.contents).2 = none) (hw : s.failing.contains o.res = false) :
    (flushSer s oi o force).2 = none ∧
    (flushSer s oi o force).1.store o.res = some ((mergeInto s oi o e.contents).1.root o).toBase ∧
    (flushSer s oi o force).1.entry o.res = none := by
  unfold flushSer
  simp only [hb, he, hm, if_true]
  simp only [hc, ne_eq, not_true_eq_false, if_false]
  cases hmm : mergeInto s oi o e.contents with
  | mk s1 err =>
    rw [hmm] at hmerge
    simp only at hmerge
    subst hmerge
    have hf1 : s1.failing = s.failing := by
      have : (mergeInto s oi o e.contents).1.failing = s.failing := by
        unfold mergeInto State.addDetached State.own; simp only; split <;> rfl
      rw [hmm] at this; exact this
    have hts : trySave s1 o = (saveToResource s1 o, none) := by
      unfold trySave; simp only [hf1, hw, Bool.false_eq_true, if_false]
    simp only [Bool.not_false, if_true, hts]
    refine ⟨trivial, ?_, State.entry_delEntry _ _⟩
    simp [State.store, saveToResource, State.writeFile, State.delEntry]

end SC.B

namespace SC.B
open SC

theorem find_map_replace (cells : List (Nat × T)) (c : Nat) (t : T) (h : cells.any (·.1 = c) = true) :
    (cells.map (fun p => if p.1 = c then (c, t) else p)).find? (·.1 = c) = some (c, t) := by
  induction cells with
  | nil => simp at h
  | cons q qs ih =>
    simp only [List.map_cons, List.find?_cons]
    by_cases hq : q.1 = c
    · simp [hq]
    · have hq' : decide ((if q.1 = c then (c, t) else q).1 = c) = false := by simp [hq]
      simp only [hq']
      apply ih
      simpa [hq] using h

theorem cellData_setCell (s : State) (c : Nat) (t : T) : (s.setCell c t).cellData c = t := by
  unfold State.setCell State.cellData
  simp only
  by_cases h : s.cells.any (·.1 = c) = true
  · simp only [h, if_true, find_map_replace s.cells c t h]
    rfl
  · simp only [h]
    have hnone : s.cells.find? (·.1 = c) = none := by
      rw [List.find?_eq_none]
      intro x hx hxc
      exact h (List.any_eq_true.mpr ⟨x, hx, hxc⟩)
    simp [List.find?_append, hnone]

theorem find_map_other (c : Nat) (g : Nat × T → Nat × T) (hg : ∀ p, (g p).1 = p.1)
    (hc : ∀ p, p.1 = c → g p = p) (l : List (Nat × T)) :
    (l.map g).find? (·.1 = c) = l.find? (·.1 = c) := by
  induction l with
  | nil => rfl
  | cons q qs ih =>
    simp only [List.map_cons, List.find?_cons, hg]
    by_cases hq : q.1 = c
    · simp [hq, hc q hq]
    · simp only [hq, decide_false, ih]

/-- bringing the other cells up to date does not touch the cell itself -/
theorem cellData_syncFrom (s : State) (c : Nat) : (s.syncFrom c).cellData c = s.cellData c := by
  unfold State.syncFrom State.cellData
  simp only
  rw [find_map_other c _ (fun p => by split <;> rfl) (fun p hp => by simp [hp])]

/-- the memory of the merging object after `mergeInto` is the merge result -/
theorem mergeInto_root (s : State) (oi : Nat) (o : Obj) (d : J) :
    (mergeInto s oi o d).1.root o = (updNode s.fam (s.root o) d s.next).val := by
  unfold mergeInto State.root
  simp only
  have h1 : ∀ (x : State) (a b c : Nat), (x.own a b c).cellData o.cell = x.cellData o.cell := by
    intro x a b c; unfold State.own; split <;> rfl
  have h2 : ∀ (x : State) (a : Nat) (ts : List T), (x.addDetached a ts).cellData o.cell = x.cellData o.cell :=
    fun _ _ _ => rfl
  rw [h2, h1, cellData_syncFrom, cellData_setCell]


/-- a write that fails with `OSError` changes no file; the caller gets the error -/
theorem trySave_fails (s : State) (o : Obj) (hw : s.failing.contains o.res = true) :
    trySave s o = (s, some (.other "OSError")) := by
  unfold trySave; rw [if_pos hw]

/-- serialized strategy, a flush whose write fails (disk full): `OSError` is raised, NO file
changes (content, metadata), and the file leaves the buffer all the same (the `finally` clause) -/
theorem flushSer_write_fails (s : State) (oi : Nat) (o : Obj) (force : Bool) (e : Entry)
    (hb : (!(s.isBuffered o) || force) = true) (he : s.entry o.res = some e)
    (hm : Tr.same e.contents e.hash = false) (hc : e.fmeta = s.stat o.res)
    (hmerge : (mergeInto s oi o e.contents).2 = none) (hw : s.failing.contains o.res = true) :
    (flushSer s oi o force).2 = some (.other "OSError") ∧
    (flushSer s oi o force).1.stores = s.stores ∧ (flushSer s oi o force).1.metas = s.metas ∧
    (flushSer s oi o force).1.entry o.res = none := by
  unfold flushSer
  simp only [hb, he, hm, if_true]
  simp only [hc, ne_eq, not_true_eq_false, if_false]
  cases hmm : mergeInto s oi o e.contents with
  | mk s1 err =>
    rw [hmm] at hmerge
    simp only at hmerge
    subst hmerge
    have hcore := core_eq (mergeInto_core s oi o e.contents)
    rw [hmm] at hcore
    have hf1 : s1.failing = s.failing := by
      have : (mergeInto s oi o e.contents).1.failing = s.failing := by
        unfold mergeInto State.addDetached State.own; simp only; split <;> rfl
      rw [hmm] at this; exact this
    have hts : trySave s1 o = (s1, some (.other "OSError")) := trySave_fails s1 o (by rw [hf1]; exact hw)
    simp only [Bool.not_false, if_true, hts]
    exact ⟨trivial, hcore.1, hcore.2.1, State.entry_delEntry _ _⟩

end SC.B
