/-
C07/C15 — capacity, capacity stack and context counter are untouched by flushes;
a backend-wide context restores the capacity it was given, also when its exit raises.
-/
import SC.Lemmas.BufSize
namespace SC.B
open SC

def SameCap (s s' : State) : Prop :=
  s'.capacity = s.capacity ∧ s'.capStack = s.capStack ∧ s'.ctx = s.ctx

theorem SameCap.refl (s : State) : SameCap s s := ⟨rfl, rfl, rfl⟩
theorem SameCap.trans {a b c : State} (h1 : SameCap a b) (h2 : SameCap b c) : SameCap a c :=
  ⟨h2.1.trans h1.1, h2.2.1.trans h1.2.1, h2.2.2.trans h1.2.2⟩
theorem SameCap.of_core {s s' : State} (h : s'.core = s.core) : SameCap s s' := by
  have := core_eq h
  exact ⟨this.2.2.2.2.2.1, this.2.2.2.2.2.2.1, this.2.2.2.2.2.2.2.1⟩

theorem sameCap_mergeInto (s : State) (oi : Nat) (o : Obj) (d : J) : SameCap s (mergeInto s oi o d).1 :=
  SameCap.of_core (mergeInto_core s oi o d)

theorem sameCap_trySave (s : State) (o : Obj) : SameCap s (trySave s o).1 := by
  unfold trySave; split
  · exact SameCap.refl s
  · exact ⟨rfl, rfl, rfl⟩

theorem sameCap_flushSer (s : State) (oi : Nat) (o : Obj) (force : Bool) :
    SameCap s (flushSer s oi o force).1 := by
  unfold flushSer
  split
  · cases he : s.entry o.res with
    | none => exact SameCap.refl s
    | some e =>
      simp only
      split
      · split
        · exact ⟨rfl, rfl, rfl⟩
        · cases hm : mergeInto s oi o e.contents with
          | mk s1 err =>
            have h1 : SameCap s s1 := by have := sameCap_mergeInto s oi o e.contents; rwa [hm] at this
            cases err with
            | some er => exact ⟨h1.1, h1.2.1, h1.2.2⟩
            | none =>
              simp only
              have h2 := h1.trans (sameCap_trySave s1 o)
              exact ⟨h2.1, h2.2.1, h2.2.2⟩
      · exact ⟨rfl, rfl, rfl⟩
  · exact SameCap.refl s

theorem sameCap_own (s : State) (a b c : Nat) : SameCap s (s.own a b c) := by
  unfold State.own; split <;> exact ⟨rfl, rfl, rfl⟩

theorem sameCap_flushMem (s : State) (oi : Nat) (o : Obj) (force : Bool) :
    SameCap s (flushMem s oi o force).1 := by
  unfold flushMem
  split
  · cases he : s.entry o.res with
    | none =>
      simp only
      split
      · split
        · exact SameCap.refl s
        · exact sameCap_mergeInto _ _ _ _
      · exact SameCap.refl s
    | some e =>
      have h2 := (SameCap.trans (b := s.setObj oi { o with cell := e.cell }) ⟨rfl, rfl, rfl⟩
        (sameCap_trySave (s.setObj oi { o with cell := e.cell }) { o with cell := e.cell }))
      cases hm : e.modified <;> cases force <;> simp only [hm, Bool.false_eq_true, if_false, if_true]
      all_goals first
        | exact ⟨rfl, rfl, rfl⟩
        | (split
           · exact ⟨rfl, rfl, rfl⟩
           · split <;> exact ⟨h2.1, h2.2.1, h2.2.2⟩)
  · exact ⟨rfl, rfl, rfl⟩

theorem sameCap_flushOne (s : State) (oi : Nat) (force : Bool) : SameCap s (flushOne s oi force).1 := by
  unfold flushOne
  split
  · exact SameCap.refl s
  · split
    · exact sameCap_flushSer s oi _ force
    · exact sameCap_flushMem s oi _ force
    · exact SameCap.refl s

theorem sameCap_flushBufferLoop (force retain : Bool) (order : List Nat) :
    ∀ (s : State) (remaining issues : List Nat),
      SameCap s (flushBufferLoop force retain order s remaining issues).1 := by
  induction order with
  | nil => intro s _ _; exact SameCap.refl s
  | cons oi rest ih =>
    intro s remaining issues
    unfold flushBufferLoop
    split
    · exact ih s remaining issues
    · split
      · exact ih s _ issues
      · simp only
        cases hf : flushOne s oi force with
        | mk s1 err =>
          have h1 : SameCap s s1 := by have := sameCap_flushOne s oi force; rwa [hf] at this
          simp only
          split <;> exact h1.trans (ih s1 _ _)

theorem sameCap_flushBuffer (s : State) (force : Bool) : SameCap s (flushBuffer s force).1 := by
  unfold flushBuffer
  simp only
  have h1 := sameCap_flushBufferLoop force (s.strategy == .sharedMemory) s.registry.reverse
    { s with registry := [] } [] []
  cases hl : flushBufferLoop force (s.strategy == .sharedMemory) s.registry.reverse
      { s with registry := [] } [] [] with
  | mk s1 rest =>
    rw [hl] at h1
    obtain ⟨remaining, issues⟩ := rest
    simp only
    split <;> exact ⟨h1.1, h1.2.1, h1.2.2⟩

/-- `set_buffer_capacity(n)` leaves capacity `n`, whether or not the flush it may force raises -/
theorem setCapacity_capacity (s : State) (n : Nat) :
    (setCapacity s n).1.capacity = n ∧ (setCapacity s n).1.capStack = s.capStack ∧
    (setCapacity s n).1.ctx = s.ctx := by
  unfold setCapacity
  simp only
  split
  · have := sameCap_flushBuffer { s with capacity := n } true
    exact ⟨this.1, this.2.1, this.2.2⟩
  · exact ⟨rfl, rfl, rfl⟩

/-- C07 (d) / C15: leaving a backend-wide context pops the capacity stack and, if the context was
entered with a capacity, puts back the capacity saved at entry — for every state, i.e. also when
the flush on exit raises `BufferedError` or the restoring `set_buffer_capacity` forces a flush
that raises. -/
theorem exitCls_restores (s : State) (saved : Option Nat) (rest : List (Option Nat))
    (hst : s.capStack = saved :: rest) :
    (exitCls s).1.capStack = rest ∧
    (exitCls s).1.capacity = (match saved with | some c => c | none => s.capacity) ∧
    (exitCls s).1.ctx = s.ctx - 1 := by
  unfold exitCls
  simp only
  have h1 : SameCap { s with ctx := s.ctx - 1 } (if s.ctx - 1 = 0 then flushBuffer { s with ctx := s.ctx - 1 } false
      else ({ s with ctx := s.ctx - 1 }, none)).1 := by
    split
    · exact sameCap_flushBuffer _ false
    · exact SameCap.refl _
  revert h1
  generalize (if s.ctx - 1 = 0 then flushBuffer { s with ctx := s.ctx - 1 } false
      else ({ s with ctx := s.ctx - 1 }, none)) = p
  intro h1
  obtain ⟨s2, ferr⟩ := p
  simp only at h1 ⊢
  obtain ⟨c1, c2, c3⟩ := h1
  have hs2 : s2.capStack = saved :: rest := by rw [c2]; exact hst
  rw [hs2]
  simp only
  cases saved with
  | none => exact ⟨rfl, c1, c3⟩
  | some c =>
    simp only
    have := setCapacity_capacity { s2 with capStack := rest } c
    exact ⟨this.2.1, this.1, this.2.2.trans c3⟩

/-- entering with a capacity pushes the capacity in force -/
theorem enterCls_pushes (s : State) (cap : Option Nat) :
    (enterCls s cap).1.capStack = (cap.map (fun _ => s.capacity)) :: s.capStack ∧
    (enterCls s cap).1.ctx = s.ctx + 1 := by
  unfold enterCls
  simp only
  cases cap with
  | none => exact ⟨rfl, rfl⟩
  | some c =>
    have := setCapacity_capacity { { s with ctx := s.ctx + 1 } with capStack := some s.capacity :: s.capStack } c
    exact ⟨this.2.1, this.2.2⟩

end SC.B
