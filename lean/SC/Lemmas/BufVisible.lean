/-
C05 / C06 — reads see earlier buffered writes (serialized strategy): what a buffered save puts
into the buffer is what the next buffered load through ANY object on the file merges into that
object, and (merge post-condition) the loading object's content then IS the saved content.
-/
import SC.Lemmas.BufBound
import SC.Lemmas.Merge
namespace SC.B
open SC

theorem find_map_replace' {β : Type} (l : List (Nat × β)) (c : Nat) (t : β) (h : l.any (·.1 = c) = true) :
    (l.map (fun p => if p.1 = c then (c, t) else p)).find? (·.1 = c) = some (c, t) := by
  induction l with
  | nil => simp at h
  | cons q qs ih =>
    simp only [List.map_cons, List.find?_cons]
    by_cases hq : q.1 = c
    · simp [hq]
    · have hq' : decide ((if q.1 = c then (c, t) else q).1 = c) = false := by simp [hq]
      simp only [hq']
      apply ih
      simpa [hq] using h

theorem entry_setEntry (s : State) (r : Nat) (e : Entry) : (s.setEntry r e).entry r = some e := by
  unfold State.setEntry State.entry
  simp only
  by_cases h : s.entries.any (·.1 = r) = true
  · simp only [h, if_true, find_map_replace' s.entries r e h, Option.map_some]
  · simp only [h]
    have hnone : s.entries.find? (·.1 = r) = none := by
      rw [List.find?_eq_none]
      intro x hx hxc
      exact h (List.any_eq_true.mpr ⟨x, hx, hxc⟩)
    simp [List.find?_append, hnone]

/-- the entry a serialized buffered save leaves: its contents are the saving object's content -/
theorem entry_saveSer (s0 : State) (o : Obj) :
    ∃ e, (saveSer s0 o).entry o.res = some e ∧ e.contents = (s0.root o).toBase := by
  unfold saveSer
  cases he : s0.entry o.res with
  | some e0 =>
    simp only
    exact ⟨{ e0 with contents := (s0.root o).toBase, hash := if e0.fmeta.isNone then .leaf .null else e0.hash },
      entry_setEntry _ _ _, rfl⟩
  | none =>
    simp only
    have hinit : (initEntrySer s0 o).entry o.res =
        some ⟨(s0.root o).toBase, (s0.root o).toBase, s0.stat o.res, o.cell, false⟩ := by
      unfold initEntrySer
      exact entry_setEntry _ _ _
    simp only [hinit]
    exact ⟨_, entry_setEntry _ _ _, rfl⟩

theorem objs_saveSer (s0 : State) (o : Obj) :
    (saveSer s0 o).objs = s0.objs ∧ (saveSer s0 o).ctx = s0.ctx ∧ (saveSer s0 o).strategy = s0.strategy ∧
    (saveSer s0 o).cells = s0.cells ∧ (saveSer s0 o).fam = s0.fam := by
  unfold saveSer
  split
  · exact ⟨rfl, rfl, rfl, rfl, rfl⟩
  · simp only
    split <;> exact ⟨rfl, rfl, rfl, rfl, rfl⟩

theorem register_fields (s : State) (oi : Nat) :
    (s.register oi).objs = s.objs ∧ (s.register oi).ctx = s.ctx ∧ (s.register oi).strategy = s.strategy ∧
    (s.register oi).cells = s.cells ∧ (s.register oi).fam = s.fam := by
  unfold State.register; split <;> exact ⟨rfl, rfl, rfl, rfl, rfl⟩

/-- READ-YOUR-WRITES across objects, serialized strategy.  Object `oi` saves while buffered and the
buffer does not overflow.  Then the save raises nothing and writes no file (C05 deferral), and the
next buffered load through ANY object `oj` bound to the same file — the saving one or another —
merges exactly the saved content into `oj`; if that load does not raise, `oj`'s content IS the
content `oi` saved (structure, scalars, key sets), whatever `oj` held in memory before. -/
theorem serialized_write_visible (s : State) (oi oj : Nat) (o oJ : Obj)
    (hs : s.strategy = .serialized)
    (ho : s.objs[oi]? = some o) (hb : s.isBuffered o = true)
    (hoj : s.objs[oj]? = some oJ) (hbj : s.isBuffered oJ = true) (hres : oJ.res = o.res)
    (hfit : ¬ (saveSer (s.register oi) o).size > (saveSer (s.register oi) o).capacity) :
    (save s oi).2 = none ∧ (save s oi).1.stores = s.stores ∧
    load (save s oi).1 oj = mergeInto ((save s oi).1.register oj) oj oJ (s.root o).toBase ∧
    ((load (save s oi).1 oj).2 = none → (s.root o).toBase.wf = true → (s.root oJ).wf = true →
      (s.root o).toBase ≠ .leaf .null →
      Eqv ((load (save s oi).1 oj).1.root oJ) (s.root o).toBase) := by
  have hreg := register_fields s oi
  have hsv : save s oi = (saveSer (s.register oi) o, none) := by
    rw [save_eq]
    simp only [ho, hb, if_true, hreg.2.2.1, hs]
    unfold overflow
    rw [if_neg hfit]
  have hf := objs_saveSer (s.register oi) o
  obtain ⟨e, he, hec⟩ := entry_saveSer (s.register oi) o
  have hroot : (s.register oi).root o = s.root o := by
    unfold State.root State.cellData; rw [hreg.2.2.2.1]
  rw [hroot] at hec
  have hstores : (saveSer (s.register oi) o).stores = s.stores := by
    have h1 : (s.register oi).stores = s.stores := by unfold State.register; split <;> rfl
    rw [← h1]
    unfold saveSer
    split
    · rfl
    · simp only
      split <;> rfl
  have hload : load (saveSer (s.register oi) o) oj =
      mergeInto ((saveSer (s.register oi) o).register oj) oj oJ e.contents := by
    apply load_ser_merges_entry _ oj oJ e
    · rw [hf.1, hreg.1]; exact hoj
    · simpa [State.isBuffered, hf.2.1, hreg.2.1] using hbj
    · rw [hf.2.2.1, hreg.2.2.1]; exact hs
    · rw [hres]; exact he
    · exact hfit
  rw [hsv]
  refine ⟨rfl, hstores, by rw [hload, hec], ?_⟩
  intro herr hwf hwt hnn
  rw [hload, hec] at herr ⊢
  rw [mergeInto_root]
  have hr2 : ((saveSer (s.register oi) o).register oj).root oJ = s.root oJ := by
    have h2 := register_fields (saveSer (s.register oi) o) oj
    unfold State.root State.cellData
    rw [h2.2.2.2.1, hf.2.2.2.1, hreg.2.2.2.1]
  rw [hr2]
  have herr' : (updNode ((saveSer (s.register oi) o).register oj).fam (s.root oJ) (s.root o).toBase
      ((saveSer (s.register oi) o).register oj).next).err = none := by
    have : (mergeInto ((saveSer (s.register oi) o).register oj) oj oJ (s.root o).toBase).2 =
        (updNode ((saveSer (s.register oi) o).register oj).fam
          (((saveSer (s.register oi) o).register oj).root oJ) (s.root o).toBase
          ((saveSer (s.register oi) o).register oj).next).err := rfl
    rw [this, hr2] at herr
    exact herr
  exact (updNode_post _ _ _ _ hwf hwt hnn herr').1


/-! ### shared-memory strategy -/

theorem load_mem_eq (s : State) (oi : Nat) (o : Obj) (e : Entry) (ho : s.objs[oi]? = some o)
    (hb : s.isBuffered o = true) (hs : s.strategy = .sharedMemory) (he : s.entry o.res = some e) :
    load s oi = ((s.register oi).setObj oi { o with cell := e.cell }, none) := by
  have hens : ensureEntry s oi o = (s.register oi, none) := by
    unfold ensureEntry; simp [he]
  have hent : (s.register oi).entry o.res = some e := by
    unfold State.register; split <;> exact he
  unfold load
  simp only [ho, hb, if_true, hs, hens, hent]

theorem entry_saveMem (s0 : State) (o : Obj) :
    ∃ e, (saveMem s0 o).entry o.res = some e ∧ e.cell = o.cell ∧ e.modified = true := by
  unfold saveMem
  cases he : s0.entry o.res with
  | some e0 =>
    simp only
    exact ⟨{ e0 with modified := true, cell := o.cell }, by
      cases e0.modified <;> exact entry_setEntry _ _ _, rfl, rfl⟩
  | none =>
    simp only
    refine ⟨⟨.leaf .null, .leaf .null, s0.stat o.res, o.cell, true⟩, ?_, rfl, rfl⟩
    unfold initEntryMem
    exact entry_setEntry _ _ _

theorem fields_saveMem (s0 : State) (o : Obj) :
    (saveMem s0 o).objs = s0.objs ∧ (saveMem s0 o).ctx = s0.ctx ∧ (saveMem s0 o).strategy = s0.strategy ∧
    (saveMem s0 o).cells = s0.cells ∧ (saveMem s0 o).stores = s0.stores := by
  unfold saveMem
  split
  · rename_i e _
    cases e.modified <;> exact ⟨rfl, rfl, rfl, rfl, rfl⟩
  · exact ⟨rfl, rfl, rfl, rfl, rfl⟩

/-- READ-YOUR-WRITES across objects, shared-memory strategy: after a buffered save through `oi`
(no overflow) nothing is written, and a buffered load through ANY object `oj` on the file makes
`oj` address the very container `oi` saved — with the content `oi` had, untouched. -/
theorem memory_write_visible (s : State) (oi oj : Nat) (o oJ : Obj)
    (hs : s.strategy = .sharedMemory)
    (ho : s.objs[oi]? = some o) (hb : s.isBuffered o = true)
    (hoj : s.objs[oj]? = some oJ) (hbj : s.isBuffered oJ = true) (hres : oJ.res = o.res)
    (hfit : ¬ (saveMem (s.register oi) o).size > (saveMem (s.register oi) o).capacity) :
    (save s oi).2 = none ∧ (save s oi).1.stores = s.stores ∧
    (load (save s oi).1 oj).2 = none ∧
    ∃ oJ', (load (save s oi).1 oj).1.objs[oj]? = some oJ' ∧ oJ'.cell = o.cell ∧
      (load (save s oi).1 oj).1.root oJ' = s.root o := by
  have hreg := register_fields s oi
  have hsv : save s oi = (saveMem (s.register oi) o, none) := by
    rw [save_eq]
    simp only [ho, hb, if_true, hreg.2.2.1, hs]
    unfold overflow
    rw [if_neg hfit]
  have hf := fields_saveMem (s.register oi) o
  obtain ⟨e, he, hcell, _⟩ := entry_saveMem (s.register oi) o
  have hstores : (saveMem (s.register oi) o).stores = s.stores := by
    rw [hf.2.2.2.2]; unfold State.register; split <;> rfl
  have hoj1 : (saveMem (s.register oi) o).objs[oj]? = some oJ := by rw [hf.1, hreg.1]; exact hoj
  have hload := load_mem_eq (saveMem (s.register oi) o) oj oJ e hoj1
    (by simpa [State.isBuffered, hf.2.1, hreg.2.1] using hbj)
    (by rw [hf.2.2.1, hreg.2.2.1]; exact hs) (by rw [hres]; exact he)
  rw [hsv]
  refine ⟨rfl, hstores, by rw [hload], ?_⟩
  rw [hload]
  have hlt : oj < s.objs.length := (List.getElem?_eq_some_iff.mp hoj).1
  have h2 := register_fields (saveMem (s.register oi) o) oj
  refine ⟨{ oJ with cell := e.cell }, ?_, hcell, ?_⟩
  · show (((saveMem (s.register oi) o).register oj).objs.set oj _)[oj]? = _
    apply List.getElem?_set_self
    rw [h2.1, hf.1, hreg.1]; exact hlt
  · show State.cellData _ e.cell = State.cellData s o.cell
    unfold State.cellData
    have hc : (((saveMem (s.register oi) o).register oj).setObj oj { oJ with cell := e.cell }, (none : Option Err)).1.cells
        = s.cells := by
      show ((saveMem (s.register oi) o).register oj).cells = s.cells
      rw [h2.2.2.2.1, hf.2.2.2.1, hreg.2.2.2.1]
    rw [hc, hcell]


/-! ### recorded metadata (C07) -/

/-- A forced shared-memory flush keeps the entry; it changes the entry's recorded metadata ONLY when
it has just written the file with the buffered data, and then to the metadata of exactly that
write.  (The defect fixed in e2e2336 refreshed it also for entries it had not written, adopting an
outside writer's file state.) -/
theorem forced_flush_refreshes_only_what_it_wrote (s : State) (oi : Nat) (o : Obj) (e : Entry)
    (he : s.entry o.res = some e) :
    ∃ e', (flushMem s oi o true).1.entry o.res = some e' ∧ e'.modified = false ∧
      (e'.fmeta = e.fmeta ∨
       ((flushMem s oi o true).2 = none ∧
        (flushMem s oi o true).1.store o.res = some (s.cellData e.cell).toBase ∧
        e'.fmeta = (flushMem s oi o true).1.stat o.res)) := by
  unfold flushMem
  simp only [Bool.or_true, if_true, he]
  cases hm : e.modified
  · simp only [Bool.false_eq_true, if_false, Bool.not_true]
    exact ⟨_, entry_setEntry _ _ _, rfl, Or.inl rfl⟩
  · simp only [if_true, Bool.not_true, Bool.false_eq_true, if_false]
    split
    · exact ⟨_, entry_setEntry _ _ _, rfl, Or.inl rfl⟩
    · cases hts : trySave (s.setObj oi { o with cell := e.cell }) { o with cell := e.cell } with
      | mk s1 werr =>
        cases werr with
        | some er => exact ⟨_, entry_setEntry _ _ _, rfl, Or.inl rfl⟩
        | none =>
          simp only
          refine ⟨_, entry_setEntry _ _ _, rfl, Or.inr ⟨trivial, ?_, ?_⟩⟩
          · -- the write happened: s1 is the state after writeFile
            have hs1 : s1 = saveToResource (s.setObj oi { o with cell := e.cell }) { o with cell := e.cell } := by
              unfold trySave at hts
              split at hts
              · simp at hts
              · simp only [Prod.mk.injEq, and_true] at hts; exact hts.symm
            subst hs1
            simp [State.store, saveToResource, State.writeFile, State.setEntry, State.root, State.setObj, State.cellData]
          · simp [State.stat, State.setEntry]

/-- a serialized buffered save into an existing entry never touches the metadata recorded when the
file entered the buffer -/
theorem saveSer_keeps_metadata (s0 : State) (o : Obj) (e : Entry) (he : s0.entry o.res = some e) :
    ∃ e', (saveSer s0 o).entry o.res = some e' ∧ e'.fmeta = e.fmeta := by
  unfold saveSer
  simp only [he]
  exact ⟨_, entry_setEntry _ _ _, rfl⟩

end SC.B
