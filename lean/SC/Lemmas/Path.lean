/-
Paths versus identities.  The code addresses a nested collection through the Python object the
user holds (its identity); the properties speak about positions ("the child at a['x'][2]").  With
pairwise distinct identities in a tree the two coincide: the node found by identity is the node
at the path, and replacing by identity is replacing at the path.
-/
import SC.Lemmas.Attach
import SC.Lemmas.Natural
namespace SC
variable {ι : Type}

/-- replace the node at a path (a path that does not exist: no change) -/
def Tr.setSub : List Seg → Tr ι → Tr ι → Tr ι
  | [], _, new => new
  | .key k :: p, .dict i kvs, new =>
    match Tr.lookup k kvs with
    | some c => .dict i (Tr.setKey k (Tr.setSub p c new) kvs)
    | none => .dict i kvs
  | .idx j :: p, .list i xs, new =>
    match xs[j]? with
    | some c => .list i (xs.set j (Tr.setSub p c new))
    | none => .list i xs
  | _ :: _, t, _ => t

/-! ### identities below a position -/

theorem ids_of_lookup {k : Key} : ∀ {kvs : List (Key × T)} {x : T}, Tr.lookup k kvs = some x →
    ∀ i ∈ Tr.ids x, i ∈ Tr.idsKV kvs
  | [], _, h => by simp [Tr.lookup] at h
  | (k', v) :: kvs, x, h => by
    intro i hi
    simp only [Tr.lookup] at h
    simp only [Tr.idsKV, List.mem_append]
    split at h
    · simp only [Option.some.injEq] at h; subst h; exact Or.inl hi
    · exact Or.inr (ids_of_lookup h i hi)

theorem ids_of_get : ∀ {xs : List T} {j : Nat} {x : T}, xs[j]? = some x →
    ∀ i ∈ Tr.ids x, i ∈ Tr.idsL xs
  | [], j, _, h => by simp at h
  | y :: ys, 0, x, h => by
    intro i hi
    simp only [List.getElem?_cons_zero, Option.some.injEq] at h; subst h
    simp only [Tr.idsL, List.mem_append]; exact Or.inl hi
  | y :: ys, j + 1, x, h => by
    intro i hi
    simp only [List.getElem?_cons_succ] at h
    simp only [Tr.idsL, List.mem_append]; exact Or.inr (ids_of_get h i hi)

/-- the identity of the node at a path is one of the tree's identities -/
theorem id_mem_of_sub : ∀ (p : List Seg) (t c : T) (h : Nat), Tr.sub p t = some c → c.id? = some h →
    h ∈ Tr.ids t
  | [], t, c, h, hs, hi => by
    simp only [Tr.sub, Option.some.injEq] at hs; subst hs
    cases t <;> simp_all [Tr.id?, Tr.ids]
  | .key k :: p, t, c, h, hs, hi => by
    cases t with
    | leaf s => simp [Tr.sub] at hs
    | list i xs => simp [Tr.sub] at hs
    | dict i kvs =>
      simp only [Tr.sub] at hs
      cases hl : Tr.lookup k kvs with
      | none => simp [hl] at hs
      | some x =>
        simp only [hl, Option.bind_some] at hs
        simp only [Tr.ids, List.mem_cons]
        exact Or.inr (ids_of_lookup hl h (id_mem_of_sub p x c h hs hi))
  | .idx j :: p, t, c, h, hs, hi => by
    cases t with
    | leaf s => simp [Tr.sub] at hs
    | dict i kvs => simp [Tr.sub] at hs
    | list i xs =>
      simp only [Tr.sub] at hs
      cases hl : xs[j]? with
      | none => simp [hl] at hs
      | some x =>
        simp only [hl, Option.bind_some] at hs
        simp only [Tr.ids, List.mem_cons]
        exact Or.inr (ids_of_get hl h (id_mem_of_sub p x c h hs hi))

/-! ### an identity that does not occur -/

mutual
theorem find_none_of_not_mem (h : Nat) : ∀ (t : T), h ∉ Tr.ids t → Tr.find h t = none
  | .leaf _, _ => rfl
  | .list i xs, hn => by
    simp only [Tr.ids, List.mem_cons, not_or] at hn
    simp only [Tr.find]
    rw [if_neg (fun e => hn.1 e.symm)]
    exact findL_none_of_not_mem h xs hn.2
  | .dict i kvs, hn => by
    simp only [Tr.ids, List.mem_cons, not_or] at hn
    simp only [Tr.find]
    rw [if_neg (fun e => hn.1 e.symm)]
    exact findKV_none_of_not_mem h kvs hn.2
theorem findL_none_of_not_mem (h : Nat) : ∀ (xs : List T), h ∉ Tr.idsL xs → Tr.findL h xs = none
  | [], _ => rfl
  | x :: xs, hn => by
    simp only [Tr.idsL, List.mem_append, not_or] at hn
    simp only [Tr.findL, find_none_of_not_mem h x hn.1]
    exact findL_none_of_not_mem h xs hn.2
theorem findKV_none_of_not_mem (h : Nat) : ∀ (kvs : List (Key × T)), h ∉ Tr.idsKV kvs → Tr.findKV h kvs = none
  | [], _ => rfl
  | (k, v) :: kvs, hn => by
    simp only [Tr.idsKV, List.mem_append, not_or] at hn
    simp only [Tr.findKV, find_none_of_not_mem h v hn.1]
    exact findKV_none_of_not_mem h kvs hn.2
end

mutual
theorem replace_of_not_mem (h : Nat) (new : T) : ∀ (t : T), h ∉ Tr.ids t → Tr.replace h new t = t
  | .leaf _, _ => rfl
  | .list i xs, hn => by
    simp only [Tr.ids, List.mem_cons, not_or] at hn
    simp only [Tr.replace]
    rw [if_neg (fun e => hn.1 e.symm), replaceL_of_not_mem h new xs hn.2]
  | .dict i kvs, hn => by
    simp only [Tr.ids, List.mem_cons, not_or] at hn
    simp only [Tr.replace]
    rw [if_neg (fun e => hn.1 e.symm), replaceKV_of_not_mem h new kvs hn.2]
theorem replaceL_of_not_mem (h : Nat) (new : T) : ∀ (xs : List T), h ∉ Tr.idsL xs → Tr.replaceL h new xs = xs
  | [], _ => rfl
  | x :: xs, hn => by
    simp only [Tr.idsL, List.mem_append, not_or] at hn
    simp only [Tr.replaceL, replace_of_not_mem h new x hn.1, replaceL_of_not_mem h new xs hn.2]
theorem replaceKV_of_not_mem (h : Nat) (new : T) : ∀ (kvs : List (Key × T)), h ∉ Tr.idsKV kvs →
    Tr.replaceKV h new kvs = kvs
  | [], _ => rfl
  | (k, v) :: kvs, hn => by
    simp only [Tr.idsKV, List.mem_append, not_or] at hn
    simp only [Tr.replaceKV, replace_of_not_mem h new v hn.1, replaceKV_of_not_mem h new kvs hn.2]
end

/-! ### find / replace below one child, with distinct identities -/

theorem findKV_of_lookup {k : Key} {h : Nat} {c : T} : ∀ {kvs : List (Key × T)} {x : T},
    (Tr.idsKV kvs).Nodup → Tr.lookup k kvs = some x → h ∈ Tr.ids x → Tr.find h x = some c →
    Tr.findKV h kvs = some c
  | [], _, _, hl, _, _ => by simp [Tr.lookup] at hl
  | (k', v) :: kvs, x, hn, hl, hm, hf => by
    simp only [Tr.idsKV] at hn
    have hnd := List.nodup_append.mp hn
    simp only [Tr.lookup] at hl
    simp only [Tr.findKV]
    split at hl
    · simp only [Option.some.injEq] at hl; subst hl; simp only [hf]
    · have hx : h ∈ Tr.idsKV kvs := ids_of_lookup hl h hm
      have : h ∉ Tr.ids v := fun hv => hnd.2.2 h hv h hx rfl
      simp only [find_none_of_not_mem h v this]
      exact findKV_of_lookup hnd.2.1 hl hm hf

theorem findL_of_get {h : Nat} {c : T} : ∀ {xs : List T} {j : Nat} {x : T},
    (Tr.idsL xs).Nodup → xs[j]? = some x → h ∈ Tr.ids x → Tr.find h x = some c →
    Tr.findL h xs = some c
  | [], j, _, _, hl, _, _ => by simp at hl
  | y :: ys, 0, x, hn, hl, hm, hf => by
    simp only [List.getElem?_cons_zero, Option.some.injEq] at hl; subst hl
    simp only [Tr.findL, hf]
  | y :: ys, j + 1, x, hn, hl, hm, hf => by
    simp only [Tr.idsL] at hn
    have hnd := List.nodup_append.mp hn
    simp only [List.getElem?_cons_succ] at hl
    have hx : h ∈ Tr.idsL ys := ids_of_get hl h hm
    have : h ∉ Tr.ids y := fun hv => hnd.2.2 h hv h hx rfl
    simp only [Tr.findL, find_none_of_not_mem h y this]
    exact findL_of_get hnd.2.1 hl hm hf

theorem replaceKV_of_lookup {k : Key} {h : Nat} (new : T) : ∀ {kvs : List (Key × T)} {x : T},
    (Tr.idsKV kvs).Nodup → Tr.lookup k kvs = some x → h ∈ Tr.ids x →
    Tr.replaceKV h new kvs = Tr.setKey k (Tr.replace h new x) kvs
  | [], _, _, hl, _ => by simp [Tr.lookup] at hl
  | (k', v) :: kvs, x, hn, hl, hm => by
    simp only [Tr.idsKV] at hn
    have hnd := List.nodup_append.mp hn
    simp only [Tr.lookup] at hl
    simp only [Tr.replaceKV, Tr.setKey]
    split at hl
    · rename_i hk
      simp only [Option.some.injEq] at hl; subst hl
      have : h ∉ Tr.idsKV kvs := fun hv => hnd.2.2 h hm h hv rfl
      simp only [hk, if_true, replaceKV_of_not_mem h new kvs this]
    · rename_i hk
      have hx : h ∈ Tr.idsKV kvs := ids_of_lookup hl h hm
      have : h ∉ Tr.ids v := fun hv => hnd.2.2 h hv h hx rfl
      simp only [hk, if_false, replace_of_not_mem h new v this, replaceKV_of_lookup new hnd.2.1 hl hm]

theorem replaceL_of_get {h : Nat} (new : T) : ∀ {xs : List T} {j : Nat} {x : T},
    (Tr.idsL xs).Nodup → xs[j]? = some x → h ∈ Tr.ids x →
    Tr.replaceL h new xs = xs.set j (Tr.replace h new x)
  | [], j, _, _, hl, _ => by simp at hl
  | y :: ys, 0, x, hn, hl, hm => by
    simp only [Tr.idsL] at hn
    have hnd := List.nodup_append.mp hn
    simp only [List.getElem?_cons_zero, Option.some.injEq] at hl; subst hl
    have : h ∉ Tr.idsL ys := fun hv => hnd.2.2 h hm h hv rfl
    simp only [Tr.replaceL, List.set_cons_zero, replaceL_of_not_mem h new ys this]
  | y :: ys, j + 1, x, hn, hl, hm => by
    simp only [Tr.idsL] at hn
    have hnd := List.nodup_append.mp hn
    simp only [List.getElem?_cons_succ] at hl
    have hx : h ∈ Tr.idsL ys := ids_of_get hl h hm
    have : h ∉ Tr.ids y := fun hv => hnd.2.2 h hv h hx rfl
    simp only [Tr.replaceL, List.set_cons_succ, replace_of_not_mem h new y this,
      replaceL_of_get new hnd.2.1 hl hm]

/-- distinct identities are inherited by the children -/
theorem nodup_of_lookup {k : Key} : ∀ {kvs : List (Key × T)} {x : T}, (Tr.idsKV kvs).Nodup →
    Tr.lookup k kvs = some x → (Tr.ids x).Nodup
  | [], _, _, hl => by simp [Tr.lookup] at hl
  | (k', v) :: kvs, x, hn, hl => by
    simp only [Tr.idsKV] at hn
    have hnd := List.nodup_append.mp hn
    simp only [Tr.lookup] at hl
    split at hl
    · simp only [Option.some.injEq] at hl; subst hl; exact hnd.1
    · exact nodup_of_lookup hnd.2.1 hl

theorem nodup_of_get : ∀ {xs : List T} {j : Nat} {x : T}, (Tr.idsL xs).Nodup → xs[j]? = some x →
    (Tr.ids x).Nodup
  | [], j, _, _, hl => by simp at hl
  | y :: ys, 0, x, hn, hl => by
    simp only [Tr.idsL] at hn
    simp only [List.getElem?_cons_zero, Option.some.injEq] at hl; subst hl
    exact (List.nodup_append.mp hn).1
  | y :: ys, j + 1, x, hn, hl => by
    simp only [Tr.idsL] at hn
    simp only [List.getElem?_cons_succ] at hl
    exact nodup_of_get (List.nodup_append.mp hn).2.1 hl

/-! ### the two addressing schemes coincide -/

/-- with pairwise distinct identities, the node found BY IDENTITY is the node AT THE PATH -/
theorem find_of_sub : ∀ (p : List Seg) (t c : T) (h : Nat), (Tr.ids t).Nodup → Tr.sub p t = some c →
    c.id? = some h → Tr.find h t = some c
  | [], t, c, h, _, hs, hi => by
    simp only [Tr.sub, Option.some.injEq] at hs; subst hs
    cases t <;> simp_all [Tr.id?, Tr.find]
  | .key k :: p, t, c, h, hn, hs, hi => by
    cases t with
    | leaf s => simp [Tr.sub] at hs
    | list i xs => simp [Tr.sub] at hs
    | dict i kvs =>
      simp only [Tr.sub] at hs
      cases hl : Tr.lookup k kvs with
      | none => simp [hl] at hs
      | some x =>
        simp only [hl, Option.bind_some] at hs
        simp only [Tr.ids, List.nodup_cons] at hn
        have hm : h ∈ Tr.ids x := id_mem_of_sub p x c h hs hi
        have hne : ¬ i = h := fun e => hn.1 (e ▸ ids_of_lookup hl h hm)
        have hnx : (Tr.ids x).Nodup := nodup_of_lookup hn.2 hl
        simp only [Tr.find, if_neg hne]
        exact findKV_of_lookup hn.2 hl hm (find_of_sub p x c h hnx hs hi)
  | .idx j :: p, t, c, h, hn, hs, hi => by
    cases t with
    | leaf s => simp [Tr.sub] at hs
    | dict i kvs => simp [Tr.sub] at hs
    | list i xs =>
      simp only [Tr.sub] at hs
      cases hl : xs[j]? with
      | none => simp [hl] at hs
      | some x =>
        simp only [hl, Option.bind_some] at hs
        simp only [Tr.ids, List.nodup_cons] at hn
        have hm : h ∈ Tr.ids x := id_mem_of_sub p x c h hs hi
        have hne : ¬ i = h := fun e => hn.1 (e ▸ ids_of_get hl h hm)
        have hnx : (Tr.ids x).Nodup := nodup_of_get hn.2 hl
        simp only [Tr.find, if_neg hne]
        exact findL_of_get hn.2 hl hm (find_of_sub p x c h hnx hs hi)

/-- ... and replacing BY IDENTITY is replacing AT THE PATH -/
theorem replace_of_sub (new : T) : ∀ (p : List Seg) (t c : T) (h : Nat), (Tr.ids t).Nodup →
    Tr.sub p t = some c → c.id? = some h → Tr.replace h new t = Tr.setSub p t new
  | [], t, c, h, _, hs, hi => by
    simp only [Tr.sub, Option.some.injEq] at hs; subst hs
    cases t <;> simp_all [Tr.id?, Tr.replace, Tr.setSub]
  | .key k :: p, t, c, h, hn, hs, hi => by
    cases t with
    | leaf s => simp [Tr.sub] at hs
    | list i xs => simp [Tr.sub] at hs
    | dict i kvs =>
      simp only [Tr.sub] at hs
      cases hl : Tr.lookup k kvs with
      | none => simp [hl] at hs
      | some x =>
        simp only [hl, Option.bind_some] at hs
        simp only [Tr.ids, List.nodup_cons] at hn
        have hm : h ∈ Tr.ids x := id_mem_of_sub p x c h hs hi
        have hne : ¬ i = h := fun e => hn.1 (e ▸ ids_of_lookup hl h hm)
        simp only [Tr.replace, if_neg hne, Tr.setSub, hl]
        rw [replaceKV_of_lookup new hn.2 hl hm, replace_of_sub new p x c h (nodup_of_lookup hn.2 hl) hs hi]
  | .idx j :: p, t, c, h, hn, hs, hi => by
    cases t with
    | leaf s => simp [Tr.sub] at hs
    | dict i kvs => simp [Tr.sub] at hs
    | list i xs =>
      simp only [Tr.sub] at hs
      cases hl : xs[j]? with
      | none => simp [hl] at hs
      | some x =>
        simp only [hl, Option.bind_some] at hs
        simp only [Tr.ids, List.nodup_cons] at hn
        have hm : h ∈ Tr.ids x := id_mem_of_sub p x c h hs hi
        have hne : ¬ i = h := fun e => hn.1 (e ▸ ids_of_get hl h hm)
        simp only [Tr.replace, if_neg hne, Tr.setSub, hl]
        rw [replaceL_of_get new hn.2 hl hm, replace_of_sub new p x c h (nodup_of_get hn.2 hl) hs hi]

/-! ### what replacing at a path does to the content -/

/-- the replaced position holds the new node -/
theorem sub_setSub_same : ∀ (p : List Seg) (t c new : Tr ι), Tr.sub p t = some c →
    Tr.sub p (Tr.setSub p t new) = some new
  | [], _, _, _, _ => rfl
  | .key k :: p, t, c, new, hs => by
    cases t with
    | leaf s => simp [Tr.sub] at hs
    | list i xs => simp [Tr.sub] at hs
    | dict i kvs =>
      simp only [Tr.sub] at hs
      cases hl : Tr.lookup k kvs with
      | none => simp [hl] at hs
      | some x =>
        simp only [hl, Option.bind_some] at hs
        simp only [Tr.setSub, hl, Tr.sub, lookup_setKey_same, Option.bind_some]
        exact sub_setSub_same p x c new hs
  | .idx j :: p, t, c, new, hs => by
    cases t with
    | leaf s => simp [Tr.sub] at hs
    | dict i kvs => simp [Tr.sub] at hs
    | list i xs =>
      simp only [Tr.sub] at hs
      cases hl : xs[j]? with
      | none => simp [hl] at hs
      | some x =>
        simp only [hl, Option.bind_some] at hs
        have hlt : j < xs.length := (List.getElem?_eq_some_iff.mp hl).1
        simp only [Tr.setSub, hl, Tr.sub, List.getElem?_set_self hlt, Option.bind_some]
        exact sub_setSub_same p x c new hs

theorem mapL_set {κ : Type} (f : ι → κ) : ∀ (xs : List (Tr ι)) (j : Nat) (v : Tr ι),
    Tr.mapL f (xs.set j v) = (Tr.mapL f xs).set j (v.map f)
  | [], _, _ => rfl
  | x :: xs, 0, v => by simp [Tr.mapL]
  | x :: xs, j + 1, v => by simp [Tr.mapL, mapL_set f xs j v]

theorem getElem?_mapL {κ : Type} (f : ι → κ) : ∀ (xs : List (Tr ι)) (j : Nat),
    (Tr.mapL f xs)[j]? = (xs[j]?).map (Tr.map f)
  | [], _ => by simp [Tr.mapL]
  | x :: xs, 0 => by simp [Tr.mapL]
  | x :: xs, j + 1 => by simp [Tr.mapL, getElem?_mapL f xs j]

/-- forgetting identities commutes with replacing at a path: the CONTENT after the replacement is
the old content with the content of the new node at that path, everything else as it was -/
theorem toBase_setSub : ∀ (p : List Seg) (t new : Tr ι),
    (Tr.setSub p t new).toBase = Tr.setSub p t.toBase new.toBase
  | [], _, _ => rfl
  | .key k :: p, t, new => by
    cases t with
    | leaf s => rfl
    | list i xs => rfl
    | dict i kvs =>
      simp only [Tr.setSub, Tr.toBase, Tr.map, lookup_mapKV]
      cases hl : Tr.lookup k kvs with
      | none => simp [Tr.map]
      | some x =>
        simp only [Option.map_some, Tr.map]
        have := toBase_setSub p x new
        simp only [Tr.toBase] at this
        rw [← this, setKey_mapKV]
  | .idx j :: p, t, new => by
    cases t with
    | leaf s => rfl
    | dict i kvs => rfl
    | list i xs =>
      simp only [Tr.setSub, Tr.toBase, Tr.map, getElem?_mapL]
      cases hl : xs[j]? with
      | none => simp [Tr.map]
      | some x =>
        simp only [Option.map_some, Tr.map, mapL_set]
        have := toBase_setSub p x new
        simp only [Tr.toBase] at this
        rw [← this]

theorem sub_map {κ : Type} (f : ι → κ) : ∀ (p : List Seg) (t : Tr ι),
    Tr.sub p (t.map f) = (Tr.sub p t).map (Tr.map f)
  | [], _ => rfl
  | .key k :: p, t => by
    cases t with
    | leaf s => rfl
    | list i xs => rfl
    | dict i kvs =>
      simp only [Tr.map, Tr.sub, lookup_mapKV]
      cases Tr.lookup k kvs with
      | none => rfl
      | some x => simp only [Option.map_some, Option.bind_some]; exact sub_map f p x
  | .idx j :: p, t => by
    cases t with
    | leaf s => rfl
    | dict i kvs => rfl
    | list i xs =>
      simp only [Tr.map, Tr.sub, getElem?_mapL]
      cases xs[j]? with
      | none => rfl
      | some x => simp only [Option.map_some, Option.bind_some]; exact sub_map f p x

end SC
