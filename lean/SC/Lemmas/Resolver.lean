import SC.Resolver
namespace SC.Resolver

/-- the predicates give the same answer for all values of a type, for every type that can be
cached (is not blocked) -/
def TypeDetermined (r : Res) : Prop :=
  ∀ o1 o2 : Obj, o1.ty = o2.ty → blocked r o1 = false → classify r.preds o1 = classify r.preds o2

/-- every cached entry is what classification gives for every value of that type -/
def CacheOK (r : Res) : Prop :=
  ∀ ty c, lookup ty r.cache = some c → ∀ o : Obj, o.ty = ty → classify r.preds o = c

theorem lookup_cons (ty ty' : Nat) (c : Option Nat) (cache : List (Nat × Option Nat)) :
    lookup ty ((ty', c) :: cache) = if ty' = ty then some c else lookup ty cache := by
  simp only [lookup, List.find?_cons]
  by_cases h : ty' = ty <;> simp [h]

theorem getType_static (r : Res) (o : Obj) :
    (getType r o).1.preds = r.preds ∧ (getType r o).1.blocklist = r.blocklist ∧ (getType r o).1.mode = r.mode := by
  unfold getType
  split
  · exact ⟨rfl, rfl, rfl⟩
  · simp only; split <;> exact ⟨rfl, rfl, rfl⟩

/-- one call: the answer is the cache-free classification, and the cache stays correct -/
theorem getType_correct (r : Res) (o : Obj) (htd : TypeDetermined r) (hc : CacheOK r) :
    (getType r o).2 = classify r.preds o ∧ CacheOK (getType r o).1 ∧ TypeDetermined (getType r o).1 := by
  unfold getType
  cases hl : lookup o.ty r.cache with
  | some c =>
    simp only
    exact ⟨(hc o.ty c hl o rfl).symm, hc, htd⟩
  | none =>
    refine ⟨rfl, ?_, ?_⟩
    · cases hb : blocked r o with
      | true => simp only [if_true]; exact hc
      | false =>
        simp only [Bool.false_eq_true, if_false]
        intro ty c hlk o' ho'
        rw [lookup_cons] at hlk
        by_cases hty : o.ty = ty
        · simp only [hty, if_true, Option.some.injEq] at hlk
          subst hlk
          have := htd o o' (by rw [ho', hty]) hb
          exact this.symm
        · simp only [hty, if_false] at hlk
          exact hc ty c hlk o' ho'
    · cases hb : blocked r o with
      | true => simp only [if_true]; exact htd
      | false =>
        simp only [Bool.false_eq_true, if_false]
        intro o1 o2 h12 hb1
        exact htd o1 o2 h12 (by simpa [blocked] using hb1)

/-- HISTORY INDEPENDENCE: after ANY history of calls, every answer is the cache-free
classification of that value -/
theorem runHistory_correct (os : List Obj) :
    ∀ (r : Res), TypeDetermined r → CacheOK r →
      (runHistory r os).2 = os.map (classify r.preds) ∧ CacheOK (runHistory r os).1 ∧
      TypeDetermined (runHistory r os).1 ∧ (runHistory r os).1.preds = r.preds := by
  induction os with
  | nil => intro r htd hc; exact ⟨rfl, hc, htd, rfl⟩
  | cons o rest ih =>
    intro r htd hc
    have h1 := getType_correct r o htd hc
    have hs := getType_static r o
    have h2 := ih (getType r o).1 h1.2.2 h1.2.1
    simp only [runHistory, List.map_cons]
    refine ⟨?_, h2.2.1, h2.2.2.1, h2.2.2.2.trans hs.1⟩
    rw [h1.1, h2.1, hs.1]

end SC.Resolver

namespace SC.Resolver

/-- if every predicate gives the same answer on all values of a type that can be cached, the
resolver is type-determined -/
theorem typeDetermined_of_preds (r : Res)
    (h : ∀ p ∈ r.preds, ∀ o1 o2 : Obj, o1.ty = o2.ty → blocked r o1 = false → p.2 o1 = p.2 o2) :
    TypeDetermined r := by
  intro o1 o2 hty hb
  unfold classify
  congr 1
  have : ∀ ps : List (Nat × (Obj → Bool)), (∀ p ∈ ps, p ∈ r.preds) →
      ps.find? (fun p => p.2 o1) = ps.find? (fun p => p.2 o2) := by
    intro ps
    induction ps with
    | nil => intro _; rfl
    | cons p ps ih =>
      intro hsub
      have hp := h p (hsub p List.mem_cons_self) o1 o2 hty hb
      simp only [List.find?_cons, hp]
      split
      · rfl
      · exact ih (fun q hq => hsub q (List.mem_cons_of_mem _ hq))
  exact this r.preds (fun p hp => hp)

end SC.Resolver
