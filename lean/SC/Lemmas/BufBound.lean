/-
C15 — boundedness and zero-outside, part 2: the invariants along every step.
-/
import SC.Lemmas.BufHeld
namespace SC.B
open SC

theorem Mono.of_frame' {s s' : State} (hf : Frame s s') : Mono s s' :=
  Mono.of_frame hf (fun x hx => hf.reg ▸ hx)

theorem Held.of_frame {s s' : State} (hf : Frame s s') (h : Held s) : Held s' :=
  Held.of_mono hf.sub (Mono.of_frame' hf) h

/-! ### the flush of the whole buffer, seen from outside -/

/-- the loop's result, named -/
theorem flushBuffer_shape (s : State) (force : Bool) :
    ∃ s1 remaining issues,
      flushBufferLoop force (s.strategy == .sharedMemory) s.registry.reverse { s with registry := [] } [] []
        = (s1, remaining, issues) ∧
      (flushBuffer s force).1 =
        { s1 with registry := remaining ++ s1.registry.filter (fun x => !remaining.contains x) } := by
  unfold flushBuffer
  simp only
  cases hl : flushBufferLoop force (s.strategy == .sharedMemory) s.registry.reverse
      { s with registry := [] } [] [] with
  | mk s1 rest =>
    obtain ⟨remaining, issues⟩ := rest
    refine ⟨s1, remaining, issues, rfl, ?_⟩
    simp only
    split <;> rfl

theorem measure_zero (st : Buffering) (fl : List ((Int × Nat) × Nat)) :
    ∀ es : List (Nat × Entry), (∀ p ∈ es, weight st fl p.2 = 0) → measure st fl es = 0
  | [], _ => rfl
  | p :: ps, h => by
    simp only [measure]
    rw [h p (List.mem_cons_self ..), measure_zero st fl ps (fun q hq => h q (List.mem_cons_of_mem _ hq))]

/-- C15: after a forced flush of the buffer the size is 0 — every buffered file has a registered
object, a forced flush flushes every registered object, and that removes the file from the buffer
(serialized) or leaves its buffered copy unmodified (shared memory) -/
theorem forced_flush_zero (s : State) (hst : s.strategy ≠ .none) (hw : WHeld s)
    (hso : SizeOK (flushBuffer s true).1) :
    (flushBuffer s true).1.size = 0 := by
  obtain ⟨s1, remaining, issues, hloop, hres⟩ := flushBuffer_shape s true
  have hst0 : ({ s with registry := [] } : State).strategy ≠ .none := hst
  have hl := flushBufferLoop_facts true (s.strategy == .sharedMemory) s.registry.reverse
    { s with registry := [] } [] [] hst0
  simp only at hl
  rw [hloop] at hl
  obtain ⟨f, _, facts, _⟩ := hl
  have hk := (keeps_flushBuffer s true)
  rw [hso.2, hk.1, hk.2.1]
  apply measure_zero
  intro p hp
  rw [hres] at hp
  have hp1 : p ∈ s1.entries := hp
  obtain ⟨e0, he0⟩ := f.sub p hp1
  obtain ⟨h, hreg, o, ho, hr⟩ := hw (p.1, e0) he0
  have hord : h ∈ s.registry.reverse := List.mem_reverse.mpr hreg
  have hdue : due { s with registry := [] } o true = true := by simp [due]
  have := facts h hord o ho hdue
  rcases strategy_cases hst with h1 | h1
  · exact absurd (hr ▸ rfl) ((this.1 (Or.inl h1)) p hp1)
  · have hm := this.2 h1 trivial p hp1 hr.symm
    simp [weight, h1, hm]

/-! ### sizes never grow in a flush -/

/-- the `finally` clause of the shared-memory flush never grows the size -/
theorem fin_le (m force : Bool) (s' : State) (r : Nat) (e' : Entry) :
    (if (!force) = true then (if m = true then { s' with size := s'.size - 1 } else s').delEntry r
      else (if m = true then { s' with size := s'.size - 1 } else s').setEntry r { e' with modified := false }).size ≤ s'.size ∧
    (if (!force) = true then (if m = true then { s' with size := s'.size - 1 } else s').delEntry r
      else (if m = true then { s' with size := s'.size - 1 } else s').setEntry r { e' with modified := false }).capacity = s'.capacity := by
  cases m <;> cases force <;> simp [State.delEntry, State.setEntry]

theorem size_le_flushOne (s : State) (oi : Nat) (force : Bool) :
    (flushOne s oi force).1.size ≤ s.size ∧ (flushOne s oi force).1.capacity = s.capacity := by
  unfold flushOne
  split
  · exact ⟨Nat.le_refl _, rfl⟩
  · rename_i o _
    have hmi : ∀ d, (mergeInto s oi o d).1.size = s.size ∧ (mergeInto s oi o d).1.capacity = s.capacity := by
      intro d
      have := core_eq (mergeInto_core s oi o d)
      exact ⟨this.2.2.2.2.1, this.2.2.2.2.2.1⟩
    split
    · unfold flushSer
      split
      · split
        · exact ⟨Nat.le_refl _, rfl⟩
        · simp only
          split
          · split
            · exact ⟨Nat.sub_le _ _, rfl⟩
            · rename_i e _ _ _
              cases hm : mergeInto s oi o e.contents with
              | mk s1 err =>
                have := hmi e.contents
                rw [hm] at this
                cases err with
                | some er => exact ⟨by show s1.size - _ ≤ _; rw [this.1]; exact Nat.sub_le _ _, this.2⟩
                | none =>
                  simp only
                  have ht := sameBook_trySave s1 o
                  have hc := sameCap_trySave s1 o
                  exact ⟨by show (trySave s1 o).1.size - _ ≤ _; rw [ht.2.1, this.1]; exact Nat.sub_le _ _,
                    hc.1.trans this.2⟩
          · exact ⟨Nat.sub_le _ _, rfl⟩
      · exact ⟨Nat.le_refl _, rfl⟩
    · unfold flushMem
      split
      · split
        · split
          · split
            · exact ⟨Nat.le_refl _, rfl⟩
            · exact ⟨Nat.le_of_eq (hmi _).1, (hmi _).2⟩
          · exact ⟨Nat.le_refl _, rfl⟩
        · rename_i e _
          have ht := sameBook_trySave (s.setObj oi { o with cell := e.cell }) { o with cell := e.cell }
          have hc := sameCap_trySave (s.setObj oi { o with cell := e.cell }) { o with cell := e.cell }
          cases hts : trySave (s.setObj oi { o with cell := e.cell }) { o with cell := e.cell } with
          | mk s1 werr =>
            rw [hts] at ht hc
            have h1 : s1.size = s.size := ht.2.1
            have h2 : s1.capacity = s.capacity := hc.1
            cases hm : e.modified <;> cases force <;> cases werr <;>
              simp only [hm, hts, Bool.false_eq_true, if_false, if_true, Bool.not_false, Bool.not_true] <;>
              (try split) <;> simp [State.delEntry, State.setEntry, h1, h2]
      · exact ⟨Nat.le_refl _, rfl⟩
    · exact ⟨Nat.le_refl _, rfl⟩

theorem size_le_flushBufferLoop (force retain : Bool) (order : List Nat) :
    ∀ (s : State) (remaining issues : List Nat),
      (flushBufferLoop force retain order s remaining issues).1.size ≤ s.size ∧
      (flushBufferLoop force retain order s remaining issues).1.capacity = s.capacity := by
  induction order with
  | nil => intro s _ _; exact ⟨Nat.le_refl _, rfl⟩
  | cons oi rest ih =>
    intro s remaining issues
    unfold flushBufferLoop
    split
    · exact ih s remaining issues
    · split
      · exact ih s _ issues
      · simp only
        cases hf : flushOne s oi force with
        | mk s1 err =>
          have h1 := size_le_flushOne s oi force
          rw [hf] at h1
          simp only
          split <;> exact ⟨Nat.le_trans (ih s1 _ _).1 h1.1, (ih s1 _ _).2.trans h1.2⟩

theorem size_le_flushBuffer (s : State) (force : Bool) :
    (flushBuffer s force).1.size ≤ s.size ∧ (flushBuffer s force).1.capacity = s.capacity := by
  obtain ⟨s1, remaining, issues, hloop, hres⟩ := flushBuffer_shape s force
  have := size_le_flushBufferLoop force (s.strategy == .sharedMemory) s.registry.reverse
    { s with registry := [] } [] []
  rw [hloop] at this
  rw [hres]
  exact this


/-! ### entries are only added for the file of a buffered, registered object -/

/-- `s'` has the context counter, the objects' files and `buffered` counters of `s`; registered
objects stay registered; an entry of `s'` is for a file `s` had an entry for, or for file `r` -/
structure Grow (r : Nat) (s s' : State) : Prop where
  ctx : s'.ctx = s.ctx
  objs : s'.objs.map (fun o => (o.res, o.buffered)) = s.objs.map (fun o => (o.res, o.buffered))
  reg : ∀ x ∈ s.registry, x ∈ s'.registry
  ent : ∀ p ∈ s'.entries, (∃ e0, (p.1, e0) ∈ s.entries) ∨ p.1 = r
  strat : s'.strategy = s.strategy

theorem Grow.refl (r : Nat) (s : State) : Grow r s s :=
  ⟨rfl, rfl, fun _ h => h, fun p hp => Or.inl ⟨p.2, hp⟩, rfl⟩

theorem Grow.trans {r : Nat} {a b c : State} (h1 : Grow r a b) (h2 : Grow r b c) : Grow r a c :=
  ⟨h2.ctx.trans h1.ctx, h2.objs.trans h1.objs, fun x hx => h2.reg x (h1.reg x hx),
   fun p hp => by
    rcases h2.ent p hp with ⟨e0, he0⟩ | h
    · exact h1.ent (p.1, e0) he0
    · exact Or.inr h,
   h2.strat.trans h1.strat⟩

theorem Grow.of_frame {r : Nat} {s s' : State} (hf : Frame s s') : Grow r s s' :=
  ⟨hf.ctx, hf.objs, fun x hx => hf.reg ▸ hx, fun p hp => Or.inl (hf.sub p hp), hf.strat⟩

theorem Grow.obj {r : Nat} {s s' : State} (hg : Grow r s s') {oi : Nat} {o : Obj} (ho : s.objs[oi]? = some o) :
    ∃ o', s'.objs[oi]? = some o' ∧ o'.res = o.res ∧ o'.buffered = o.buffered ∧
      s'.isBuffered o' = s.isBuffered o := by
  have hm := congrArg (fun l => l[oi]?) hg.objs
  simp only [List.getElem?_map, ho, Option.map_some] at hm
  cases hs : s'.objs[oi]? with
  | none => simp [hs] at hm
  | some o' =>
    simp only [hs, Option.map_some, Option.some.injEq, Prod.mk.injEq] at hm
    exact ⟨o', rfl, hm.1, hm.2, isBuffered_eq hg.ctx hm.2⟩

theorem Grow.mono {r : Nat} {s s' : State} (hg : Grow r s s') : Mono s s' :=
  ⟨hg.reg, fun _ o ho => by
    obtain ⟨o', ho', hr, _, hib⟩ := hg.obj ho
    exact ⟨o', ho', hr, fun h => by rw [hib]; exact h⟩⟩

/-- the invariant survives when the only new entries are for the file of a buffered object that
is registered afterwards -/
theorem Held.of_grow {r : Nat} {s s' : State} (hg : Grow r s s') {oi : Nat} {o : Obj}
    (hoi : oi ∈ s'.registry) (ho : s.objs[oi]? = some o) (hr : o.res = r) (hb : s.isBuffered o = true)
    (h : Held s) : Held s' := by
  intro p hp
  rcases hg.ent p hp with ⟨e0, he0⟩ | hpr
  · exact holder_mono hg.mono (h (p.1, e0) he0)
  · obtain ⟨o', ho', hr', _, hib⟩ := hg.obj ho
    exact ⟨oi, hoi, o', ho', by rw [hpr, hr', hr], by rw [hib]; exact hb⟩

theorem mem_register (s : State) (oi : Nat) : oi ∈ (s.register oi).registry := by
  unfold State.register
  split
  · rename_i h; simpa using h
  · simp

theorem grow_register (r : Nat) (s : State) (oi : Nat) : Grow r s (s.register oi) := by
  unfold State.register
  split
  · exact Grow.refl r s
  · exact ⟨rfl, rfl, fun x hx => List.mem_append_left _ hx, fun p hp => Or.inl ⟨p.2, hp⟩, rfl⟩

/-- replacing or adding the entry of file `r` (and adjusting the size) -/
theorem grow_setEntry (s X : State) (r : Nat) (e : Entry) (h1 : X.entries = (s.setEntry r e).entries)
    (h2 : X.ctx = s.ctx) (h3 : X.objs = s.objs) (h4 : X.registry = s.registry) (h5 : X.strategy = s.strategy) :
    Grow r s X :=
  ⟨h2, by rw [h3], fun x hx => h4 ▸ hx, fun p hp => by
    rw [h1] at hp
    rcases mem_setEntry_key hp with h | h
    · exact Or.inr h
    · exact Or.inl ⟨p.2, h⟩, h5⟩

/-! ### the capacity check after a buffer insert -/

/-- `if size > capacity: _flush_buffer(force=True)` -/
def overflow (s : State) : State × Option Err :=
  if s.size > s.capacity then flushBuffer s true else (s, none)

theorem held_overflow (s : State) (hst : s.strategy ≠ .none) (h : Held s) : Held (overflow s).1 := by
  unfold overflow
  split
  · exact flushBuffer_held s true hst h.weak (fun _ _ => h)
  · exact h

/-- after the check the size is within the capacity -/
theorem bounded_overflow (s : State) (hst : s.strategy ≠ .none) (h : Held s) (hso : SizeOK (overflow s).1) :
    (overflow s).1.size ≤ (overflow s).1.capacity := by
  unfold overflow at hso ⊢
  split
  · rename_i hover
    rw [if_pos hover] at hso
    rw [forced_flush_zero s hst h.weak hso]
    exact Nat.zero_le _
  · rename_i hover
    exact Nat.le_of_not_gt hover


/-! ### `save` and `load`, decomposed -/

/-- the buffer insert of a serialized save (on the state in which the object is registered) -/
def saveSer (s0 : State) (o : Obj) : State :=
  match s0.entry o.res with
  | some e =>
    let blob := (s0.root o).toBase
    let s' := s0.setEntry o.res { e with contents := blob, hash := if e.fmeta.isNone then .leaf .null else e.hash }
    { s' with size := s'.size + encLen s0.flen blob - encLen s0.flen e.contents }
  | none =>
    let s' := initEntrySer s0 o
    match s'.entry o.res with
    | some e => s'.setEntry o.res { e with hash := (loadFromResource s' o).getD (.leaf .null) }
    | none => s'

/-- the buffer insert of a shared-memory save -/
def saveMem (s0 : State) (o : Obj) : State :=
  match s0.entry o.res with
  | some e =>
    let s' := if e.modified then s0 else { s0 with size := s0.size + 1 }
    s'.setEntry o.res { e with modified := true, cell := o.cell }
  | none => { (initEntryMem s0 o true) with size := s0.size + 1 }

theorem save_eq (s : State) (oi : Nat) :
    save s oi =
      match s.objs[oi]? with
      | none => (s, none)
      | some o =>
        if s.isBuffered o then
          match (s.register oi).strategy with
          | .serialized => overflow (saveSer (s.register oi) o)
          | .sharedMemory => overflow (saveMem (s.register oi) o)
          | .none => (s.register oi, none)
        else trySave s o := by
  unfold save overflow saveSer saveMem
  rfl


theorem grow_initEntrySer (s : State) (o : Obj) : Grow o.res s (initEntrySer s o) := by
  unfold initEntrySer
  exact grow_setEntry s _ o.res _ rfl rfl rfl rfl rfl

theorem grow_initEntryMem (s : State) (o : Obj) (m : Bool) : Grow o.res s (initEntryMem s o m) := by
  unfold initEntryMem
  exact grow_setEntry s _ o.res _ rfl rfl rfl rfl rfl

theorem grow_saveSer (s0 : State) (o : Obj) : Grow o.res s0 (saveSer s0 o) := by
  unfold saveSer
  split
  · exact grow_setEntry s0 _ o.res _ rfl rfl rfl rfl rfl
  · simp only
    split
    · exact (grow_initEntrySer s0 o).trans (grow_setEntry _ _ o.res _ rfl rfl rfl rfl rfl)
    · exact grow_initEntrySer s0 o

theorem grow_saveMem (s0 : State) (o : Obj) : Grow o.res s0 (saveMem s0 o) := by
  unfold saveMem
  split
  · rename_i e _
    cases e.modified
    · exact grow_setEntry s0 _ o.res _ rfl rfl rfl rfl rfl
    · exact grow_setEntry s0 _ o.res _ rfl rfl rfl rfl rfl
  · exact (grow_initEntryMem s0 o true).trans (Grow.of_frame (Frame.of_eq rfl rfl rfl rfl rfl))

/-- the state a buffered save checks the capacity on: invariant holds -/
theorem held_saveBuf (s : State) (oi : Nat) (o : Obj) (ho : s.objs[oi]? = some o) (hb : s.isBuffered o = true)
    (h : Held s) (X : State) (hg : Grow o.res (s.register oi) X) : Held X := by
  have hg' : Grow o.res s X := (grow_register o.res s oi).trans hg
  exact Held.of_grow hg' (hg.reg oi (mem_register s oi)) ho rfl hb h

theorem strat_register (s : State) (oi : Nat) : (s.register oi).strategy = s.strategy :=
  (grow_register 0 s oi).strat

/-- C15: `_save` keeps "every buffered file has a buffered, registered holder" -/
theorem held_save (s : State) (oi : Nat) (hst : s.strategy ≠ .none) (h : Held s) : Held (save s oi).1 := by
  rw [save_eq]
  split
  · exact h
  · rename_i o ho
    split
    · rename_i hb
      split
      · rename_i hs
        have hX := held_saveBuf s oi o ho hb h _ (grow_saveSer (s.register oi) o)
        exact held_overflow _ (by rw [(grow_saveSer _ _).strat, strat_register]; exact hst) hX
      · rename_i hs
        have hX := held_saveBuf s oi o ho hb h _ (grow_saveMem (s.register oi) o)
        exact held_overflow _ (by rw [(grow_saveMem _ _).strat, strat_register]; exact hst) hX
      · exact held_saveBuf s oi o ho hb h _ (Grow.refl _ _)
    · exact Held.of_frame (frame_trySave s o).1 h

/-- C15: after `_save` the size is within the capacity -/
theorem bounded_save (s : State) (oi : Nat) (hst : s.strategy ≠ .none) (h : Held s) (hs : SizeOK s)
    (hbd : s.size ≤ s.capacity) : (save s oi).1.size ≤ (save s oi).1.capacity := by
  have hso : SizeOK (save s oi).1 := (keeps_save s oi).2.2 hs
  rw [save_eq] at hso ⊢
  split
  · exact hbd
  · rename_i o ho
    split
    · rename_i hb
      split
      · rename_i hs'
        simp only [ho, hb, hs', if_true] at hso
        have hX := held_saveBuf s oi o ho hb h _ (grow_saveSer (s.register oi) o)
        exact bounded_overflow _ (by rw [(grow_saveSer _ _).strat, strat_register]; exact hst) hX hso
      · rename_i hs'
        simp only [ho, hb, hs', if_true] at hso
        have hX := held_saveBuf s oi o ho hb h _ (grow_saveMem (s.register oi) o)
        exact bounded_overflow _ (by rw [(grow_saveMem _ _).strat, strat_register]; exact hst) hX hso
      · rename_i hs'
        exact absurd ((strat_register s oi).symm.trans hs') hst
    · rw [(sameBook_trySave s o).2.1, (sameCap_trySave s o).1]; exact hbd


/-! ### `_load_from_buffer` -/

theorem mergeInto_size (s : State) (oi : Nat) (o : Obj) (d : J) :
    (mergeInto s oi o d).1.size = s.size ∧ (mergeInto s oi o d).1.capacity = s.capacity := by
  have := core_eq (mergeInto_core s oi o d)
  exact ⟨this.2.2.2.2.1, this.2.2.2.2.2.1⟩

theorem any_of_entry {s : State} {r : Nat} (h : (s.entry r).isSome = true) : s.entries.any (·.1 = r) = true := by
  unfold State.entry at h
  rw [Option.isSome_map, List.find?_isSome] at h
  obtain ⟨x, hx, hp⟩ := h
  exact List.any_eq_true.mpr ⟨x, hx, hp⟩

theorem entry_of_any {s : State} {r : Nat} (h : s.entries.any (·.1 = r) = true) : ∃ e, s.entry r = some e := by
  obtain ⟨x, hx, hp⟩ := List.any_eq_true.mp h
  have : (s.entry r).isSome = true := by
    unfold State.entry
    rw [Option.isSome_map, List.find?_isSome]
    exact ⟨x, hx, hp⟩
  exact Option.isSome_iff_exists.mp this

theorem any_setEntry (s : State) (r : Nat) (e : Entry) : (s.setEntry r e).entries.any (·.1 = r) = true := by
  unfold State.setEntry
  simp only
  split
  · rename_i h
    obtain ⟨x, hx, hp⟩ := List.any_eq_true.mp h
    refine List.any_eq_true.mpr ⟨(r, e), List.mem_map.mpr ⟨x, hx, ?_⟩, by simp⟩
    simp only [decide_eq_true_eq] at hp
    simp [hp]
  · simp [List.any_append]

/-- what `ensureEntry` guarantees -/
structure EE (s : State) (o : Obj) (R : State) (err : Option Err) : Prop where
  grow : Grow o.res s R
  cap : R.capacity = s.capacity
  size : s.strategy ≠ .serialized → R.size = s.size
  fail : err ≠ none → Frame s R ∧ R.size = s.size
  has : err = none → R.entries.any (·.1 = o.res) = true

theorem ee_ensureEntry (s : State) (oi : Nat) (o : Obj) :
    EE s o (ensureEntry s oi o).1 (ensureEntry s oi o).2 ∧
    ((ensureEntry s oi o).2 = none → oi ∈ (ensureEntry s oi o).1.registry) := by
  unfold ensureEntry
  simp only
  have key : EE s o (if (s.entry o.res).isSome = true then (s, (none : Option Err)) else
      match (match loadFromResource s o with
          | none => (s, none)
          | some d => mergeInto s oi o d) with
      | (s1, err) =>
        match err with
        | some e => (s1, some e)
        | none =>
          match s.strategy with
          | .serialized => (initEntrySer s1 o, none)
          | _ => (initEntryMem s1 o false, none)).1
      (if (s.entry o.res).isSome = true then (s, (none : Option Err)) else
      match (match loadFromResource s o with
          | none => (s, none)
          | some d => mergeInto s oi o d) with
      | (s1, err) =>
        match err with
        | some e => (s1, some e)
        | none =>
          match s.strategy with
          | .serialized => (initEntrySer s1 o, none)
          | _ => (initEntryMem s1 o false, none)).2 := by
    split
    · rename_i hsome
      exact ⟨Grow.refl _ s, rfl, fun _ => rfl, fun _ => ⟨Frame.refl s, rfl⟩, fun _ => any_of_entry hsome⟩
    · have hmerge : ∀ q : State × Option Err,
          (Frame s q.1 ∧ q.1.size = s.size ∧ q.1.capacity = s.capacity) →
          EE s o (match q with
            | (s1, err) =>
              match err with
              | some e => (s1, some e)
              | none =>
                match s.strategy with
                | .serialized => (initEntrySer s1 o, none)
                | _ => (initEntryMem s1 o false, none)).1
            (match q with
            | (s1, err) =>
              match err with
              | some e => (s1, some e)
              | none =>
                match s.strategy with
                | .serialized => (initEntrySer s1 o, none)
                | _ => (initEntryMem s1 o false, none)).2 := by
        intro q hq
        obtain ⟨hf, hsz, hcap⟩ := hq
        obtain ⟨s1, err⟩ := q
        simp only at hf hsz hcap ⊢
        cases err with
        | some e => exact ⟨Grow.of_frame hf, hcap, fun _ => hsz, fun _ => ⟨hf, hsz⟩, fun h => by simp at h⟩
        | none =>
          simp only
          split
          · rename_i hs
            exact ⟨(Grow.of_frame hf).trans (grow_initEntrySer s1 o), hcap, fun h => absurd hs h,
              fun h => absurd rfl h, fun _ => any_setEntry _ _ _⟩
          · exact ⟨(Grow.of_frame hf).trans (grow_initEntryMem s1 o false), hcap, fun _ => hsz,
              fun h => absurd rfl h, fun _ => any_setEntry _ _ _⟩
      cases hl : loadFromResource s o with
      | none => exact hmerge (s, none) ⟨Frame.refl s, rfl, rfl⟩
      | some d =>
        exact hmerge (mergeInto s oi o d) ⟨frame_mergeInto s oi o d, (mergeInto_size s oi o d).1, (mergeInto_size s oi o d).2⟩
  revert key
  generalize (if (s.entry o.res).isSome = true then (s, (none : Option Err)) else _) = p
  intro this
  obtain ⟨s1, err⟩ := p
  cases err with
  | some e => exact ⟨this, fun h => by simp at h⟩
  | none =>
    simp only at this ⊢
    refine ⟨⟨this.grow.trans (grow_register _ s1 oi), ?_, ?_, fun h => absurd rfl h, ?_⟩, fun _ => mem_register s1 oi⟩
    · rw [← this.cap]; unfold State.register; split <;> rfl
    · intro h; rw [← this.size h]; unfold State.register; split <;> rfl
    · intro _
      have := this.has rfl
      unfold State.register; split <;> exact this


/-- C15: `_load` keeps the holder invariant, and leaves the size within the capacity -/
theorem good_load (s : State) (oi : Nat) (hst : s.strategy ≠ .none) (h : Held s) :
    Held (load s oi).1 ∧
    (SizeOK s → s.size ≤ s.capacity → (load s oi).1.size ≤ (load s oi).1.capacity) := by
  unfold load
  split
  · exact ⟨h, fun _ hb => hb⟩
  · rename_i o ho
    split
    · rename_i hb
      split
      · -- serialized
        rename_i hs'
        have ee := ee_ensureEntry s oi o
        have hk1 := keeps_ensureEntry s oi o
        cases he : ensureEntry s oi o with
        | mk s1 err =>
          rw [he] at ee hk1
          simp only at ee hk1 ⊢
          cases err with
          | some e =>
            have := ee.1.fail (by simp)
            exact ⟨Held.of_frame this.1 h, fun _ hbd => by rw [this.2, ee.1.cap]; exact hbd⟩
          | none =>
            simp only
            have hs1 : Held s1 := Held.of_grow ee.1.grow (ee.2 rfl) ho rfl hb h
            have hst1 : s1.strategy ≠ .none := by rw [hk1.1]; exact hst
            obtain ⟨e, hee⟩ := entry_of_any (ee.1.has rfl)
            simp only [hee]
            have h2 := held_overflow s1 hst1 hs1
            have b2 : SizeOK s → (overflow s1).1.size ≤ (overflow s1).1.capacity := fun hso =>
              bounded_overflow s1 hst1 hs1 (by
                unfold overflow; split
                · exact (keeps_flushBuffer s1 true).2.2 (hk1.2.2 hso)
                · exact hk1.2.2 hso)
            unfold overflow at h2 b2
            revert h2 b2
            generalize (if s1.size > s1.capacity then flushBuffer s1 true else (s1, none)) = p
            intro h2 b2
            obtain ⟨s2, ferr⟩ := p
            cases ferr with
            | some fe => exact ⟨h2, fun hso _ => b2 hso⟩
            | none =>
              simp only at h2 b2 ⊢
              exact ⟨Held.of_frame (frame_mergeInto _ _ _ _) h2, fun hso _ => by
                rw [(mergeInto_size s2 oi o e.contents).1, (mergeInto_size s2 oi o e.contents).2]; exact b2 hso⟩
      · -- shared memory
        rename_i hs'
        have ee := ee_ensureEntry s oi o
        cases he : ensureEntry s oi o with
        | mk s1 err =>
          rw [he] at ee
          simp only at ee ⊢
          have hsz : s1.size = s.size := ee.1.size (by rw [hs']; simp)
          cases err with
          | some e =>
            have := ee.1.fail (by simp)
            exact ⟨Held.of_frame this.1 h, fun _ hbd => by rw [this.2, ee.1.cap]; exact hbd⟩
          | none =>
            simp only
            have hs1 : Held s1 := Held.of_grow ee.1.grow (ee.2 rfl) ho rfl hb h
            split
            · exact ⟨hs1, fun _ hbd => by rw [hsz, ee.1.cap]; exact hbd⟩
            · rename_i e _
              obtain ⟨o1, ho1, hr1, hb1, _⟩ := ee.1.grow.obj ho
              have hf : Frame s1 (s1.setObj oi { o with cell := e.cell }) :=
                frame_setObj (o' := { o with cell := e.cell }) ho1 hr1.symm hb1.symm
              exact ⟨Held.of_frame hf hs1, fun _ hbd => by
                show s1.size ≤ s1.capacity
                rw [hsz, ee.1.cap]; exact hbd⟩
      · exact ⟨h, fun _ hb => hb⟩
    · split
      · exact ⟨h, fun _ hb => hb⟩
      · exact ⟨Held.of_frame (frame_mergeInto _ _ _ _) h, fun _ hbd => by
          rw [(mergeInto_size _ _ _ _).1, (mergeInto_size _ _ _ _).2]; exact hbd⟩


/-! ### the invariant of C15, along every step -/

/-- a buffered class's state is *good*: the size is the exact sum of the weights of the buffered
files, every buffered file has a registered object that is currently buffered, and the size is
within the capacity -/
def Good (s : State) : Prop :=
  s.strategy ≠ .none ∧ SizeOK s ∧ Held s ∧ s.size ≤ s.capacity

/-- changes of memory and disk only -/
theorem Good.quiet {s s' : State} (hf : Frame s s') (hb : SameBook s s') (hc : s'.capacity = s.capacity)
    (h : Good s) : Good s' :=
  ⟨by rw [hf.strat]; exact h.1, hb.sizeOK h.2.1, Held.of_frame hf h.2.2.1, by rw [hb.2.1, hc]; exact h.2.2.2⟩

theorem good_of_load {s : State} (oi : Nat) (h : Good s) : Good (load s oi).1 :=
  have k := keeps_load s oi
  have g := good_load s oi h.1 h.2.2.1
  ⟨by rw [k.1]; exact h.1, k.2.2 h.2.1, g.1, g.2 h.2.1 h.2.2.2⟩

theorem good_of_save {s : State} (oi : Nat) (h : Good s) : Good (save s oi).1 :=
  have k := keeps_save s oi
  ⟨by rw [k.1]; exact h.1, k.2.2 h.2.1, held_save s oi h.1 h.2.2.1, bounded_save s oi h.1 h.2.2.1 h.2.1 h.2.2.2⟩

theorem frame_putNode (s : State) (h : Handle) (t : T) : Frame s (putNode s h t) := by
  unfold putNode
  cases h with
  | root o => simp only; split <;> exact Frame.of_eq rfl rfl rfl rfl rfl
  | node id => exact Frame.of_eq rfl rfl rfl rfl rfl

theorem cap_own (s : State) (a b c : Nat) : (s.own a b c).capacity = s.capacity := by
  unfold State.own; split <;> rfl

theorem cap_putNode (s : State) (h : Handle) (t : T) : (putNode s h t).capacity = s.capacity := by
  unfold putNode
  cases h with
  | root o => simp only; split <;> rfl
  | node id => rfl

theorem good_call {s : State} (h : Handle) (op : Op) (hg : Good s) : Good (call s h op).1 := by
  unfold call
  split
  · rename_i oi isRoot t0 _ _
    split
    · exact hg
    · have hload : Good (if (op.isOverwrite && isRoot || op.skipsLoad) = true then (s, (none : Option Err))
          else
            match load s oi with
            | (s1, e1) =>
              match e1 with
              | some e => (s1, some e)
              | none =>
                match handleNode s1 h with
                | some t => if op.loadsTwice t = true then load s1 oi else (s1, none)
                | none => (s1, none)).1 := by
        split
        · exact hg
        · cases hl : load s oi with
          | mk s1 e1 =>
            have h1 : Good s1 := by have := good_of_load oi hg; rwa [hl] at this
            simp only
            cases e1 with
            | some e => exact h1
            | none =>
              simp only
              split
              · split
                · exact good_of_load oi h1
                · exact h1
              · exact h1
      revert hload
      generalize (if (op.isOverwrite && isRoot || op.skipsLoad) = true then (s, (none : Option Err)) else _) = p
      intro hload
      obtain ⟨s1, lerr⟩ := p
      simp only at hload ⊢
      cases lerr with
      | some e => exact hload
      | none =>
        simp only
        split
        · exact hload
        · rename_i t _
          have h2 : Good (((putNode s1 h (runBody s.fam t op s1.next).node).own oi s1.next
              (runBody s.fam t op s1.next).next).addDetached oi (runBody s.fam t op s1.next).det) :=
            Good.quiet
              (((frame_putNode s1 h _).trans (frame_own _ _ _ _)).trans (Frame.of_eq rfl rfl rfl rfl rfl))
              (((sameBook_putNode s1 h _).trans (sameBook_own _ _ _ _)).trans (sameBook_addDetached _ _ _))
              (by show (State.own _ _ _ _).capacity = _; rw [cap_own, cap_putNode]) hload
          have h3 : ∀ s2 : State, Good s2 →
              Good (if op.isRead = true then (s2, (none : Option Err)) else save s2 oi).1 := by
            intro s2 h
            split
            · exact h
            · exact good_of_save oi h
          have h4 := h3 _ h2
          revert h4
          generalize (if op.isRead = true then ((((putNode s1 h (runBody s.fam t op s1.next).node).own oi s1.next
              (runBody s.fam t op s1.next).next).addDetached oi (runBody s.fam t op s1.next).det), (none : Option Err))
              else save _ oi) = q
          intro h4
          obtain ⟨s3, serr⟩ := q
          simp only at h4 ⊢
          cases serr with
          | some e => exact h4
          | none =>
            simp only
            split <;> exact h4
  · exact hg


/-- `Good` without the bound: what `set_buffer_capacity` needs -/
def Pre (s : State) : Prop := s.strategy ≠ .none ∧ SizeOK s ∧ Held s

theorem Good.pre {s : State} (h : Good s) : Pre s := ⟨h.1, h.2.1, h.2.2.1⟩

/-- C15: `set_buffer_capacity(n)` leaves the size within the new capacity, whatever it was -/
theorem good_setCapacity (s : State) (n : Nat) (h : Pre s) : Good (setCapacity s n).1 := by
  have k := keeps_setCapacity s n
  have hso := k.2.2 h.2.1
  have hst' : (setCapacity s n).1.strategy ≠ .none := by rw [k.1]; exact h.1
  unfold setCapacity at hso hst' ⊢
  simp only at hso hst' ⊢
  have h1 : Held { s with capacity := n } := Held.of_frame (Frame.of_eq rfl rfl rfl rfl rfl) h.2.2
  split
  · rename_i hlt
    rw [if_pos hlt] at hso hst'
    refine ⟨hst', hso, flushBuffer_held _ true h.1 h1.weak (fun _ _ => h1), ?_⟩
    rw [forced_flush_zero { s with capacity := n } h.1 h1.weak hso]
    exact Nat.zero_le _
  · rename_i hlt
    rw [if_neg hlt] at hso hst'
    exact ⟨hst', hso, h1, Nat.le_of_not_lt hlt⟩

theorem mono_setObj {s : State} {oi : Nat} {o o' : Obj} (ho : s.objs[oi]? = some o) (hr : o'.res = o.res)
    (hb : s.isBuffered o = true → s.isBuffered o' = true) : Mono s (s.setObj oi o') := by
  refine ⟨fun _ h => h, ?_⟩
  intro i x hx
  by_cases hi : i = oi
  · subst hi
    rw [ho] at hx
    simp only [Option.some.injEq] at hx
    subst hx
    have hlt : i < s.objs.length := by
      have := List.getElem?_eq_some_iff.mp ho
      exact this.1
    exact ⟨o', by show (s.objs.set i o')[i]? = some o'; exact List.getElem?_set_self hlt, hr, hb⟩
  · exact ⟨x, by show (s.objs.set oi o')[i]? = some x; rw [List.getElem?_set_ne (Ne.symm hi)]; exact hx, rfl, id⟩

theorem good_enterObj (s : State) (oi : Nat) (h : Good s) : Good (enterObj s oi) := by
  have k := keeps_enterObj s oi
  refine ⟨by rw [k.1]; exact h.1, k.2.2 h.2.1, ?_, ?_⟩
  · unfold enterObj
    split
    · exact h.2.2.1
    · rename_i o ho
      exact Held.of_mono (s := s) (fun p hp => ⟨p.2, hp⟩)
        (mono_setObj (o' := { o with buffered := o.buffered + 1 }) ho rfl (fun _ => by simp [State.isBuffered]))
        h.2.2.1
  · unfold enterObj
    split
    · exact h.2.2.2
    · exact h.2.2.2

/-- leaving `obj.buffered`: a holder other than the object is untouched; the object itself either
stays buffered or its file has left the buffer -/
theorem held_after_dec {s : State} {oi : Nat} {o : Obj} (h : Held s) (ho : s.objs[oi]? = some o) (R : State)
    (hf : Frame (s.setObj oi { o with buffered := o.buffered - 1 }) R)
    (habs : (s.setObj oi { o with buffered := o.buffered - 1 }).isBuffered { o with buffered := o.buffered - 1 } = false →
      Absent o.res R) : Held R := by
  have hlt : oi < s.objs.length := (List.getElem?_eq_some_iff.mp ho).1
  have ho1 : (s.setObj oi { o with buffered := o.buffered - 1 }).objs[oi]? = some { o with buffered := o.buffered - 1 } :=
    List.getElem?_set_self hlt
  intro p hp
  obtain ⟨e0, he0⟩ := hf.sub p hp
  obtain ⟨hh, hreg, oh, hoh, hres, hbuf⟩ := h (p.1, e0) he0
  have hregR : hh ∈ R.registry := by rw [hf.reg]; exact hreg
  by_cases hi : hh = oi
  · subst hi
    rw [ho] at hoh
    simp only [Option.some.injEq] at hoh
    subst hoh
    cases hib : (s.setObj hh { o with buffered := o.buffered - 1 }).isBuffered { o with buffered := o.buffered - 1 }
    · exact absurd hres.symm ((habs hib) p hp)
    · obtain ⟨o', ho', hr', _, hib'⟩ := due_frame hf ho1 false
      exact ⟨hh, hregR, o', ho', by rw [hr']; exact hres, by rw [hib']; exact hib⟩
  · have hoh1 : (s.setObj oi { o with buffered := o.buffered - 1 }).objs[hh]? = some oh := by
      show (s.objs.set oi _)[hh]? = some oh
      rw [List.getElem?_set_ne (Ne.symm hi)]; exact hoh
    obtain ⟨o', ho', hr', _, hib'⟩ := due_frame hf hoh1 false
    exact ⟨hh, hregR, o', ho', by rw [hr']; exact hres, by rw [hib']; exact hbuf⟩

theorem good_exitObj (s : State) (oi : Nat) (h : Good s) : Good (exitObj s oi).1 := by
  have k := keeps_exitObj s oi
  refine ⟨by rw [k.1]; exact h.1, k.2.2 h.2.1, ?_, ?_⟩
  · unfold exitObj
    split
    · exact h.2.2.1
    · rename_i o ho
      simp only
      have hlt : oi < s.objs.length := (List.getElem?_eq_some_iff.mp ho).1
      have ho1 : (s.setObj oi { o with buffered := o.buffered - 1 }).objs[oi]? = some { o with buffered := o.buffered - 1 } :=
        List.getElem?_set_self hlt
      split
      · have facts := flushOne_facts (s.setObj oi { o with buffered := o.buffered - 1 }) oi false _ ho1 h.1
        refine held_after_dec h.2.2.1 ho _ facts.1 ?_
        intro hib
        exact facts.2.2.1 (by simp [due, hib]) (Or.inr rfl)
      · rename_i hne
        refine held_after_dec h.2.2.1 ho _ (Frame.refl _) ?_
        intro hib
        exfalso
        simp only [State.isBuffered, Bool.or_eq_false_iff, decide_eq_false_iff_not, Nat.not_lt, Nat.le_zero_eq] at hib
        exact hne hib.1
  · unfold exitObj
    split
    · exact h.2.2.2
    · simp only
      split
      · rename_i o _ _
        have := size_le_flushOne (s.setObj oi { o with buffered := o.buffered - 1 }) oi false
        rw [this.2]
        exact Nat.le_trans this.1 h.2.2.2
      · exact h.2.2.2


/-- a state with a positive context counter: every object is buffered -/
theorem held_ctx_pos {s X : State} (h : Held s) (h1 : X.entries = s.entries) (h2 : X.objs = s.objs)
    (h3 : X.registry = s.registry) (hpos : X.ctx > 0) : Held X := by
  intro p hp
  rw [h1] at hp
  obtain ⟨hh, hreg, oh, hoh, hres, _⟩ := h p hp
  exact ⟨hh, h3 ▸ hreg, oh, h2 ▸ hoh, hres, by simp [State.isBuffered, hpos]⟩

theorem good_enterCls (s : State) (cap : Option Nat) (h : Good s) : Good (enterCls s cap).1 := by
  unfold enterCls
  simp only
  have h1 : Held { s with ctx := s.ctx + 1 } := held_ctx_pos h.2.2.1 rfl rfl rfl (Nat.succ_pos _)
  cases cap with
  | none =>
    exact ⟨h.1, SameBook.sizeOK (s := s) ⟨rfl, rfl, rfl, rfl⟩ h.2.1,
      Held.of_frame (Frame.of_eq rfl rfl rfl rfl rfl) h1, h.2.2.2⟩
  | some c =>
    simp only
    apply good_setCapacity
    exact ⟨h.1, SameBook.sizeOK (s := s) ⟨rfl, rfl, rfl, rfl⟩ h.2.1,
      Held.of_frame (Frame.of_eq rfl rfl rfl rfl rfl) h1⟩

theorem WHeld.of_eq {s X : State} (h : WHeld s) (h1 : X.entries = s.entries) (h2 : X.objs = s.objs)
    (h3 : X.registry = s.registry) : WHeld X := by
  intro p hp
  rw [h1] at hp
  obtain ⟨hh, hreg, o, ho, hr⟩ := h p hp
  exact ⟨hh, h3 ▸ hreg, o, h2 ▸ ho, hr⟩

theorem good_exitCls (s : State) (h : Good s) : Good (exitCls s).1 := by
  unfold exitCls
  simp only
  have h1 : Pre (if s.ctx - 1 = 0 then flushBuffer { s with ctx := s.ctx - 1 } false
      else ({ s with ctx := s.ctx - 1 }, none)).1 ∧
      (if s.ctx - 1 = 0 then flushBuffer { s with ctx := s.ctx - 1 } false
      else ({ s with ctx := s.ctx - 1 }, none)).1.size ≤
      (if s.ctx - 1 = 0 then flushBuffer { s with ctx := s.ctx - 1 } false
      else ({ s with ctx := s.ctx - 1 }, none)).1.capacity := by
    have hso : SizeOK { s with ctx := s.ctx - 1 } := SameBook.sizeOK (s := s) ⟨rfl, rfl, rfl, rfl⟩ h.2.1
    split
    · have k := keeps_flushBuffer { s with ctx := s.ctx - 1 } false
      have sl := size_le_flushBuffer { s with ctx := s.ctx - 1 } false
      refine ⟨⟨by rw [k.1]; exact h.1, k.2.2 hso, ?_⟩, ?_⟩
      · exact flushBuffer_held _ false h.1 (h.2.2.1.weak.of_eq rfl rfl rfl) (fun hf => by simp at hf)
      · rw [sl.2]; exact Nat.le_trans sl.1 h.2.2.2
    · rename_i hne
      exact ⟨⟨h.1, hso, held_ctx_pos h.2.2.1 rfl rfl rfl (Nat.pos_of_ne_zero hne)⟩, h.2.2.2⟩
  revert h1
  generalize (if s.ctx - 1 = 0 then flushBuffer { s with ctx := s.ctx - 1 } false
      else ({ s with ctx := s.ctx - 1 }, none)) = p
  intro h1
  obtain ⟨s2, ferr⟩ := p
  simp only at h1 ⊢
  split
  · exact ⟨h1.1.1, h1.1.2.1, h1.1.2.2, h1.2⟩
  · rename_i top rest _
    have h3 : Pre { s2 with capStack := rest } :=
      ⟨h1.1.1, SameBook.sizeOK (s := s2) ⟨rfl, rfl, rfl, rfl⟩ h1.1.2.1,
       Held.of_frame (Frame.of_eq rfl rfl rfl rfl rfl) h1.1.2.2⟩
    cases top with
    | none => exact ⟨h3.1, h3.2.1, h3.2.2, h1.2⟩
    | some c =>
      simp only
      exact good_setCapacity _ c h3

/-- a new object is not registered and no file is added to the buffer -/
theorem held_append_obj {s X : State} {o : Obj} (h : Held s) (h1 : X.entries = s.entries)
    (h2 : X.objs = s.objs ++ [o]) (h3 : X.registry = s.registry) (h4 : X.ctx = s.ctx) : Held X := by
  intro p hp
  rw [h1] at hp
  obtain ⟨hh, hreg, oh, hoh, hres, hb⟩ := h p hp
  have hlt : hh < s.objs.length := (List.getElem?_eq_some_iff.mp hoh).1
  refine ⟨hh, h3 ▸ hreg, oh, ?_, hres, ?_⟩
  · rw [h2, List.getElem?_append_left hlt]; exact hoh
  · simpa [State.isBuffered, h4] using hb

theorem good_openObj (s : State) (d : Bool) (r : Nat) (data : Option J) (h : Good s) :
    Good (openObj s d r data).1 := by
  have k := keeps_openObj s d r data
  refine ⟨by rw [k.1]; exact h.1, k.2.2 h.2.1, ?_, ?_⟩
  · unfold openObj
    simp only
    cases data with
    | none =>
      simp only
      exact Held.of_frame (frame_own _ _ _ _) (held_append_obj h.2.2.1 rfl rfl rfl rfl)
    | some dd =>
      simp only
      split
      · exact h.2.2.1
      · split
        · exact h.2.2.1
        · exact Held.of_frame (frame_own _ _ _ _) (held_append_obj h.2.2.1 rfl rfl rfl rfl)
  · unfold openObj
    simp only
    cases data with
    | none =>
      simp only
      rw [cap_own, (sameBook_own _ _ _ _).2.1]
      exact h.2.2.2
    | some dd =>
      simp only
      split
      · exact h.2.2.2
      · split
        · exact h.2.2.2
        · rw [cap_own, (sameBook_own _ _ _ _).2.1]
          exact h.2.2.2

/-- C15: every step of a history keeps the state good -/
theorem good_step (s : State) (st : Step) (h : Good s) : Good (step s st) := by
  cases st with
  | call hd op => exact good_call hd op h
  | enterObj oi => exact good_enterObj s oi h
  | exitObj oi => exact good_exitObj s oi h
  | enterCls cap => exact good_enterCls s cap h
  | exitCls => exact good_exitCls s h
  | setCap n => exact good_setCapacity s n h.pre
  | openObj d r data => exact good_openObj s d r data h
  | ext r d => exact Good.quiet (Frame.of_eq rfl rfl rfl rfl rfl) (sameBook_writeFile s r d) rfl h
  | extDel r => exact Good.quiet (s' := s.deleteFile r) (Frame.of_eq rfl rfl rfl rfl rfl) ⟨rfl, rfl, rfl, rfl⟩ rfl h
  | setFailing rs => exact Good.quiet (s' := { s with failing := rs }) (Frame.of_eq rfl rfl rfl rfl rfl) ⟨rfl, rfl, rfl, rfl⟩ rfl h

theorem good_run (s : State) (steps : List Step) (h : Good s) : Good (run s steps) := by
  induction steps generalizing s with
  | nil => exact h
  | cons st rest ih => exact ih _ (good_step s st h)

theorem good_init (fam : Fam) (strategy : Buffering) (fl : List ((Int × Nat) × Nat)) (hst : strategy ≠ .none) :
    Good (State.init fam strategy fl) :=
  ⟨hst, sizeOK_init fam strategy fl, fun p hp => by simp [State.init] at hp, by simp [State.init]⟩

/-- C15: when no buffered context is active the buffer is empty and the size is 0 -/
theorem zero_outside (s : State) (h : Good s) (hctx : s.ctx = 0) (hobj : ∀ o ∈ s.objs, o.buffered = 0) :
    s.entries = [] ∧ s.size = 0 := by
  have he : s.entries = [] := by
    cases hent : s.entries with
    | nil => rfl
    | cons p ps =>
      exfalso
      obtain ⟨hh, _, oh, hoh, _, hb⟩ := h.2.2.1 p (by rw [hent]; exact List.mem_cons_self ..)
      have hmem : oh ∈ s.objs := List.mem_of_getElem? hoh
      simp [State.isBuffered, hctx, hobj oh hmem] at hb
  refine ⟨he, ?_⟩
  rw [h.2.1.2, he]
  rfl

end SC.B
