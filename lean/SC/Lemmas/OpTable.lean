/-
Tie between the hand-written operation model and the source: the model's classification of every
mutating operation (which context wraps its body, whether the argument is validated BEFORE the
synchronisation context is entered) against the method summaries the translator derives from the
AST of every concrete class.
-/
import SC.Seq
import SC.Table
namespace SC

/-- the mutating operations of the model, without their arguments -/
inductive OpKind where
  | dSetitem | dDelitem | dPop | dPopitem | dClear | dUpdate | dSetdefault | dReset
  | lSetitem | lDelitem | lInsert | lAppend | lExtend | lIadd | lRemove | lClear | lPop | lReverse | lReset
deriving DecidableEq, Repr

def OpKind.all : List OpKind :=
  [.dSetitem, .dDelitem, .dPop, .dPopitem, .dClear, .dUpdate, .dSetdefault, .dReset,
   .lSetitem, .lDelitem, .lInsert, .lAppend, .lExtend, .lIadd, .lRemove, .lClear, .lPop, .lReverse, .lReset]

def Op.kind? : Op → Option OpKind
  | .dSetitem _ _ => some .dSetitem | .dDelitem _ => some .dDelitem | .dPop _ _ => some .dPop
  | .dPopitem => some .dPopitem | .dClear => some .dClear | .dUpdate _ _ => some .dUpdate
  | .dSetdefault _ _ => some .dSetdefault | .dReset _ => some .dReset
  | .lSetitem _ _ => some .lSetitem | .lDelitem _ => some .lDelitem | .lInsert _ _ => some .lInsert
  | .lAppend _ => some .lAppend | .lExtend _ => some .lExtend | .lIadd _ => some .lIadd
  | .lRemove _ => some .lRemove | .lClear => some .lClear | .lPop _ => some .lPop
  | .lReverse => some .lReverse | .lReset _ => some .lReset
  | .dRead _ | .lRead _ => none

namespace OpKind

/-- the Python method that implements the operation -/
def method : OpKind → String
  | .dSetitem | .lSetitem => "__setitem__"
  | .dDelitem | .lDelitem => "__delitem__"
  | .dPop | .lPop => "pop"
  | .dPopitem => "popitem"
  | .dClear | .lClear => "clear"
  | .dUpdate => "update"
  | .dSetdefault => "setdefault"
  | .dReset | .lReset => "reset"
  | .lInsert => "insert"
  | .lAppend => "append"
  | .lExtend => "extend"
  | .lIadd => "__iadd__"
  | .lRemove => "remove"
  | .lReverse => "reverse"

def onDict : OpKind → Bool
  | .dSetitem | .dDelitem | .dPop | .dPopitem | .dClear | .dUpdate | .dSetdefault | .dReset => true
  | _ => false

/-- the model runs the body in the overwrite context (no load at root level) -/
def isOverwrite : OpKind → Bool
  | .dClear | .lClear | .dReset | .lReset => true
  | _ => false

/-- the model validates the argument before anything is touched (`preValidate`) -/
def validatesBefore : OpKind → Bool
  | .dSetitem | .lSetitem | .lInsert | .lAppend | .lExtend | .lIadd => true
  | _ => false

end OpKind

/-- the classification used by `call` is the one of the operation's kind -/
theorem Op.isOverwrite_kind (op : Op) (k : OpKind) (h : op.kind? = some k) : op.isOverwrite = k.isOverwrite := by
  cases op <;> simp [Op.kind?] at h <;> subst h <;> rfl

/-- operations whose kind does not validate before, and is not a reset, pass `preValidate` always:
nothing is rejected before the synchronisation context for them -/
theorem preValidate_none_of_kind (fam : Fam) (b : Bool) (op : Op) (k : OpKind) (h : op.kind? = some k)
    (hv : k.validatesBefore = false) (hr : k ≠ .dReset ∧ k ≠ .lReset) : preValidate fam b op = none := by
  cases op <;> simp [Op.kind?] at h <;> subst h <;> simp_all [OpKind.validatesBefore, preValidate]

/-- the side condition on one class of the regenerated table: every mutating operation of the model
that applies to the class has a method of that name, defined in the repository, whose outermost
context is the overwrite context exactly when the model says so, and which validates before the
first `with` exactly when the model says so -/
def OpsMatch (c : ClassInfo) : Bool :=
  OpKind.all.all (fun k =>
    k.onDict != c.isDict ||
    match c.api.find? (fun a => a.name == k.method) with
    | some ⟨_, true, true, some ms⟩ =>
      ((ms.ctxs.head? == some Ctx.overwrite) == k.isOverwrite) && (ms.validateBefore == k.validatesBefore)
    | _ => false)

end SC
