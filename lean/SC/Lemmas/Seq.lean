/-
Structural facts about one sequential call (`Seq.call`): where it saves, what it
leaves alone.
-/
import SC.Seq
namespace SC

namespace State

@[simp] theorem setObj_stores (s : State) (i : Nat) (o : Obj) : (s.setObj i o).stores = s.stores := rfl
@[simp] theorem own_stores (s : State) (a b c : Nat) : (s.own a b c).stores = s.stores := by
  unfold own; split <;> rfl
@[simp] theorem addDetached_stores (s : State) (i : Nat) (ts : List T) :
    (s.addDetached i ts).stores = s.stores := rfl
@[simp] theorem own_objs (s : State) (a b c : Nat) : (s.own a b c).objs = s.objs := by
  unfold own; split <;> rfl
@[simp] theorem addDetached_objs (s : State) (i : Nat) (ts : List T) :
    (s.addDetached i ts).objs = s.objs := rfl
@[simp] theorem setObj_objs_length (s : State) (i : Nat) (o : Obj) :
    (s.setObj i o).objs.length = s.objs.length := by simp [setObj]

theorem store_setStore (s : State) (r : Nat) (d : J) : (s.setStore r d).store r = some d := by
  simp [store, setStore]

end State

theorem loadRoot_stores (s : State) (oi : Nat) : (loadRoot s oi).1.stores = s.stores := by
  unfold loadRoot
  split
  · rfl
  · split <;> simp

theorem loadRoot_objs_length (s : State) (oi : Nat) :
    (loadRoot s oi).1.objs.length = s.objs.length := by
  unfold loadRoot
  split
  · rfl
  · split <;> simp

theorem loadFor_stores (s : State) (oi : Nat) (b : Bool) (op : Op) :
    (loadFor s oi b op).1.stores = s.stores := by
  unfold loadFor; split
  · rfl
  · exact loadRoot_stores s oi

theorem loadFor_objs_length (s : State) (oi : Nat) (b : Bool) (op : Op) :
    (loadFor s oi b op).1.objs.length = s.objs.length := by
  unfold loadFor; split
  · rfl
  · exact loadRoot_objs_length s oi

theorem putNode_stores (s : State) (h : Handle) (t : T) : (putNode s h t).stores = s.stores := by
  unfold putNode
  cases h with
  | root o => simp only; split <;> simp
  | node id => simp [replaceNode]

theorem putNode_objs_length (s : State) (h : Handle) (t : T) :
    (putNode s h t).objs.length = s.objs.length := by
  unfold putNode
  cases h with
  | root o => simp only; split <;> simp
  | node id => simp [replaceNode]

theorem applyBody_stores (s : State) (h : Handle) (oi : Nat) (r : NodeRes) :
    (applyBody s h oi r).stores = s.stores := by
  simp [applyBody, putNode_stores]

theorem applyBody_objs_length (s : State) (h : Handle) (oi : Nat) (r : NodeRes) :
    (applyBody s h oi r).objs.length = s.objs.length := by
  simp [applyBody, putNode_objs_length]

theorem saveRoot_store {s : State} {oi : Nat} {o : Obj} (h : s.objs[oi]? = some o) :
    (saveRoot s oi).store o.res = some o.root.toBase ∧ (saveRoot s oi).objs = s.objs := by
  unfold saveRoot
  simp only [h]
  exact ⟨State.store_setStore _ _ _, rfl⟩

theorem finishCall_read_stores (s2 : State) (oi : Nat) (op : Op) (r : NodeRes)
    (hr : op.isRead = true) : (finishCall s2 oi op r).1.stores = s2.stores := by
  unfold finishCall
  simp only [hr, if_true]
  split <;> rfl

theorem callOn_read_stores (s : State) (h : Handle) (op : Op) (oi : Nat) (isRoot : Bool) (o : Obj)
    (t0 : T) (hr : op.isRead = true) : (callOn s h op oi isRoot o t0).1.stores = s.stores := by
  unfold callOn
  split
  · rfl
  · dsimp only
    split
    · exact loadFor_stores ..
    · split
      · exact loadFor_stores ..
      · rw [finishCall_read_stores _ _ _ _ hr, applyBody_stores, loadFor_stores]

/-- **reads never write**: whatever a read operation does (load, merge, navigation,
error), the backend contents are exactly what they were, and a missing resource
stays missing. -/
theorem call_read_stores (s : State) (h : Handle) (op : Op) (hr : op.isRead = true) :
    (call s h op).1.stores = s.stores := by
  unfold call
  split
  · split
    · rfl
    · exact callOn_read_stores _ _ _ _ _ _ _ hr
  · rfl

/-- **a rejected argument changes nothing**: if the validation that precedes the
operation fails, the call raises that error and the whole state — memory of every
object, every backend, every handle — is untouched. -/
theorem call_prevalidate_reject (s : State) (h : Handle) (op : Op) (oi : Nat) (isRoot : Bool)
    (t0 : T) (o : Obj) (e : Err)
    (ho : handleOwner s h = some (oi, isRoot)) (hn : handleNode s h = some t0)
    (hobj : s.objs[oi]? = some o)
    (hv : preValidate (s.fam o) t0.isDict op = some e) :
    call s h op = (s, .error e) := by
  unfold call
  simp only [ho, hn, hobj]
  unfold callOn
  simp only [hv]

theorem finishCall_ok_store {s2 : State} {oi : Nat} {op : Op} {r : NodeRes} {s' : State}
    {out : Out Nat} (hm : op.isRead = false) (hlen : oi < s2.objs.length)
    (hc : finishCall s2 oi op r = (s', .ok out)) :
    ∃ o, s'.objs[oi]? = some o ∧ s'.store o.res = some o.root.toBase := by
  unfold finishCall at hc
  simp only [hm] at hc
  have ho2 : s2.objs[oi]? = some s2.objs[oi] := List.getElem?_eq_getElem hlen
  have hsave := saveRoot_store ho2
  split at hc
  · cases hc
  · cases hc
    exact ⟨s2.objs[oi], by simp [hsave.2], hsave.1⟩

/-- **write-through**: when a mutating call returns normally, the backend of the
object that owns the handle holds exactly the plain content of that object's tree. -/
theorem call_write_through (s : State) (h : Handle) (op : Op) (s' : State) (out : Out Nat)
    (hm : op.isRead = false) (hc : call s h op = (s', .ok out)) :
    ∃ oi isRoot o, handleOwner s h = some (oi, isRoot) ∧ s'.objs[oi]? = some o ∧
      s'.store o.res = some o.root.toBase := by
  unfold call at hc
  split at hc
  · next oi isRoot t0 ho hn =>
    split at hc
    · cases hc
    · next o hobj =>
      have hoi : oi < s.objs.length := (List.getElem?_eq_some_iff.mp hobj).1
      unfold callOn at hc
      split at hc
      · cases hc
      · dsimp only at hc
        split at hc
        · cases hc
        · split at hc
          · cases hc
          · obtain ⟨o2, h1, h2⟩ := finishCall_ok_store hm
              (by rw [applyBody_objs_length, loadFor_objs_length]; exact hoi) hc
            exact ⟨oi, isRoot, o2, ho, h1, h2⟩
  · cases hc

end SC
