/-
Unique keys along histories.  A Python dict has no duplicate keys; the model's association lists
have none either (`wf`) in every reachable state — through every merge (raising or not), every
operation body and every store through a handle — provided the data that comes from outside
(arguments, constructor data, outside writers) has none, which for Python values is automatic.
This discharges the last state hypothesis of the refinement steps.
-/
import SC.Lemmas.IdHist
import SC.Lemmas.Merge
namespace SC
variable {ι : Type}

/-! ### association lists, generic in the identity type -/

theorem gwfKV_setKey : ∀ (cur : List (Key × Tr ι)) (k : Key) (x : Tr ι), Tr.wfKV cur = true → x.wf = true →
    Tr.wfKV (Tr.setKey k x cur) = true
  | [], k, x, _, hx => by simp [Tr.setKey, Tr.wfKV, hx, Tr.hasKey, Tr.lookup]
  | (k', v') :: qs, k, x, hc, hx => by
    simp only [Tr.wfKV, Bool.and_eq_true, Bool.not_eq_true'] at hc
    simp only [Tr.setKey]
    split
    · rename_i hkk
      subst hkk
      simp only [Tr.wfKV, Bool.and_eq_true, Bool.not_eq_true']
      exact ⟨⟨hc.1.1, hx⟩, hc.2⟩
    · rename_i hkk
      simp only [Tr.wfKV, Bool.and_eq_true, Bool.not_eq_true']
      refine ⟨⟨?_, hc.1.2⟩, gwfKV_setKey qs k x hc.2 hx⟩
      rw [hasKey_setKey]
      simp [hc.1.1, hkk]

theorem hasKey_delKey_le {α : Type} (k k2 : Key) : ∀ (kvs : List (Key × α)),
    Tr.hasKey k2 kvs = false → Tr.hasKey k2 (Tr.delKey k kvs) = false
  | [], _ => by simp [Tr.delKey, Tr.hasKey, Tr.lookup]
  | (k', v') :: qs, h => by
    simp only [Tr.hasKey, Tr.lookup] at h
    simp only [Tr.delKey]
    by_cases hk2 : k' = k2
    · simp [hk2] at h
    · simp only [hk2, if_false] at h
      split
      · exact h
      · simp only [Tr.hasKey, Tr.lookup, hk2, if_false]
        exact hasKey_delKey_le k k2 qs h

theorem wfKV_delKey (k : Key) : ∀ (kvs : List (Key × Tr ι)), Tr.wfKV kvs = true →
    Tr.wfKV (Tr.delKey k kvs) = true
  | [], _ => rfl
  | (k', v') :: qs, hc => by
    simp only [Tr.wfKV, Bool.and_eq_true, Bool.not_eq_true'] at hc
    simp only [Tr.delKey]
    split
    · exact hc.2
    · simp only [Tr.wfKV, Bool.and_eq_true, Bool.not_eq_true']
      exact ⟨⟨hasKey_delKey_le k k' qs hc.1.1, hc.1.2⟩, wfKV_delKey k qs hc.2⟩

theorem hasKey_of_sublist {α : Type} (k : Key) : ∀ {a b : List (Key × α)}, a.Sublist b →
    Tr.hasKey k b = false → Tr.hasKey k a = false
  | _, _, .slnil, h => h
  | _, _, .cons x s, h => by
    obtain ⟨k', v'⟩ := x
    simp only [Tr.hasKey, Tr.lookup] at h
    by_cases hk : k' = k
    · simp [hk] at h
    · simp only [hk, if_false] at h; exact hasKey_of_sublist k s h
  | _, _, .cons_cons x s, h => by
    obtain ⟨k', v'⟩ := x
    simp only [Tr.hasKey, Tr.lookup] at h ⊢
    by_cases hk : k' = k
    · simp [hk] at h
    · simp only [hk, if_false] at h ⊢; exact hasKey_of_sublist k s h

/-- a sub-list of bindings with unique keys has unique keys -/
theorem wfKV_sublist : ∀ {a b : List (Key × Tr ι)}, a.Sublist b → Tr.wfKV b = true → Tr.wfKV a = true
  | _, _, .slnil, h => h
  | _, _, .cons x s, h => by
    obtain ⟨k', v'⟩ := x
    simp only [Tr.wfKV, Bool.and_eq_true] at h
    exact wfKV_sublist s h.2
  | _, _, .cons_cons x s, h => by
    obtain ⟨k', v'⟩ := x
    simp only [Tr.wfKV, Bool.and_eq_true, Bool.not_eq_true'] at h ⊢
    exact ⟨⟨hasKey_of_sublist k' s h.1.1, h.1.2⟩, wfKV_sublist s h.2⟩

theorem wfL_iff {xs : List (Tr ι)} : Tr.wfL xs = true ↔ ∀ x ∈ xs, x.wf = true := by
  induction xs with
  | nil => simp [Tr.wfL]
  | cons x xs ih => simp [Tr.wfL, ih]

theorem wf_values_of_wfKV : ∀ {kvs : List (Key × Tr ι)}, Tr.wfKV kvs = true → ∀ kv ∈ kvs, kv.2.wf = true
  | [], _, kv, h => by simp at h
  | (k', v') :: qs, hc, kv, hm => by
    simp only [Tr.wfKV, Bool.and_eq_true] at hc
    rcases List.mem_cons.mp hm with rfl | hm
    · exact hc.1.2
    · exact wf_values_of_wfKV hc.2 kv hm

/-! ### the merge keeps keys unique, raising or not -/

theorem elemStep_wf {existing : T} {new : Tr ι} {nested : UpdRes T} {verr : Option Err} {n : Nat}
    (he : existing.wf = true) (hnew : new.wf = true) (hn : nested.val.wf = true) :
    (elemStep existing new nested verr n).val.wf = true := by
  have hrep : ∀ (cur : T) (m : Nat) (det : List T), cur.wf = true →
      (match verr with
         | some e => (⟨cur, m, det, some e⟩ : UpdRes T)
         | none => ⟨(fromBase new m).1, (fromBase new m).2, det ++ containers [cur], none⟩).val.wf = true := by
    intro cur m det hc
    cases verr with
    | some e => exact hc
    | none => exact wf_fromBase new m hnew
  unfold elemStep
  cases existing with
  | leaf s =>
    cases new with
    | leaf s' =>
      simp only
      split
      · exact he
      · exact hrep _ _ _ he
    | list i xs => exact hrep _ _ _ he
    | dict i kvs => exact hrep _ _ _ he
  | list i xs =>
    simp only
    split
    · exact hrep _ _ _ he
    · split
      · exact hn
      · split
        · exact hrep _ _ _ hn
        · exact hn
  | dict i kvs =>
    simp only
    split
    · exact hrep _ _ _ he
    · split
      · exact hn
      · split
        · exact hrep _ _ _ hn
        · exact hn

mutual
theorem updNode_wf (fam : Fam) : ∀ (d : Tr ι) (t : T) (n : Nat), t.wf = true → d.wf = true →
    (updNode fam t d n).val.wf = true
  | .leaf s, t, n, ht, _ => by cases s <;> cases t <;> simp only [updNode] <;> exact ht
  | .list j dxs, t, n, ht, hd => by
    cases t with
    | leaf s => simp only [updNode]; exact ht
    | dict i kvs => simp only [updNode]; exact ht
    | list i xs =>
      simp only [updNode, Tr.wf]
      exact updListLoop_wf fam dxs xs n (by simpa [Tr.wf] using ht) (by simpa [Tr.wf] using hd)
  | .dict j dkvs, t, n, ht, hd => by
    cases t with
    | leaf s => simp only [updNode]; exact ht
    | list i xs => simp only [updNode]; exact ht
    | dict i kvs =>
      have h := updDictLoop_wf fam dkvs kvs n (by simpa [Tr.wf] using ht) (by simpa [Tr.wf] using hd)
      simp only [updNode]
      split
      · simpa [Tr.wf] using h
      · simp only [Tr.wf]; exact wfKV_filter _ _ h
theorem updDictLoop_wf (fam : Fam) : ∀ (data : List (Key × Tr ι)) (cur : List (Key × T)) (n : Nat),
    Tr.wfKV cur = true → Tr.wfKV data = true → Tr.wfKV (updDictLoop fam cur data n).val = true
  | [], cur, n, hc, _ => by simp only [updDictLoop]; exact hc
  | (k, v) :: rest, cur, n, hc, hd => by
    simp only [Tr.wfKV, Bool.and_eq_true, Bool.not_eq_true'] at hd
    simp only [updDictLoop]
    split
    · next hlook =>
      split
      · exact hc
      · have hk : Tr.hasKey k cur = false := by simp [Tr.hasKey, hlook]
        exact updDictLoop_wf fam rest _ _ (wfKV_append cur k _ hc hk (wf_fromBase v n hd.1.2)) hd.2
    · next existing hlook =>
      have hex := wf_of_lookup hc hlook
      have hs := elemStep_wf (verr := validateKV fam.dictV [(k, v)]) (n := n) hex hd.1.2
        (updNode_wf fam v existing n hex hd.1.2)
      have hc' := wfKV_setKey cur k _ hc hs
      split
      · exact hc'
      · exact updDictLoop_wf fam rest _ _ hc' hd.2
theorem updListLoop_wf (fam : Fam) : ∀ (data : List (Tr ι)) (cur : List T) (n : Nat),
    Tr.wfL cur = true → Tr.wfL data = true → Tr.wfL (updListLoop fam cur data n).val = true
  | [], [], n, _, _ => by simp [updListLoop, Tr.wfL]
  | [], c :: cs, n, _, _ => by simp [updListLoop, Tr.wfL]
  | d :: ds, [], n, _, hd => by
    simp only [updListLoop]
    split
    · simp [Tr.wfL]
    · exact wfL_fromBaseL (d :: ds) n hd
  | d :: ds, c :: cs, n, hc, hd => by
    simp only [Tr.wfL, Bool.and_eq_true] at hc hd
    have hs := elemStep_wf (verr := validate fam.listV d) (n := n) hc.1 hd.1 (updNode_wf fam d c n hc.1 hd.1)
    simp only [updListLoop]
    split
    · simp only [Tr.wfL, Bool.and_eq_true]; exact ⟨hs, hc.2⟩
    · simp only [Tr.wfL, Bool.and_eq_true]
      exact ⟨hs, updListLoop_wf fam ds cs _ hc.2 hd.2⟩
end

/-! ### operation bodies -/

/-- the data an operation brings in has no duplicate keys (automatic for Python values) -/
def Op.argsWf : Op → Bool
  | .dSetitem _ v => v.wf
  | .dSetdefault _ d => d.wf
  | .dUpdate other kw => other.all (fun kv => kv.2.wf) && kw.all (fun kv => kv.2.wf)
  | .dReset v => v.wf
  | .lSetitem _ v => v.wf
  | .lInsert _ v => v.wf
  | .lAppend v => v.wf
  | .lExtend v => v.wf
  | .lIadd v => v.wf
  | .lReset v => v.wf
  | _ => true

theorem dictMut_wf (kvs : List (Key × T)) (m : DictMut T) (r : BodyRes (List (Key × T)) Nat)
    (h : dictMut kvs m = .ok r) (hk : Tr.wfKV kvs = true) (hnew : ∀ kv ∈ DictMut.news m, kv.2.wf = true) :
    Tr.wfKV r.data = true := by
  cases m with
  | setitem k v =>
    simp only [dictMut] at h; cases h
    exact gwfKV_setKey kvs k v hk (hnew (k, v) (by simp [DictMut.news]))
  | delitem k =>
    simp only [dictMut] at h
    split at h
    · cases h
    · cases h; exact wfKV_delKey k kvs hk
  | pop k d =>
    simp only [dictMut] at h
    split at h
    · cases h; exact hk
    · cases h; exact wfKV_delKey k kvs hk
  | popitem =>
    simp only [dictMut] at h
    split at h
    · cases h
    · cases h; exact wfKV_sublist (List.dropLast_sublist kvs) hk
  | clear => simp only [dictMut] at h; cases h; rfl

theorem listMut_wf (xs : List T) (m : ListMut T) (r : BodyRes (List T) Nat)
    (h : listMut xs m = .ok r) (hk : Tr.wfL xs = true) (hnew : ∀ x ∈ ListMut.news m, x.wf = true) :
    Tr.wfL r.data = true := by
  rw [wfL_iff] at hk ⊢
  intro x hx
  rcases List.mem_append.mp ((listMut_subp xs m r h).subset x hx) with hm | hm
  · exact hk x hm
  · exact hnew x hm

theorem dmutRes_wf (i : Nat) (kvs : List (Key × T)) (m : DictMut T) (n : Nat) (hk : Tr.wfKV kvs = true)
    (hnew : ∀ kv ∈ DictMut.news m, kv.2.wf = true) : (dmutRes (.dict i kvs) i kvs m n).node.wf = true := by
  unfold dmutRes
  cases h : dictMut kvs m with
  | error e => simpa [Tr.wf] using hk
  | ok r => simp only [Tr.wf]; exact dictMut_wf kvs m r h hk hnew

theorem lmutRes_wf (i : Nat) (xs : List T) (m : ListMut T) (n : Nat) (hk : Tr.wfL xs = true)
    (hnew : ∀ x ∈ ListMut.news m, x.wf = true) : (lmutRes (.list i xs) i xs m n).node.wf = true := by
  unfold lmutRes
  cases h : listMut xs m with
  | error e => simpa [Tr.wf] using hk
  | ok r => simp only [Tr.wf]; exact listMut_wf xs m r h hk hnew

theorem iterate_wf (t : Tr ι) (vs : List (Tr ι)) (ht : t.wf = true) (h : iterate t = .ok vs) :
    ∀ x ∈ vs, x.wf = true := by
  cases t with
  | list i xs =>
    simp only [iterate, Except.ok.injEq] at h; subst h
    exact wfL_iff.mp (by simpa [Tr.wf] using ht)
  | dict i kvs =>
    simp only [iterate, Except.ok.injEq] at h; subst h
    intro x hx
    obtain ⟨kv, _, rfl⟩ := List.mem_map.mp hx
    split <;> rfl
  | leaf s =>
    cases s
    case str st =>
      simp only [iterate, Except.ok.injEq] at h; subst h
      intro x hx
      obtain ⟨c, _, rfl⟩ := List.mem_map.mp hx
      rfl
    all_goals simp [iterate] at h

/-! #### the argument of `update` -/

theorem foldl_setKey_wf : ∀ (l : List (Key × J)) (acc : List (Key × J)), Tr.wfKV acc = true →
    (∀ kv ∈ l, kv.2.wf = true) →
    Tr.wfKV (l.foldl (fun acc kv => Tr.setKey kv.1 kv.2 acc) acc) = true
  | [], acc, h, _ => h
  | kv :: l, acc, h, hl => by
    simp only [List.foldl]
    exact foldl_setKey_wf l _ (gwfKV_setKey acc kv.1 kv.2 h (hl kv (by simp)))
      (fun x hx => hl x (List.mem_cons_of_mem _ hx))

theorem gwfKV_append : ∀ (a b : List (Key × Tr ι)), Tr.wfKV a = true → Tr.wfKV b = true →
    (∀ kv ∈ a, Tr.hasKey kv.1 b = false) → Tr.wfKV (a ++ b) = true
  | [], b, _, hb, _ => hb
  | (k, v) :: a, b, ha, hb, hd => by
    simp only [Tr.wfKV, Bool.and_eq_true, Bool.not_eq_true'] at ha
    simp only [List.cons_append, Tr.wfKV, Bool.and_eq_true, Bool.not_eq_true']
    refine ⟨⟨?_, ha.1.2⟩, gwfKV_append a b ha.2 hb (fun kv hkv => hd kv (List.mem_cons_of_mem _ hkv))⟩
    rw [hasKey_append, ha.1.1, hd (k, v) (by simp)]
    rfl

theorem gwfKV_filter (p : Key × Tr ι → Bool) (kvs : List (Key × Tr ι)) (h : Tr.wfKV kvs = true) :
    Tr.wfKV (kvs.filter p) = true := wfKV_sublist List.filter_sublist h

theorem overrideOrder_wf (cur : List (Key × T)) (m : List (Key × J)) (hc : Tr.wfKV cur = true)
    (hm : Tr.wfKV m = true) : Tr.wfKV (overrideOrder cur m) = true := by
  unfold overrideOrder
  have hmv := wf_values_of_wfKV hm
  -- keys of the first part are keys of `cur`
  have hkeys : ∀ (l : List (Key × T)) (k : Key), Tr.hasKey k l = false →
      Tr.hasKey k (l.filterMap (fun kv => (Tr.lookup kv.1 m).map (fun v => (kv.1, v)))) = false := by
    intro l
    induction l with
    | nil => intro k _; rfl
    | cons q qs ih =>
      obtain ⟨k', v'⟩ := q
      intro k hk
      simp only [Tr.hasKey, Tr.lookup] at hk
      by_cases hkk : k' = k
      · simp [hkk] at hk
      · simp only [hkk, if_false] at hk
        simp only [List.filterMap_cons]
        cases hl : Tr.lookup k' m with
        | none => simp only [Option.map_none]; exact ih k hk
        | some w =>
          simp only [Option.map_some, Tr.hasKey, Tr.lookup, hkk, if_false]
          exact ih k hk
  have hA : ∀ (l : List (Key × T)), Tr.wfKV l = true →
      Tr.wfKV (l.filterMap (fun kv => (Tr.lookup kv.1 m).map (fun v => (kv.1, v)))) = true := by
    intro l
    induction l with
    | nil => intro _; rfl
    | cons q qs ih =>
      obtain ⟨k', v'⟩ := q
      intro hl
      simp only [Tr.wfKV, Bool.and_eq_true, Bool.not_eq_true'] at hl
      simp only [List.filterMap_cons]
      cases hlk : Tr.lookup k' m with
      | none => simp only [Option.map_none]; exact ih hl.2
      | some w =>
        simp only [Option.map_some, Tr.wfKV, Bool.and_eq_true, Bool.not_eq_true']
        refine ⟨⟨hkeys qs k' hl.1.1, ?_⟩, ih hl.2⟩
        have hmem : (k', w) ∈ m := by
          clear hm hmv hkeys ih
          induction m with
          | nil => simp [Tr.lookup] at hlk
          | cons e es ihm =>
            obtain ⟨k2, v2⟩ := e
            simp only [Tr.lookup] at hlk
            split at hlk
            · rename_i e2; simp only [Option.some.injEq] at hlk; subst hlk; subst e2; exact List.mem_cons_self ..
            · exact List.mem_cons_of_mem _ (ihm hlk)
        exact hmv (k', w) hmem
  refine gwfKV_append _ _ (hA cur hc) (gwfKV_filter _ m hm) ?_
  intro kv hkv
  obtain ⟨src, hsrc, hmap⟩ := List.mem_filterMap.mp hkv
  cases hl : Tr.lookup src.1 m with
  | none => simp [hl] at hmap
  | some w =>
    simp only [hl, Option.map_some, Option.some.injEq] at hmap
    subst hmap
    -- the key is a key of `cur`, so the second part (keys not in `cur`) does not have it
    have hin : Tr.hasKey src.1 cur = true := by
      rw [hasKey_iff_lookup]
      exact ⟨src.2, lookup_of_mem hc src hsrc⟩
    simp only
    clear hkv hl hA hkeys hmv hm
    induction m with
    | nil => rfl
    | cons e es ihm =>
      obtain ⟨k2, v2⟩ := e
      simp only [List.filter_cons]
      split
      · rename_i hp
        simp only [Tr.hasKey, Tr.lookup]
        by_cases hk2 : k2 = src.1
        · subst hk2; simp [hin] at hp
        · simp only [hk2, if_false]; exact ihm
      · exact ihm

/-- EVERY OPERATION BODY keeps keys unique -/
theorem runBody_wf (fam : Fam) (t : T) (op : Op) (n : Nat) (ht : t.wf = true) (ha : Op.argsWf op = true) :
    (runBody fam t op n).node.wf = true := by
  cases t with
  | leaf s => cases op <;> exact ht
  | dict i kvs =>
    have hk : Tr.wfKV kvs = true := by simpa [Tr.wf] using ht
    cases op with
    | dSetitem k v =>
      simp only [runBody]
      refine dmutRes_wf i kvs _ _ hk ?_
      intro kv hkv
      simp only [DictMut.news, List.mem_singleton] at hkv; subst hkv
      exact wf_fromBase v n (by simpa [Op.argsWf] using ha)
    | dDelitem k => simp only [runBody]; exact dmutRes_wf i kvs _ _ hk (by simp [DictMut.news])
    | dPop k d => simp only [runBody]; exact dmutRes_wf i kvs _ _ hk (by simp [DictMut.news])
    | dPopitem => simp only [runBody]; exact dmutRes_wf i kvs _ _ hk (by simp [DictMut.news])
    | dClear => simp only [runBody]; exact dmutRes_wf i kvs _ _ hk (by simp [DictMut.news])
    | dSetdefault k d =>
      simp only [runBody]
      split
      · exact ht
      · split
        · exact ht
        · simp only [Tr.wf]
          exact gwfKV_setKey kvs k _ hk (wf_fromBase d n (by simpa [Op.argsWf] using ha))
    | dUpdate other kw =>
      simp only [runBody, Tr.wf]
      simp only [Op.argsWf, Bool.and_eq_true, List.all_eq_true] at ha
      refine updDictLoop_wf fam _ kvs n hk (overrideOrder_wf kvs _ hk ?_)
      exact foldl_setKey_wf kw _ (foldl_setKey_wf other [] rfl ha.1) ha.2
    | dReset v =>
      simp only [runBody]
      exact updNode_wf fam v _ n ht (by simpa [Op.argsWf] using ha)
    | dRead rd => simp only [runBody]; split <;> exact ht
    | _ => exact ht
  | list i xs =>
    have hk : Tr.wfL xs = true := by simpa [Tr.wf] using ht
    have hone : ∀ v : J, v.wf = true → ∀ x ∈ [(fromBase v n).1], x.wf = true := by
      intro v hv x hx
      simp only [List.mem_singleton] at hx; subst hx; exact wf_fromBase v n hv
    cases op with
    | lSetitem ix v =>
      have hv : v.wf = true := by simpa [Op.argsWf] using ha
      cases ix with
      | i j => simp only [runBody]; exact lmutRes_wf i xs _ _ hk (hone v hv)
      | sl sl =>
        simp only [runBody]
        cases hit : iterate (fromBase v n).1 with
        | error e => exact ht
        | ok vs =>
          simp only
          exact lmutRes_wf i xs _ _ hk (iterate_wf _ vs (wf_fromBase v n hv) hit)
    | lDelitem ix => simp only [runBody]; exact lmutRes_wf i xs _ _ hk (by simp [ListMut.news])
    | lInsert j v =>
      simp only [runBody]; exact lmutRes_wf i xs _ _ hk (hone v (by simpa [Op.argsWf] using ha))
    | lAppend v =>
      simp only [runBody]; exact lmutRes_wf i xs _ _ hk (hone v (by simpa [Op.argsWf] using ha))
    | lExtend v =>
      have hv : v.wf = true := by simpa [Op.argsWf] using ha
      simp only [runBody]
      cases hit : iterate v with
      | error e => exact ht
      | ok vs =>
        simp only
        exact lmutRes_wf i xs _ _ hk (wfL_iff.mp (wfL_fromBaseL vs n (wfL_iff.mpr (iterate_wf v vs hv hit))))
    | lIadd v =>
      have hv : v.wf = true := by simpa [Op.argsWf] using ha
      simp only [runBody]
      cases hit : iterate v with
      | error e => exact ht
      | ok vs =>
        simp only
        exact lmutRes_wf i xs _ _ hk (wfL_iff.mp (wfL_fromBaseL vs n (wfL_iff.mpr (iterate_wf v vs hv hit))))
    | lRemove v => simp only [runBody]; exact lmutRes_wf i xs _ _ hk (by simp [ListMut.news])
    | lClear => simp only [runBody]; exact lmutRes_wf i xs _ _ hk (by simp [ListMut.news])
    | lPop j => simp only [runBody]; exact lmutRes_wf i xs _ _ hk (by simp [ListMut.news])
    | lReverse => simp only [runBody]; exact lmutRes_wf i xs _ _ hk (by simp [ListMut.news])
    | lReset v =>
      simp only [runBody]
      exact updNode_wf fam v _ n ht (by simpa [Op.argsWf] using ha)
    | lRead rd => simp only [runBody]; split <;> exact ht
    | _ => exact ht

/-! ### find / replace / forgetting identities -/

mutual
theorem find_wf (h : Nat) : ∀ (t c : T), t.wf = true → Tr.find h t = some c → c.wf = true
  | .leaf _, _, _, hf => by simp [Tr.find] at hf
  | .list i xs, c, ht, hf => by
    simp only [Tr.find] at hf
    split at hf
    · simp only [Option.some.injEq] at hf; subst hf; exact ht
    · exact findL_wf h xs c (by simpa [Tr.wf] using ht) hf
  | .dict i kvs, c, ht, hf => by
    simp only [Tr.find] at hf
    split at hf
    · simp only [Option.some.injEq] at hf; subst hf; exact ht
    · exact findKV_wf h kvs c (by simpa [Tr.wf] using ht) hf
theorem findL_wf (h : Nat) : ∀ (xs : List T) (c : T), Tr.wfL xs = true → Tr.findL h xs = some c → c.wf = true
  | [], _, _, hf => by simp [Tr.findL] at hf
  | x :: xs, c, ht, hf => by
    simp only [Tr.wfL, Bool.and_eq_true] at ht
    simp only [Tr.findL] at hf
    cases hx : Tr.find h x with
    | some t => rw [hx] at hf; simp only [Option.some.injEq] at hf; subst hf; exact find_wf h x t ht.1 hx
    | none => rw [hx] at hf; exact findL_wf h xs c ht.2 hf
theorem findKV_wf (h : Nat) : ∀ (kvs : List (Key × T)) (c : T), Tr.wfKV kvs = true →
    Tr.findKV h kvs = some c → c.wf = true
  | [], _, _, hf => by simp [Tr.findKV] at hf
  | (k, v) :: kvs, c, ht, hf => by
    simp only [Tr.wfKV, Bool.and_eq_true] at ht
    simp only [Tr.findKV] at hf
    cases hx : Tr.find h v with
    | some t => rw [hx] at hf; simp only [Option.some.injEq] at hf; subst hf; exact find_wf h v t ht.1.2 hx
    | none => rw [hx] at hf; exact findKV_wf h kvs c ht.2 hf
end

theorem hasKey_replaceKV (h : Nat) (new : T) (k : Key) : ∀ (kvs : List (Key × T)),
    Tr.hasKey k (Tr.replaceKV h new kvs) = Tr.hasKey k kvs
  | [] => rfl
  | (k', v) :: kvs => by
    simp only [Tr.replaceKV, Tr.hasKey, Tr.lookup]
    split
    · rfl
    · exact hasKey_replaceKV h new k kvs

mutual
theorem replace_wf (h : Nat) (new : T) (hn : new.wf = true) : ∀ (t : T), t.wf = true →
    (Tr.replace h new t).wf = true
  | .leaf _, ht => ht
  | .list i xs, ht => by
    simp only [Tr.replace]
    split
    · exact hn
    · simp only [Tr.wf]; exact replaceL_wf h new hn xs (by simpa [Tr.wf] using ht)
  | .dict i kvs, ht => by
    simp only [Tr.replace]
    split
    · exact hn
    · simp only [Tr.wf]; exact replaceKV_wf h new hn kvs (by simpa [Tr.wf] using ht)
theorem replaceL_wf (h : Nat) (new : T) (hn : new.wf = true) : ∀ (xs : List T), Tr.wfL xs = true →
    Tr.wfL (Tr.replaceL h new xs) = true
  | [], _ => rfl
  | x :: xs, ht => by
    simp only [Tr.wfL, Bool.and_eq_true] at ht
    simp only [Tr.replaceL, Tr.wfL, Bool.and_eq_true]
    exact ⟨replace_wf h new hn x ht.1, replaceL_wf h new hn xs ht.2⟩
theorem replaceKV_wf (h : Nat) (new : T) (hn : new.wf = true) : ∀ (kvs : List (Key × T)), Tr.wfKV kvs = true →
    Tr.wfKV (Tr.replaceKV h new kvs) = true
  | [], _ => rfl
  | (k, v) :: kvs, ht => by
    simp only [Tr.wfKV, Bool.and_eq_true, Bool.not_eq_true'] at ht
    simp only [Tr.replaceKV, Tr.wfKV, Bool.and_eq_true, Bool.not_eq_true']
    exact ⟨⟨by rw [hasKey_replaceKV]; exact ht.1.1, replace_wf h new hn v ht.1.2⟩, replaceKV_wf h new hn kvs ht.2⟩
end

mutual
theorem wf_map {κ : Type} (f : ι → κ) : ∀ (t : Tr ι), (t.map f).wf = t.wf
  | .leaf _ => rfl
  | .list i xs => by simp only [Tr.map, Tr.wf]; exact wfL_map f xs
  | .dict i kvs => by simp only [Tr.map, Tr.wf]; exact wfKV_map f kvs
theorem wfL_map {κ : Type} (f : ι → κ) : ∀ (xs : List (Tr ι)), Tr.wfL (Tr.mapL f xs) = Tr.wfL xs
  | [] => rfl
  | x :: xs => by simp only [Tr.mapL, Tr.wfL, wf_map f x, wfL_map f xs]
theorem wfKV_map {κ : Type} (f : ι → κ) : ∀ (kvs : List (Key × Tr ι)), Tr.wfKV (Tr.mapKV f kvs) = Tr.wfKV kvs
  | [] => rfl
  | (k, v) :: kvs => by simp only [Tr.mapKV, Tr.wfKV, hasKey_mapKV, wf_map f v, wfKV_map f kvs]
end

/-! ### the invariant of states -/

/-- no duplicate keys anywhere: in the objects' trees and in the backends -/
structure WfOK (s : State) : Prop where
  objs : ∀ o ∈ s.objs, o.root.wf = true
  stores : ∀ p ∈ s.stores, p.2.wf = true

theorem store_wf {s : State} (h : WfOK s) {r : Nat} {d : J} (hs : s.store r = some d) : d.wf = true := by
  unfold State.store at hs
  cases hf : s.stores.find? (·.1 = r) with
  | none => simp [hf] at hs
  | some p =>
    simp only [hf, Option.map_some, Option.some.injEq] at hs
    subst hs
    exact h.stores p (List.mem_of_find?_eq_some hf)

theorem WfOK.congr {s s' : State} (h : WfOK s) (ho : s'.objs = s.objs) (hs : s'.stores = s.stores) : WfOK s' :=
  ⟨by rw [ho]; exact h.objs, by rw [hs]; exact h.stores⟩

theorem WfOK.set {s s' : State} (h : WfOK s) (oi : Nat) (o : Obj) (new : T) (hn : new.wf = true)
    (ho : s'.objs = s.objs.set oi { o with root := new }) (hs : s'.stores = s.stores) : WfOK s' := by
  refine ⟨?_, by rw [hs]; exact h.stores⟩
  rw [ho]
  intro x hx
  rcases List.mem_or_eq_of_mem_set hx with hm | rfl
  · exact h.objs x hm
  · exact hn

theorem stores_addDetached (s : State) (oi : Nat) (ts : List T) : (s.addDetached oi ts).stores = s.stores := rfl
theorem objs_addDetached (s : State) (oi : Nat) (ts : List T) : (s.addDetached oi ts).objs = s.objs := rfl

theorem loadRoot_wfOK (s : State) (oi : Nat) (h : WfOK s) : WfOK (loadRoot s oi).1 := by
  cases ho : s.objs[oi]? with
  | none => unfold loadRoot; simp only [ho]; exact h
  | some o =>
    cases hst : s.store o.res with
    | none => unfold loadRoot; simp only [ho, hst]; exact h
    | some d =>
      have hroot : o.root.wf = true := h.objs o (List.mem_of_getElem? ho)
      refine h.set oi o _ (updNode_wf (s.fam o) d o.root s.next hroot (store_wf h hst)) ?_ (loadRoot_stores s oi)
      rw [loadRoot_eq s oi o d ho hst]
      show ((State.own _ _ _ _).objs) = _
      rw [objs_own]
      rfl

theorem loadFor_wfOK (s : State) (oi : Nat) (b : Bool) (op : Op) (h : WfOK s) : WfOK (loadFor s oi b op).1 := by
  unfold loadFor
  split
  · exact h
  · exact loadRoot_wfOK s oi h

theorem findSome_wf (id : Nat) : ∀ (objs : List Obj) (c : T), (∀ o ∈ objs, o.root.wf = true) →
    objs.findSome? (fun o => Tr.find id o.root) = some c → c.wf = true
  | [], _, _, h => by simp at h
  | x :: xs, c, hw, hf => by
    simp only [List.findSome?] at hf
    cases hx : Tr.find id x.root with
    | some t =>
      rw [hx] at hf; simp only [Option.some.injEq] at hf; subst hf
      exact find_wf id x.root t (hw x (by simp)) hx
    | none =>
      rw [hx] at hf
      exact findSome_wf id xs c (fun o ho => hw o (List.mem_cons_of_mem _ ho)) hf

theorem applyBody_wfOK (fam : Fam) (s1 : State) (h : Handle) (oi : Nat) (t : T) (op : Op) (hok : WfOK s1)
    (ha : Op.argsWf op = true) (hnode : handleNode s1 h = some t) :
    WfOK (applyBody s1 h oi (runBody fam t op s1.next)) := by
  cases h with
  | root o' =>
    simp only [handleNode] at hnode
    cases hob : s1.objs[o']? with
    | none => simp [hob] at hnode
    | some ob =>
      simp only [hob, Option.map_some, Option.some.injEq] at hnode
      subst hnode
      have hroot : ob.root.wf = true := hok.objs ob (List.mem_of_getElem? hob)
      refine hok.set o' ob _ (runBody_wf fam ob.root op s1.next hroot ha) ?_ (applyBody_stores _ _ _ _)
      rw [applyBody_objs]
      simp only [putNode, hob]
      rfl
  | node id =>
    simp only [handleNode, findNode] at hnode
    refine ⟨?_, by rw [applyBody_stores]; exact hok.stores⟩
    rw [applyBody_objs]
    simp only [putNode, replaceNode]
    cases hfs : s1.objs.findSome? (fun o => Tr.find id o.root) with
    | some c =>
      rw [hfs] at hnode
      simp only [Option.some.injEq] at hnode
      subst hnode
      have hc := findSome_wf id s1.objs c hok.objs hfs
      have hnew := runBody_wf fam c op s1.next hc ha
      intro x hx
      obtain ⟨o, ho, rfl⟩ := List.mem_map.mp hx
      exact replace_wf id _ hnew o.root (hok.objs o ho)
    | none =>
      rw [map_replace_of_not_mem id _ s1.objs (not_mem_flat_of_findSome_none id s1.objs hfs)]
      exact hok.objs

theorem saveRoot_wfOK (s : State) (oi : Nat) (h : WfOK s) : WfOK (saveRoot s oi) := by
  unfold saveRoot
  cases ho : s.objs[oi]? with
  | none => exact h
  | some o =>
    simp only
    refine ⟨h.objs, ?_⟩
    intro p hp
    simp only [State.setStore, List.mem_cons, List.mem_filter] at hp
    rcases hp with rfl | hp
    · simp only [Tr.toBase, wf_map]
      exact h.objs o (List.mem_of_getElem? ho)
    · exact h.stores p hp.1

/-- EVERY PUBLIC CALL with duplicate-free arguments keeps keys unique everywhere -/
theorem call_wfOK (s : State) (h : Handle) (op : Op) (hok : WfOK s) (ha : Op.argsWf op = true) :
    WfOK (call s h op).1 := by
  unfold call
  split
  · rename_i oi isRoot t0 _ _
    split
    · exact hok
    · rename_i o _
      unfold callOn
      split
      · exact hok
      · have hls := loadFor_wfOK s oi isRoot op hok
        dsimp only
        split
        · exact hls
        · split
          · exact hls
          · rename_i t hnode
            have := applyBody_wfOK (s.fam o) (loadFor s oi isRoot op).1 h oi t op hls ha hnode
            unfold finishCall
            simp only
            split <;> split <;> first
              | exact this
              | exact saveRoot_wfOK _ _ this
  · exact hok

theorem openObj_wfOK (s : State) (fam : Nat) (isDict : Bool) (res : Nat) (data : Option J) (hok : WfOK s)
    (hd : ∀ d, data = some d → d.wf = true) : WfOK (openObj s fam isDict res data).1 := by
  have key : ∀ (root : T) (m : Nat), root.wf = true →
      WfOK (({ s with objs := s.objs ++ [(⟨fam, isDict, res, root⟩ : Obj)] } : State).own s.objs.length s.next m) := by
    intro root m hr
    refine ⟨?_, by rw [stores_own]; exact hok.stores⟩
    rw [objs_own]
    intro o ho
    change o ∈ s.objs ++ [_] at ho
    rcases List.mem_append.mp ho with h | h
    · exact hok.objs o h
    · simp only [List.mem_singleton] at h; subst h; exact hr
  unfold openObj
  cases data with
  | none =>
    simp only
    refine key _ _ ?_
    split <;> rfl
  | some d =>
    simp only
    split
    · exact hok
    · split
      · exact hok
      · exact key _ _ (wf_fromBase d s.next (hd d rfl))

theorem extWrite_wfOK (s : State) (res : Nat) (d : J) (hok : WfOK s) (hd : d.wf = true) :
    WfOK (extWrite s res d) := by
  refine ⟨hok.objs, ?_⟩
  intro p hp
  simp only [extWrite, State.setStore, List.mem_cons, List.mem_filter] at hp
  rcases hp with rfl | hp
  · exact hd
  · exact hok.stores p hp.1

theorem empty_wfOK (fams : List Fam) : WfOK (State.empty fams) :=
  ⟨by simp [State.empty], by simp [State.empty]⟩

/-- the data a step brings in from outside has no duplicate keys -/
def SStep.argsWf : SStep → Bool
  | .call _ op => Op.argsWf op
  | .openObj _ _ data => match data with
    | some d => d.wf
    | none => true
  | .ext _ d => d.wf

theorem srun_wfOK : ∀ (history : List SStep) (s : State), WfOK s → (∀ st ∈ history, SStep.argsWf st = true) →
    WfOK (srun s history)
  | [], _, h, _ => h
  | st :: rest, s, h, ha => by
    have hst := ha st (by simp)
    have hstep : WfOK (sstep s st) := by
      cases st with
      | call hd op => exact call_wfOK s hd op h hst
      | openObj d r data =>
        refine openObj_wfOK s 0 d r data h ?_
        intro x hx; subst hx; exact hst
      | ext r d => exact extWrite_wfOK s r d h hst
    exact srun_wfOK rest (sstep s st) hstep (fun x hx => ha x (List.mem_cons_of_mem _ hx))

end SC
