/-
C15 — the size-accounting invariant of the buffer machine.
`size = Σ weight(entry)` with weight = encoded length (serialized) or 1 per modified
entry (shared memory), and entry keys are unique.
-/
import SC.Lemmas.Buffer
namespace SC.B
open SC

def weight (st : Buffering) (fl : List ((Int × Nat) × Nat)) (e : Entry) : Nat :=
  match st with
  | .serialized => encLen fl e.contents
  | .sharedMemory => if e.modified then 1 else 0
  | .none => 0

def measure (st : Buffering) (fl : List ((Int × Nat) × Nat)) : List (Nat × Entry) → Nat
  | [] => 0
  | p :: ps => weight st fl p.2 + measure st fl ps

def KeysNodup (es : List (Nat × Entry)) : Prop := (es.map (·.1)).Nodup

/-- the invariant: the reported size is exactly the sum of the weights of the buffered files -/
def SizeOK (s : State) : Prop :=
  KeysNodup s.entries ∧ s.size = measure s.strategy s.flen s.entries

variable (st : Buffering) (fl : List ((Int × Nat) × Nat))

theorem measure_append (a b : List (Nat × Entry)) :
    measure st fl (a ++ b) = measure st fl a + measure st fl b := by
  induction a with
  | nil => simp [measure]
  | cons p ps ih => simp [measure, ih, Nat.add_assoc]

theorem find_none_of_not_mem {es : List (Nat × Entry)} {r : Nat}
    (h : r ∉ es.map (·.1)) : es.find? (·.1 = r) = none := by
  induction es with
  | nil => rfl
  | cons p ps ih =>
    simp only [List.map_cons, List.mem_cons, not_or] at h
    simp only [List.find?_cons]
    have : decide (p.1 = r) = false := by simp; exact fun e => h.1 e.symm
    rw [this]; exact ih h.2

theorem filter_ne_of_not_mem {es : List (Nat × Entry)} {r : Nat}
    (h : r ∉ es.map (·.1)) : es.filter (·.1 ≠ r) = es := by
  induction es with
  | nil => rfl
  | cons p ps ih =>
    simp only [List.map_cons, List.mem_cons, not_or] at h
    have : decide (p.1 ≠ r) = true := by simp; exact fun e => h.1 e.symm
    simp only [List.filter_cons, this, if_true, ih h.2]

/-- removing the (unique) entry of `r` lowers the measure by exactly its weight -/
theorem measure_filter {es : List (Nat × Entry)} {r : Nat} {e : Entry}
    (hn : KeysNodup es) (hf : (es.find? (·.1 = r)).map (·.2) = some e) :
    measure st fl es = weight st fl e + measure st fl (es.filter (·.1 ≠ r)) := by
  induction es with
  | nil => simp at hf
  | cons p ps ih =>
    simp only [KeysNodup, List.map_cons, List.nodup_cons] at hn
    by_cases hp : p.1 = r
    · have : decide (p.1 = r) = true := by simp [hp]
      simp only [List.find?_cons, this, Option.map_some, Option.some.injEq] at hf
      have hd : decide (p.1 ≠ r) = false := by simp [hp]
      have hnot : r ∉ ps.map (·.1) := hp ▸ hn.1
      simp only [List.filter_cons, hd, filter_ne_of_not_mem hnot, measure, hf]
      simp
    · have : decide (p.1 = r) = false := by simp [hp]
      simp only [List.find?_cons, this] at hf
      have hd : decide (p.1 ≠ r) = true := by simp [hp]
      simp only [List.filter_cons, hd, if_true, measure]
      rw [ih hn.2 hf]; omega

theorem nodup_filter {es : List (Nat × Entry)} (hn : KeysNodup es) (p : Nat × Entry → Bool) :
    KeysNodup (es.filter p) := by
  unfold KeysNodup at *
  exact List.Nodup.sublist (List.Sublist.map _ List.filter_sublist) hn

/-- replacing the entry of a present key `r` (keys stay the same) -/
theorem map_replace_keys (es : List (Nat × Entry)) (r : Nat) (e : Entry) :
    (es.map (fun p => if p.1 = r then (r, e) else p)).map (·.1) = es.map (·.1) := by
  induction es with
  | nil => rfl
  | cons p ps ih =>
    simp only [List.map_cons, ih]
    by_cases hp : p.1 = r <;> simp [hp]

theorem measure_replace {es : List (Nat × Entry)} {r : Nat} {e0 : Entry} (e : Entry)
    (hn : KeysNodup es) (hf : (es.find? (·.1 = r)).map (·.2) = some e0) :
    measure st fl (es.map (fun p => if p.1 = r then (r, e) else p)) + weight st fl e0
      = measure st fl es + weight st fl e := by
  induction es with
  | nil => simp at hf
  | cons p ps ih =>
    simp only [KeysNodup, List.map_cons, List.nodup_cons] at hn
    by_cases hp : p.1 = r
    · have : decide (p.1 = r) = true := by simp [hp]
      simp only [List.find?_cons, this, Option.map_some, Option.some.injEq] at hf
      have hnot : r ∉ ps.map (·.1) := hp ▸ hn.1
      have hid : ps.map (fun p => if p.1 = r then (r, e) else p) = ps := by
        clear ih hn
        induction ps with
        | nil => rfl
        | cons q qs ihq =>
          simp only [List.map_cons, List.mem_cons, not_or] at hnot
          have : ¬ q.1 = r := fun h => hnot.1 h.symm
          simp only [List.map_cons, this, if_false, ihq hnot.2]
      simp only [List.map_cons, hp, if_true, hid, measure, hf]
      omega
    · have : decide (p.1 = r) = false := by simp [hp]
      simp only [List.find?_cons, this] at hf
      simp only [List.map_cons, hp, if_false, measure]
      have := ih hn.2 hf
      omega


/-! ### lifting to states -/

/-- `s'` has the same buffer bookkeeping as `s` (disk and memory may differ) -/
def SameBook (s s' : State) : Prop :=
  s'.entries = s.entries ∧ s'.size = s.size ∧ s'.strategy = s.strategy ∧ s'.flen = s.flen

theorem SameBook.refl (s : State) : SameBook s s := ⟨rfl, rfl, rfl, rfl⟩
theorem SameBook.trans {a b c : State} (h1 : SameBook a b) (h2 : SameBook b c) : SameBook a c :=
  ⟨h2.1.trans h1.1, h2.2.1.trans h1.2.1, h2.2.2.1.trans h1.2.2.1, h2.2.2.2.trans h1.2.2.2⟩
theorem SameBook.of_core {s s' : State} (h : s'.core = s.core) : SameBook s s' := by
  have := core_eq h
  exact ⟨this.2.2.2.1, this.2.2.2.2.1, this.2.2.2.2.2.2.2.2.2.1, this.2.2.2.2.2.2.2.2.2.2⟩
theorem SameBook.sizeOK {s s' : State} (h : SameBook s s') (hs : SizeOK s) : SizeOK s' := by
  unfold SizeOK at *
  rw [h.1, h.2.1, h.2.2.1, h.2.2.2]; exact hs

theorem sameBook_mergeInto (s : State) (oi : Nat) (o : Obj) (d : J) :
    SameBook s (mergeInto s oi o d).1 := SameBook.of_core (mergeInto_core s oi o d)
theorem sameBook_writeFile (s : State) (r : Nat) (d : J) : SameBook s (s.writeFile r d) :=
  ⟨rfl, rfl, rfl, rfl⟩
theorem sameBook_saveToResource (s : State) (o : Obj) : SameBook s (saveToResource s o) :=
  sameBook_writeFile _ _ _
theorem sameBook_trySave (s : State) (o : Obj) : SameBook s (trySave s o).1 := by
  unfold trySave; split
  · exact SameBook.refl s
  · exact sameBook_saveToResource s o
theorem sameBook_setObj (s : State) (i : Nat) (o : Obj) : SameBook s (s.setObj i o) :=
  ⟨rfl, rfl, rfl, rfl⟩
theorem sameBook_setCell (s : State) (i : Nat) (t : T) : SameBook s (s.setCell i t) :=
  ⟨rfl, rfl, rfl, rfl⟩
theorem sameBook_own (s : State) (a b c : Nat) : SameBook s (s.own a b c) := by
  unfold State.own; split <;> exact ⟨rfl, rfl, rfl, rfl⟩
theorem sameBook_addDetached (s : State) (i : Nat) (ts : List T) : SameBook s (s.addDetached i ts) :=
  ⟨rfl, rfl, rfl, rfl⟩
theorem sameBook_register (s : State) (i : Nat) : SameBook s (s.register i) := by
  unfold State.register; split <;> exact ⟨rfl, rfl, rfl, rfl⟩

/-- dropping the entry of `r` and lowering the size by its weight keeps the invariant -/
theorem sizeOK_del {s s' : State} {r : Nat} {e : Entry} (h : SizeOK s) (he : s.entry r = some e)
    (hb : SameBook s s') (w : Nat) (hw : w = weight s.strategy s.flen e) :
    SizeOK { (s'.delEntry r) with size := s'.size - w } := by
  obtain ⟨hn, hsz⟩ := h
  obtain ⟨b1, b2, b3, b4⟩ := hb
  refine ⟨?_, ?_⟩
  · show KeysNodup (s'.entries.filter (·.1 ≠ r))
    rw [b1]; exact nodup_filter hn _
  · show s'.size - w = measure s'.strategy s'.flen (s'.entries.filter (·.1 ≠ r))
    rw [b1, b2, b3, b4, hsz, hw, measure_filter _ _ hn he]; omega

/-- putting a new entry for an absent key -/
theorem sizeOK_add {s s' : State} {r : Nat} (e : Entry) (h : SizeOK s) (he : s.entry r = none)
    (hb : SameBook s s') (w : Nat) (hw : w = weight s.strategy s.flen e) :
    SizeOK { (s'.setEntry r e) with size := s'.size + w } := by
  obtain ⟨hn, hsz⟩ := h
  obtain ⟨b1, b2, b3, b4⟩ := hb
  have hnone : s.entries.find? (·.1 = r) = none := by
    simpa [State.entry] using he
  have hnot : r ∉ s.entries.map (·.1) := by
    intro hm
    obtain ⟨p, hp, hpr⟩ := List.mem_map.mp hm
    have := List.find?_eq_none.mp hnone p hp
    simp [hpr] at this
  have hany : s'.entries.any (·.1 = r) = false := by
    rw [b1]; simp only [List.any_eq_false]
    intro p hp hpr
    exact hnot (List.mem_map.mpr ⟨p, hp, by simpa using hpr⟩)
  refine ⟨?_, ?_⟩
  · show KeysNodup (if s'.entries.any (·.1 = r) then _ else s'.entries ++ [(r, e)])
    rw [hany]; simp only [Bool.false_eq_true, if_false, b1]
    unfold KeysNodup at *
    simp only [List.map_append, List.map_cons, List.map_nil]
    exact List.nodup_append.mpr ⟨hn, by simp, by
      intro a ha b hb'; simp at hb'; subst hb'; exact fun h => hnot (h ▸ ha)⟩
  · show s'.size + w = measure s'.strategy s'.flen
        (if s'.entries.any (·.1 = r) then _ else s'.entries ++ [(r, e)])
    rw [hany]; simp only [Bool.false_eq_true, if_false]
    rw [b1, b2, b3, b4, measure_append, hsz, hw]; simp [measure]

/-- replacing the entry of a present key -/
theorem sizeOK_replace {s s' : State} {r : Nat} {e0 : Entry} (e : Entry) (h : SizeOK s)
    (he : s.entry r = some e0) (hb : SameBook s s') (sz : Nat)
    (hsz' : sz + weight s.strategy s.flen e0 = s.size + weight s.strategy s.flen e) :
    SizeOK { (s'.setEntry r e) with size := sz } := by
  obtain ⟨hn, hsz⟩ := h
  obtain ⟨b1, b2, b3, b4⟩ := hb
  have hsome : (s.entries.find? (·.1 = r)).map (·.2) = some e0 := he
  have hany : s'.entries.any (·.1 = r) = true := by
    rw [b1]
    cases hf : s.entries.find? (·.1 = r) with
    | none => simp [hf] at hsome
    | some p =>
      have := List.find?_some hf
      exact List.any_eq_true.mpr ⟨p, List.mem_of_find?_eq_some hf, this⟩
  refine ⟨?_, ?_⟩
  · show KeysNodup (if s'.entries.any (·.1 = r) then _ else _)
    rw [hany]; simp only [if_true, b1]
    unfold KeysNodup at *
    rw [map_replace_keys]; exact hn
  · show sz = measure s'.strategy s'.flen (if s'.entries.any (·.1 = r) then _ else _)
    rw [hany]; simp only [if_true]
    rw [b1, b3, b4]
    have := measure_replace s.strategy s.flen e hn hsome
    omega


/-! ### every step of the machine keeps the invariant -/

/-- `s'` keeps the static parameters of `s` and the size invariant -/
def Keeps (s s' : State) : Prop :=
  s'.strategy = s.strategy ∧ s'.flen = s.flen ∧ (SizeOK s → SizeOK s')

theorem Keeps.refl (s : State) : Keeps s s := ⟨rfl, rfl, id⟩
theorem Keeps.trans {a b c : State} (h1 : Keeps a b) (h2 : Keeps b c) : Keeps a c :=
  ⟨h2.1.trans h1.1, h2.2.1.trans h1.2.1, fun h => h2.2.2 (h1.2.2 h)⟩
theorem Keeps.of_sameBook {s s' : State} (h : SameBook s s') : Keeps s s' :=
  ⟨h.2.2.1, h.2.2.2, h.sizeOK⟩

theorem keeps_del {s s' : State} {r : Nat} {e : Entry} (he : s.entry r = some e)
    (hb : SameBook s s') (w : Nat) (hw : w = weight s.strategy s.flen e) :
    Keeps s { (s'.delEntry r) with size := s'.size - w } :=
  ⟨hb.2.2.1, hb.2.2.2, fun h => sizeOK_del h he hb w hw⟩

theorem keeps_flushSer (s : State) (oi : Nat) (o : Obj) (force : Bool)
    (hs : s.strategy = .serialized) : Keeps s (flushSer s oi o force).1 := by
  unfold flushSer
  split
  · cases he : s.entry o.res with
    | none => exact Keeps.refl s
    | some e =>
      have hw : encLen s.flen e.contents = weight s.strategy s.flen e := by simp [weight, hs]
      simp only
      split
      · split
        · exact keeps_del he (SameBook.refl s) _ hw
        · cases hm : mergeInto s oi o e.contents with
          | mk s1 err =>
            have hb1 : SameBook s s1 := by have := sameBook_mergeInto s oi o e.contents; rwa [hm] at this
            cases err with
            | some er => exact keeps_del he hb1 _ hw
            | none =>
              simp only
              cases hts : trySave s1 o with
              | mk s2 werr =>
                have hb2 : SameBook s1 s2 := by have := sameBook_trySave s1 o; rwa [hts] at this
                exact keeps_del he (hb1.trans hb2) _ hw
      · exact keeps_del he (SameBook.refl s) _ hw
  · exact Keeps.refl s


theorem size_ge_weight {s : State} {r : Nat} {e : Entry} (h : SizeOK s) (he : s.entry r = some e) :
    weight s.strategy s.flen e ≤ s.size := by
  rw [h.2, measure_filter _ _ h.1 he]; omega

theorem keeps_replace {s s' : State} {r : Nat} {e0 : Entry} (e : Entry)
    (he : s.entry r = some e0) (hb : SameBook s s') (sz : Nat)
    (hsz' : SizeOK s → sz + weight s.strategy s.flen e0 = s.size + weight s.strategy s.flen e) :
    Keeps s { (s'.setEntry r e) with size := sz } :=
  ⟨hb.2.2.1, hb.2.2.2, fun h => sizeOK_replace e h he hb sz (hsz' h)⟩

theorem keeps_del' {s s' X : State} {r : Nat} {e : Entry} (he : s.entry r = some e)
    (hb : SameBook s s') (w : Nat) (hw : w = weight s.strategy s.flen e)
    (h1 : X.entries = s'.entries.filter (·.1 ≠ r)) (h2 : X.size = s'.size - w)
    (h3 : X.strategy = s'.strategy) (h4 : X.flen = s'.flen) : Keeps s X :=
  (keeps_del he hb w hw).trans (Keeps.of_sameBook ⟨h1, h2, h3, h4⟩)

theorem keeps_replace' {s s' X : State} {r : Nat} {e0 : Entry} (e : Entry)
    (he : s.entry r = some e0) (hb : SameBook s s') (sz : Nat)
    (hsz' : SizeOK s → sz + weight s.strategy s.flen e0 = s.size + weight s.strategy s.flen e)
    (h1 : X.entries = (s'.setEntry r e).entries) (h2 : X.size = sz)
    (h3 : X.strategy = s'.strategy) (h4 : X.flen = s'.flen) : Keeps s X :=
  (keeps_replace e he hb sz hsz').trans (Keeps.of_sameBook ⟨h1, h2, h3, h4⟩)

theorem keeps_flushMem (s : State) (oi : Nat) (o : Obj) (force : Bool)
    (hs : s.strategy = .sharedMemory) : Keeps s (flushMem s oi o force).1 := by
  unfold flushMem
  split
  · cases he : s.entry o.res with
    | none =>
      simp only
      split
      · -- merge the file content in place
        split
        · exact Keeps.refl s
        · exact Keeps.of_sameBook (sameBook_mergeInto _ _ _ _)
      · exact Keeps.refl s
    | some e =>
      have hw0 : ∀ e' : Entry, weight s.strategy s.flen { e' with modified := false } = 0 := by
        intro e'; simp [weight, hs]
      cases hm : e.modified
      · -- unmodified entry: weight 0, size untouched
        have hw : 0 = weight s.strategy s.flen e := by simp [weight, hs, hm]
        simp only [hm, Bool.false_eq_true, if_false]
        cases force
        · exact keeps_del' he (SameBook.refl s) 0 hw rfl (Nat.sub_zero _).symm rfl rfl
        · exact keeps_replace' { e with modified := false } he (SameBook.refl s) s.size
            (by intro _; rw [hw0, ← hw]) rfl rfl rfl rfl
      · have hw : 1 = weight s.strategy s.flen e := by simp [weight, hs, hm]
        simp only [hm, if_true]
        split
        · cases force
          · exact keeps_del' he (SameBook.refl s) 1 hw rfl rfl rfl rfl
          · exact keeps_replace' { e with modified := false } he (SameBook.refl s) (s.size - 1)
              (by intro hok; have := size_ge_weight hok he; rw [hw0, ← hw] at *; omega) rfl rfl rfl rfl
        · cases hts : trySave (s.setObj oi { o with cell := e.cell }) { o with cell := e.cell } with
          | mk s1 werr =>
            have hb : SameBook s s1 := by
              have := (sameBook_setObj s oi { o with cell := e.cell }).trans
                (sameBook_trySave (s.setObj oi { o with cell := e.cell }) { o with cell := e.cell })
              rwa [hts] at this
            simp only
            cases werr with
            | some er =>
              simp only
              cases force
              · exact keeps_del' he hb 1 hw rfl rfl rfl rfl
              · refine keeps_replace' _ he hb (s.size - 1)
                  (by intro hok; have := size_ge_weight hok he; rw [hw0, ← hw] at *; omega) rfl ?_ rfl rfl
                show _ - 1 = s.size - 1
                rw [hb.2.1]
            | none =>
              simp only
              cases force
              · exact keeps_del' he hb 1 hw rfl rfl rfl rfl
              · refine keeps_replace' _ he hb (s.size - 1)
                  (by intro hok; have := size_ge_weight hok he; rw [hw0, ← hw] at *; omega) rfl ?_ rfl rfl
                show _ - 1 = s.size - 1
                rw [hb.2.1]
  · -- a container of its own (memory only)
    exact Keeps.of_sameBook ⟨rfl, rfl, rfl, rfl⟩


theorem keeps_flushOne (s : State) (oi : Nat) (force : Bool) : Keeps s (flushOne s oi force).1 := by
  unfold flushOne
  split
  · exact Keeps.refl s
  · split
    · rename_i h; exact keeps_flushSer s oi _ force h
    · rename_i h; exact keeps_flushMem s oi _ force h
    · exact Keeps.refl s

theorem keeps_flushBufferLoop (force retain : Bool) (order : List Nat) :
    ∀ (s : State) (remaining issues : List Nat),
      Keeps s (flushBufferLoop force retain order s remaining issues).1 := by
  induction order with
  | nil => intro s _ _; exact Keeps.refl s
  | cons oi rest ih =>
    intro s remaining issues
    unfold flushBufferLoop
    split
    · exact ih s remaining issues
    · split
      · exact ih s _ issues
      · simp only
        cases hf : flushOne s oi force with
        | mk s1 err =>
          have h1 : Keeps s s1 := by have := keeps_flushOne s oi force; rwa [hf] at this
          simp only
          split <;> exact h1.trans (ih s1 _ _)

theorem keeps_flushBuffer (s : State) (force : Bool) : Keeps s (flushBuffer s force).1 := by
  unfold flushBuffer
  simp only
  have h0 : Keeps s { s with registry := [] } := Keeps.of_sameBook ⟨rfl, rfl, rfl, rfl⟩
  have h1 := keeps_flushBufferLoop force (s.strategy == .sharedMemory) s.registry.reverse
    { s with registry := [] } [] []
  cases hl : flushBufferLoop force (s.strategy == .sharedMemory) s.registry.reverse
      { s with registry := [] } [] [] with
  | mk s1 rest =>
    rw [hl] at h1
    obtain ⟨remaining, issues⟩ := rest
    simp only
    have h2 : Keeps s1 { s1 with registry := remaining ++ s1.registry.filter (fun x => !remaining.contains x) } :=
      Keeps.of_sameBook ⟨rfl, rfl, rfl, rfl⟩
    split <;> exact (h0.trans h1).trans h2

theorem keeps_setCapacity (s : State) (n : Nat) : Keeps s (setCapacity s n).1 := by
  unfold setCapacity
  simp only
  have h0 : Keeps s { s with capacity := n } := Keeps.of_sameBook ⟨rfl, rfl, rfl, rfl⟩
  split
  · exact h0.trans (keeps_flushBuffer _ true)
  · exact h0


theorem keeps_add' {s s' X : State} {r : Nat} (e : Entry) (he : s.entry r = none)
    (hb : SameBook s s') (w : Nat) (hw : w = weight s.strategy s.flen e)
    (h1 : X.entries = (s'.setEntry r e).entries) (h2 : X.size = s'.size + w)
    (h3 : X.strategy = s'.strategy) (h4 : X.flen = s'.flen) : Keeps s X :=
  Keeps.trans (b := { (s'.setEntry r e) with size := s'.size + w })
    ⟨hb.2.2.1, hb.2.2.2, fun h => sizeOK_add e h he hb w hw⟩
    (Keeps.of_sameBook ⟨h1, h2, h3, h4⟩)

theorem entry_of_sameBook {s s' : State} (hb : SameBook s s') (r : Nat) : s'.entry r = s.entry r := by
  simp [State.entry, hb.1]

theorem keeps_ensureEntry (s : State) (oi : Nat) (o : Obj) : Keeps s (ensureEntry s oi o).1 := by
  unfold ensureEntry
  simp only
  have key : Keeps s (if (s.entry o.res).isSome = true then (s, (none : Option Err)) else
      match (match loadFromResource s o with
          | none => (s, none)
          | some d => mergeInto s oi o d) with
      | (s1, err) =>
        match err with
        | some e => (s1, some e)
        | none =>
          match s.strategy with
          | .serialized => (initEntrySer s1 o, none)
          | _ => (initEntryMem s1 o false, none)).1 := by
    split
    · exact Keeps.refl s
    · rename_i hnone
      have hnone' : s.entry o.res = none := by
        cases h : s.entry o.res <;> simp_all
      have hmerge : ∀ p : State × Option Err, SameBook s p.1 →
          Keeps s (match p with
            | (s1, err) =>
              match err with
              | some e => (s1, some e)
              | none =>
                match s.strategy with
                | .serialized => (initEntrySer s1 o, none)
                | _ => (initEntryMem s1 o false, none)).1 := by
        intro p hb
        obtain ⟨s1, err⟩ := p
        simp only at hb ⊢
        cases err with
        | some e => exact Keeps.of_sameBook hb
        | none =>
          simp only
          split
          · rename_i hs
            refine keeps_add' (s := s) (s' := s1) ⟨(s1.root o).toBase, (s1.root o).toBase, s1.stat o.res, o.cell, false⟩
              hnone' hb (encLen s.flen (s1.root o).toBase) (by simp [weight, hs]) rfl ?_ rfl rfl
            show _ + encLen s1.flen _ = _ + encLen s.flen _
            rw [hb.2.2.2]; rfl
          · rename_i hs
            refine keeps_add' (s := s) (s' := s1) ⟨.leaf .null, .leaf .null, s1.stat o.res, o.cell, false⟩
              hnone' hb 0 ?_ rfl rfl rfl rfl
            cases hst : s.strategy <;> simp_all [weight]
      cases hl : loadFromResource s o with
      | none => exact hmerge (s, none) (SameBook.refl s)
      | some d => exact hmerge (mergeInto s oi o d) (sameBook_mergeInto s oi o d)
  revert key
  generalize (if (s.entry o.res).isSome = true then (s, (none : Option Err)) else _) = p
  intro key
  obtain ⟨s1, err⟩ := p
  cases err with
  | some e => exact key
  | none => exact key.trans (Keeps.of_sameBook (sameBook_register s1 oi))


theorem keeps_load (s : State) (oi : Nat) : Keeps s (load s oi).1 := by
  unfold load
  split
  · exact Keeps.refl s
  · rename_i o _
    split
    · split
      · -- serialized
        cases he : ensureEntry s oi o with
        | mk s1 err =>
          have h1 : Keeps s s1 := by have := keeps_ensureEntry s oi o; rwa [he] at this
          simp only
          cases err with
          | some e => exact h1
          | none =>
            simp only
            split
            · exact h1
            · have h2 : Keeps s1 (if s1.size > s1.capacity then flushBuffer s1 true else (s1, none)).1 := by
                split
                · exact keeps_flushBuffer s1 true
                · exact Keeps.refl s1
              revert h2
              generalize (if s1.size > s1.capacity then flushBuffer s1 true else (s1, none)) = p
              intro h2
              obtain ⟨s2, ferr⟩ := p
              cases ferr with
              | some fe => exact h1.trans h2
              | none => exact (h1.trans h2).trans (Keeps.of_sameBook (sameBook_mergeInto _ _ _ _))
      · -- shared memory
        cases he : ensureEntry s oi o with
        | mk s1 err =>
          have h1 : Keeps s s1 := by have := keeps_ensureEntry s oi o; rwa [he] at this
          simp only
          cases err with
          | some e => exact h1
          | none =>
            simp only
            split
            · exact h1
            · exact h1.trans (Keeps.of_sameBook (sameBook_setObj _ _ _))
      · exact Keeps.refl s
    · split
      · exact Keeps.refl s
      · exact Keeps.of_sameBook (sameBook_mergeInto _ _ _ _)


theorem keeps_save (s : State) (oi : Nat) : Keeps s (save s oi).1 := by
  unfold save
  split
  · exact Keeps.refl s
  · rename_i o _
    split
    · simp only
      have h0 : SameBook s (s.register oi) := sameBook_register s oi
      have hflush : ∀ s1 : State, Keeps s s1 →
          Keeps s (if s1.size > s1.capacity then flushBuffer s1 true else (s1, none)).1 := by
        intro s1 h1
        split
        · exact h1.trans (keeps_flushBuffer s1 true)
        · exact h1
      have hst : (s.register oi).strategy = s.strategy := h0.2.2.1
      split
      · -- serialized
        rename_i hs
        apply hflush
        cases he : (s.register oi).entry o.res with
        | some e =>
          simp only
          have he' : s.entry o.res = some e := by rw [← entry_of_sameBook h0]; exact he
          refine keeps_replace' (s := s) (s' := s.register oi)
            { e with contents := ((s.register oi).root o).toBase,
                     hash := if e.fmeta.isNone then .leaf .null else e.hash } he' h0
            ((s.register oi).size + encLen (s.register oi).flen ((s.register oi).root o).toBase
              - encLen (s.register oi).flen e.contents) ?_ rfl rfl rfl rfl
          intro hok
          have hge := size_ge_weight hok he'
          have hs' : s.strategy = .serialized := by rw [← hst]; exact hs
          simp only [weight, hs'] at hge ⊢
          rw [h0.2.1, h0.2.2.2]; omega
        | none =>
          simp only
          have he' : s.entry o.res = none := by rw [← entry_of_sameBook h0]; exact he
          have hs' : s.strategy = .serialized := by rw [← hst]; exact hs
          -- the entry is created, then its hash is overwritten (weight unchanged)
          have hinit : Keeps s (initEntrySer (s.register oi) o) := by
            refine keeps_add' (s := s) (s' := s.register oi)
              ⟨((s.register oi).root o).toBase, ((s.register oi).root o).toBase, (s.register oi).stat o.res, o.cell, false⟩
              he' h0 (encLen s.flen ((s.register oi).root o).toBase) (by simp [weight, hs']) rfl ?_ rfl rfl
            show _ + encLen (s.register oi).flen _ = _ + encLen s.flen _
            rw [h0.2.2.2]; rfl
          cases he2 : (initEntrySer (s.register oi) o).entry o.res with
          | none => simp only; exact hinit
          | some e2 =>
            simp only
            refine hinit.trans ?_
            refine keeps_replace' (s := initEntrySer (s.register oi) o) (s' := initEntrySer (s.register oi) o)
              { e2 with hash := (loadFromResource (initEntrySer (s.register oi) o) o).getD (.leaf .null) }
              he2 (SameBook.refl _) (initEntrySer (s.register oi) o).size ?_ rfl rfl rfl rfl
            intro _
            have : (initEntrySer (s.register oi) o).strategy = .serialized := by
              rw [hinit.1]; exact hs'
            simp [weight, this]
      · -- shared memory
        rename_i hs
        apply hflush
        have hs' : s.strategy = .sharedMemory := by rw [← hst]; exact hs
        cases he : (s.register oi).entry o.res with
        | some e =>
          simp only
          have he' : s.entry o.res = some e := by rw [← entry_of_sameBook h0]; exact he
          cases hm : e.modified
          · simp only [Bool.false_eq_true, if_false]
            refine keeps_replace' (s := s) (s' := s.register oi) { e with modified := true, cell := o.cell }
              he' h0 ((s.register oi).size + 1) ?_ rfl rfl rfl rfl
            intro _; simp [weight, hs', hm, h0.2.1]
          · simp only [if_true]
            refine keeps_replace' (s := s) (s' := s.register oi) { e with modified := true, cell := o.cell }
              he' h0 (s.register oi).size ?_ rfl rfl rfl rfl
            intro _; simp [weight, hs', hm, h0.2.1]
        | none =>
          simp only
          have he' : s.entry o.res = none := by rw [← entry_of_sameBook h0]; exact he
          exact keeps_add' (s := s) (s' := s.register oi)
            ⟨.leaf .null, .leaf .null, (s.register oi).stat o.res, o.cell, true⟩ he' h0 1
            (by simp [weight, hs']) rfl rfl rfl rfl
      · exact Keeps.of_sameBook h0
    · exact Keeps.of_sameBook (sameBook_trySave s _)


theorem sameBook_putNode (s : State) (h : Handle) (t : T) : SameBook s (putNode s h t) := by
  unfold putNode
  cases h with
  | root o => simp only; split <;> exact ⟨rfl, rfl, rfl, rfl⟩
  | node id => exact ⟨rfl, rfl, rfl, rfl⟩

theorem keeps_call (s : State) (h : Handle) (op : Op) : Keeps s (call s h op).1 := by
  unfold call
  split
  · rename_i oi isRoot t0 _ _
    split
    · exact Keeps.refl s
    · -- the load(s)
      have hload : Keeps s (if (op.isOverwrite && isRoot || op.skipsLoad) = true then (s, (none : Option Err))
          else
            match load s oi with
            | (s1, e1) =>
              match e1 with
              | some e => (s1, some e)
              | none =>
                match handleNode s1 h with
                | some t => if op.loadsTwice t = true then load s1 oi else (s1, none)
                | none => (s1, none)).1 := by
        split
        · exact Keeps.refl s
        · cases hl : load s oi with
          | mk s1 e1 =>
            have h1 : Keeps s s1 := by have := keeps_load s oi; rwa [hl] at this
            simp only
            cases e1 with
            | some e => exact h1
            | none =>
              simp only
              split
              · split
                · exact h1.trans (keeps_load s1 oi)
                · exact h1
              · exact h1
      revert hload
      generalize (if (op.isOverwrite && isRoot || op.skipsLoad) = true then (s, (none : Option Err)) else _) = p
      intro hload
      obtain ⟨s1, lerr⟩ := p
      simp only at hload ⊢
      cases lerr with
      | some e => exact hload
      | none =>
        simp only
        split
        · exact hload
        · rename_i t _
          have h2 : Keeps s1 (((putNode s1 h (runBody s.fam t op s1.next).node).own oi s1.next
              (runBody s.fam t op s1.next).next).addDetached oi (runBody s.fam t op s1.next).det) :=
            Keeps.of_sameBook (((sameBook_putNode s1 h _).trans (sameBook_own _ _ _ _)).trans
              (sameBook_addDetached _ _ _))
          have h3 : ∀ s2 : State, Keeps s1 s2 →
              Keeps s1 (if op.isRead = true then (s2, (none : Option Err)) else save s2 oi).1 := by
            intro s2 h
            split
            · exact h
            · exact h.trans (keeps_save s2 oi)
          have h4 := h3 _ h2
          revert h4
          generalize (if op.isRead = true then ((((putNode s1 h (runBody s.fam t op s1.next).node).own oi s1.next
              (runBody s.fam t op s1.next).next).addDetached oi (runBody s.fam t op s1.next).det), (none : Option Err))
              else save _ oi) = q
          intro h4
          obtain ⟨s3, serr⟩ := q
          simp only at h4 ⊢
          cases serr with
          | some e => exact hload.trans h4
          | none =>
            simp only
            split <;> exact hload.trans h4
  · exact Keeps.refl s


theorem keeps_enterObj (s : State) (oi : Nat) : Keeps s (enterObj s oi) := by
  unfold enterObj; split
  · exact Keeps.refl s
  · exact Keeps.of_sameBook (sameBook_setObj _ _ _)

theorem keeps_exitObj (s : State) (oi : Nat) : Keeps s (exitObj s oi).1 := by
  unfold exitObj; split
  · exact Keeps.refl s
  · simp only
    split
    · exact (Keeps.of_sameBook (sameBook_setObj _ _ _)).trans (keeps_flushOne _ _ _)
    · exact Keeps.of_sameBook (sameBook_setObj _ _ _)

theorem keeps_enterCls (s : State) (cap : Option Nat) : Keeps s (enterCls s cap).1 := by
  unfold enterCls
  simp only
  cases cap with
  | none => exact Keeps.of_sameBook ⟨rfl, rfl, rfl, rfl⟩
  | some c =>
    exact (Keeps.of_sameBook (s' := { { s with ctx := s.ctx + 1 } with
        capStack := some s.capacity :: s.capStack }) ⟨rfl, rfl, rfl, rfl⟩).trans (keeps_setCapacity _ c)

theorem keeps_exitCls (s : State) : Keeps s (exitCls s).1 := by
  unfold exitCls
  simp only
  have h1 : Keeps s (if s.ctx - 1 = 0 then flushBuffer { s with ctx := s.ctx - 1 } false
      else ({ s with ctx := s.ctx - 1 }, none)).1 := by
    have h0 : Keeps s { s with ctx := s.ctx - 1 } := Keeps.of_sameBook ⟨rfl, rfl, rfl, rfl⟩
    split
    · exact h0.trans (keeps_flushBuffer _ false)
    · exact h0
  revert h1
  generalize (if s.ctx - 1 = 0 then flushBuffer { s with ctx := s.ctx - 1 } false
      else ({ s with ctx := s.ctx - 1 }, none)) = p
  intro h1
  obtain ⟨s2, ferr⟩ := p
  simp only at h1 ⊢
  split
  · exact h1
  · rename_i top rest _
    cases top with
    | none => exact h1.trans (Keeps.of_sameBook ⟨rfl, rfl, rfl, rfl⟩)
    | some c =>
      simp only
      exact (h1.trans (Keeps.of_sameBook (s' := { s2 with capStack := rest }) ⟨rfl, rfl, rfl, rfl⟩)).trans
        (keeps_setCapacity _ c)

theorem keeps_openObj (s : State) (d : Bool) (r : Nat) (data : Option J) :
    Keeps s (openObj s d r data).1 := by
  unfold openObj
  simp only
  cases data with
  | none =>
    simp only
    exact Keeps.of_sameBook (SameBook.trans ⟨rfl, rfl, rfl, rfl⟩ (sameBook_own _ _ _ _))
  | some dd =>
    simp only
    split
    · exact Keeps.refl s
    · split
      · exact Keeps.refl s
      · exact Keeps.of_sameBook (SameBook.trans ⟨rfl, rfl, rfl, rfl⟩ (sameBook_own _ _ _ _))

/-- every step of a history keeps the static parameters and the size invariant -/
theorem keeps_step (s : State) (st : Step) : Keeps s (step s st) := by
  cases st with
  | call h op => exact keeps_call s h op
  | enterObj oi => exact keeps_enterObj s oi
  | exitObj oi => exact keeps_exitObj s oi
  | enterCls cap => exact keeps_enterCls s cap
  | exitCls => exact keeps_exitCls s
  | setCap n => exact keeps_setCapacity s n
  | openObj d r data => exact keeps_openObj s d r data
  | ext r d => exact Keeps.of_sameBook (sameBook_writeFile s r d)
  | extDel r => exact Keeps.of_sameBook ⟨rfl, rfl, rfl, rfl⟩
  | setFailing rs => exact Keeps.of_sameBook ⟨rfl, rfl, rfl, rfl⟩

theorem keeps_run (s : State) (steps : List Step) : Keeps s (run s steps) := by
  induction steps generalizing s with
  | nil => exact Keeps.refl s
  | cons st rest ih => exact (keeps_step s st).trans (ih _)

theorem sizeOK_init (fam : Fam) (strategy : Buffering) (fl : List ((Int × Nat) × Nat)) :
    SizeOK (State.init fam strategy fl) := by
  refine ⟨?_, ?_⟩
  · simp [KeysNodup, State.init]
  · simp [State.init, measure]

end SC.B
