/-
The merge post-condition (`update_post`): when `_update` returns normally, the merged tree has
exactly the content of the data — same structure, same scalars (constructor and payload) at
every leaf, dict keys as sets (key ORDER follows memory, then new keys) — for every tree and
every data of any depth and width.
-/
import SC.Tree
import SC.Lemmas.Tree
namespace SC
open Tr

variable {ι : Type}

/-! ### association lists -/

theorem lookup_append {α : Type} (k : Key) (a b : List (Key × α)) :
    Tr.lookup k (a ++ b) = match Tr.lookup k a with | some v => some v | none => Tr.lookup k b := by
  induction a with
  | nil => rfl
  | cons p ps ih =>
    obtain ⟨k', v'⟩ := p
    simp only [List.cons_append, Tr.lookup]
    split
    · rfl
    · exact ih

theorem lookup_setKey_same {α : Type} (k : Key) (v : α) (kvs : List (Key × α)) :
    Tr.lookup k (Tr.setKey k v kvs) = some v := by
  induction kvs with
  | nil => simp [Tr.setKey, Tr.lookup]
  | cons p ps ih =>
    obtain ⟨k', v'⟩ := p
    simp only [Tr.setKey]
    split
    · simp [Tr.lookup]
    · rename_i h; simp only [Tr.lookup, h, if_false]; exact ih

theorem lookup_setKey_other {α : Type} (k k2 : Key) (v : α) (kvs : List (Key × α)) (h : k2 ≠ k) :
    Tr.lookup k2 (Tr.setKey k v kvs) = Tr.lookup k2 kvs := by
  induction kvs with
  | nil =>
    have hne : ¬ k = k2 := fun e => h e.symm
    simp [Tr.setKey, Tr.lookup, hne]
  | cons p ps ih =>
    obtain ⟨k', v'⟩ := p
    have hne : ¬ k = k2 := fun e => h e.symm
    simp only [Tr.setKey]
    split
    · rename_i hk
      simp only [Tr.lookup, hk, hne, if_false]
    · simp only [Tr.lookup]
      split
      · rfl
      · exact ih

theorem hasKey_iff_lookup {α : Type} (k : Key) (kvs : List (Key × α)) :
    Tr.hasKey k kvs = true ↔ ∃ v, Tr.lookup k kvs = some v := by
  simp [Tr.hasKey, Option.isSome_iff_exists]

theorem lookup_filter_hasKey {α β : Type} (k : Key) (kvs : List (Key × α)) (d : List (Key × β))
    (h : Tr.hasKey k d = true) :
    Tr.lookup k (kvs.filter (fun kv => Tr.hasKey kv.1 d)) = Tr.lookup k kvs := by
  induction kvs with
  | nil => rfl
  | cons p ps ih =>
    obtain ⟨k', v'⟩ := p
    simp only [List.filter_cons]
    by_cases hk : k' = k
    · subst hk; simp [h, Tr.lookup]
    · by_cases hd : Tr.hasKey k' d = true
      · simp only [hd, if_true, Tr.lookup, hk, if_false]; exact ih
      · simp only [hd, Tr.lookup, hk, if_false]; exact ih

theorem lookup_filter_some {α β : Type} (k : Key) (v : α) (kvs : List (Key × α)) (d : List (Key × β))
    (h : Tr.lookup k (kvs.filter (fun kv => Tr.hasKey kv.1 d)) = some v) :
    Tr.hasKey k d = true ∧ Tr.lookup k kvs = some v := by
  induction kvs with
  | nil => simp [Tr.lookup] at h
  | cons p ps ih =>
    obtain ⟨k', v'⟩ := p
    simp only [List.filter_cons] at h
    by_cases hd : Tr.hasKey k' d = true
    · simp only [hd, if_true, Tr.lookup] at h
      by_cases hk : k' = k
      · subst hk; simp only [if_true] at h; simp [Tr.lookup, hd, h]
      · simp only [hk, if_false] at h
        have := ih h
        simp only [Tr.lookup, hk, if_false]; exact this
    · simp only [hd] at h
      have := ih h
      by_cases hk : k' = k
      · subst hk; exact absurd this.1 hd
      · simp only [Tr.lookup, hk, if_false]; exact this

/-! ### content equivalence: same structure and scalars, dict keys as sets -/

mutual
def Eqv : T → Tr ι → Prop
  | .leaf a, .leaf b => a = b
  | .list _ xs, .list _ ys => EqvL xs ys
  | .dict _ kvs, .dict _ kws => EqvKV kvs kws ∧ ∀ k, Tr.hasKey k kws = true → Tr.hasKey k kvs = true
  | _, _ => False
def EqvL : List T → List (Tr ι) → Prop
  | [], [] => True
  | x :: xs, y :: ys => Eqv x y ∧ EqvL xs ys
  | _, _ => False
/-- every binding of the left dict has a binding with the same key and equivalent value on the right -/
def EqvKV : List (Key × T) → List (Key × Tr ι) → Prop
  | [], _ => True
  | (k, v) :: kvs, kws => (∃ w, Tr.lookup k kws = some w ∧ Eqv v w) ∧ EqvKV kvs kws
end

theorem EqvKV_iff (kvs : List (Key × T)) (kws : List (Key × Tr ι)) :
    EqvKV kvs kws ↔ ∀ kv ∈ kvs, ∃ w, Tr.lookup kv.1 kws = some w ∧ Eqv kv.2 w := by
  induction kvs with
  | nil => simp [EqvKV]
  | cons p ps ih =>
    obtain ⟨k, v⟩ := p
    simp only [EqvKV, ih, List.mem_cons, forall_eq_or_imp]

mutual
/-- a freshly converted value has the content of what it was converted from -/
theorem eqv_fromBase : ∀ (v : Tr ι) (n : Nat), v.wf = true → Eqv (fromBase v n).1 v
  | .leaf s, n, _ => by simp [fromBase, Eqv]
  | .list _ xs, n, h => by
    simp only [fromBase, Eqv]; exact eqvL_fromBaseL xs (n + 1) (by simpa [Tr.wf] using h)
  | .dict _ kvs, n, h => by
    simp only [fromBase, Eqv]
    have hw : Tr.wfKV kvs = true := by simpa [Tr.wf] using h
    exact ⟨eqvKV_fromBaseKV kvs (n + 1) hw, fun k hk => by rw [hasKey_fromBaseKV]; exact hk⟩
theorem eqvL_fromBaseL : ∀ (xs : List (Tr ι)) (n : Nat), Tr.wfL xs = true → EqvL (fromBaseL xs n).1 xs
  | [], n, _ => by simp [fromBaseL, EqvL]
  | x :: xs, n, h => by
    simp only [Tr.wfL, Bool.and_eq_true] at h
    simp only [fromBaseL, EqvL]
    exact ⟨eqv_fromBase x n h.1, eqvL_fromBaseL xs _ h.2⟩
theorem eqvKV_fromBaseKV : ∀ (kvs : List (Key × Tr ι)) (n : Nat), Tr.wfKV kvs = true →
    EqvKV (fromBaseKV kvs n).1 kvs
  | [], n, _ => by simp [fromBaseKV, EqvKV]
  | (k, v) :: kvs, n, h => by
    simp only [Tr.wfKV, Bool.and_eq_true, Bool.not_eq_true'] at h
    simp only [fromBaseKV, EqvKV]
    refine ⟨⟨v, by simp [Tr.lookup], eqv_fromBase v n h.1.2⟩, ?_⟩
    -- the remaining bindings do not use key k (unique keys), so looking them up skips the head
    have := eqvKV_fromBaseKV kvs (fromBase v n).2 h.2
    rw [EqvKV_iff] at this ⊢
    intro kv hkv
    obtain ⟨w, hw, he⟩ := this kv hkv
    refine ⟨w, ?_, he⟩
    have hne : k ≠ kv.1 := by
      intro e
      have : Tr.hasKey k kvs = true := by
        rw [hasKey_iff_lookup]; exact ⟨w, e ▸ hw⟩
      rw [this] at h; simp at h
    simp only [Tr.lookup, hne, if_false]; exact hw
theorem hasKey_fromBaseKV : ∀ (kvs : List (Key × Tr ι)) (n : Nat) (k : Key),
    Tr.hasKey k (fromBaseKV kvs n).1 = Tr.hasKey k kvs
  | [], n, k => by simp [fromBaseKV, Tr.hasKey, Tr.lookup]
  | (k', v) :: kvs, n, k => by
    simp only [fromBaseKV, Tr.hasKey, Tr.lookup]
    split
    · rfl
    · have := hasKey_fromBaseKV kvs (fromBase v n).2 k
      simpa [Tr.hasKey] using this
end

end SC

namespace SC
open Tr
variable {ι : Type}

/-! ### well-formedness (unique keys everywhere) is preserved -/

theorem hasKey_append {α : Type} (k : Key) (a b : List (Key × α)) :
    Tr.hasKey k (a ++ b) = (Tr.hasKey k a || Tr.hasKey k b) := by
  simp only [Tr.hasKey, lookup_append]
  cases Tr.lookup k a <;> simp

theorem hasKey_setKey {α : Type} (k k2 : Key) (v : α) (kvs : List (Key × α)) :
    Tr.hasKey k2 (Tr.setKey k v kvs) = (decide (k2 = k) || Tr.hasKey k2 kvs) := by
  by_cases h : k2 = k
  · subst h; simp [Tr.hasKey, lookup_setKey_same]
  · simp [Tr.hasKey, lookup_setKey_other k k2 v kvs h, h]

theorem hasKey_filter_le {α : Type} (k : Key) (p : Key × α → Bool) (kvs : List (Key × α))
    (h : Tr.hasKey k kvs = false) : Tr.hasKey k (kvs.filter p) = false := by
  induction kvs with
  | nil => rfl
  | cons q qs ih =>
    obtain ⟨k', v'⟩ := q
    simp only [Tr.hasKey, Tr.lookup] at h
    by_cases hk : k' = k
    · simp [hk] at h
    · simp only [hk, if_false] at h
      simp only [List.filter_cons]
      split
      · simp only [Tr.hasKey, Tr.lookup, hk, if_false]; exact ih h
      · exact ih h

theorem wfKV_append (cur : List (Key × T)) (k : Key) (x : T) (hc : Tr.wfKV cur = true)
    (hk : Tr.hasKey k cur = false) (hx : x.wf = true) : Tr.wfKV (cur ++ [(k, x)]) = true := by
  induction cur with
  | nil => simp [Tr.wfKV, hx, Tr.hasKey, Tr.lookup]
  | cons q qs ih =>
    obtain ⟨k', v'⟩ := q
    simp only [Tr.wfKV, Bool.and_eq_true, Bool.not_eq_true'] at hc
    simp only [Tr.hasKey, Tr.lookup] at hk
    by_cases hkk : k' = k
    · simp [hkk] at hk
    · simp only [hkk, if_false] at hk
      simp only [List.cons_append, Tr.wfKV, Bool.and_eq_true, Bool.not_eq_true']
      refine ⟨⟨?_, hc.1.2⟩, ih hc.2 hk⟩
      rw [hasKey_append, hc.1.1]
      have hne : ¬ k = k' := fun e => hkk e.symm
      simp [Tr.hasKey, Tr.lookup, hne]

theorem wfKV_setKey (cur : List (Key × T)) (k : Key) (x : T) (hc : Tr.wfKV cur = true)
    (hx : x.wf = true) : Tr.wfKV (Tr.setKey k x cur) = true := by
  induction cur with
  | nil => simp [Tr.setKey, Tr.wfKV, hx, Tr.hasKey, Tr.lookup]
  | cons q qs ih =>
    obtain ⟨k', v'⟩ := q
    simp only [Tr.wfKV, Bool.and_eq_true, Bool.not_eq_true'] at hc
    simp only [Tr.setKey]
    split
    · rename_i hkk
      subst hkk
      simp only [Tr.wfKV, Bool.and_eq_true, Bool.not_eq_true']
      exact ⟨⟨hc.1.1, hx⟩, hc.2⟩
    · rename_i hkk
      simp only [Tr.wfKV, Bool.and_eq_true, Bool.not_eq_true']
      refine ⟨⟨?_, hc.1.2⟩, ih hc.2⟩
      rw [hasKey_setKey]
      simp [hc.1.1, hkk]

theorem wfKV_filter (cur : List (Key × T)) (p : Key × T → Bool) (hc : Tr.wfKV cur = true) :
    Tr.wfKV (cur.filter p) = true := by
  induction cur with
  | nil => rfl
  | cons q qs ih =>
    obtain ⟨k', v'⟩ := q
    simp only [Tr.wfKV, Bool.and_eq_true, Bool.not_eq_true'] at hc
    simp only [List.filter_cons]
    split
    · simp only [Tr.wfKV, Bool.and_eq_true, Bool.not_eq_true']
      exact ⟨⟨hasKey_filter_le k' p qs hc.1.1, hc.1.2⟩, ih hc.2⟩
    · exact ih hc.2

theorem wf_of_lookup {kvs : List (Key × T)} {k : Key} {v : T} (hc : Tr.wfKV kvs = true)
    (hl : Tr.lookup k kvs = some v) : v.wf = true := by
  induction kvs with
  | nil => simp [Tr.lookup] at hl
  | cons q qs ih =>
    obtain ⟨k', v'⟩ := q
    simp only [Tr.wfKV, Bool.and_eq_true, Bool.not_eq_true'] at hc
    simp only [Tr.lookup] at hl
    split at hl
    · simp only [Option.some.injEq] at hl; subst hl; exact hc.1.2
    · exact ih hc.2 hl

/-- in a list of bindings with unique keys every binding is the one `lookup` finds -/
theorem lookup_of_mem {kvs : List (Key × T)} (hc : Tr.wfKV kvs = true) :
    ∀ kv ∈ kvs, Tr.lookup kv.1 kvs = some kv.2 := by
  induction kvs with
  | nil => intro kv h; simp at h
  | cons q qs ih =>
    obtain ⟨k', v'⟩ := q
    simp only [Tr.wfKV, Bool.and_eq_true, Bool.not_eq_true'] at hc
    intro kv hkv
    rcases List.mem_cons.mp hkv with rfl | hm
    · simp [Tr.lookup]
    · have := ih hc.2 kv hm
      have hne : k' ≠ kv.1 := by
        intro e
        have : Tr.hasKey k' qs = true := by rw [hasKey_iff_lookup]; exact ⟨kv.2, e ▸ this⟩
        rw [this] at hc; simp at hc
      simp only [Tr.lookup, hne, if_false]; exact this

mutual
theorem wf_fromBase : ∀ (v : Tr ι) (n : Nat), v.wf = true → (fromBase v n).1.wf = true
  | .leaf s, n, _ => by simp [fromBase, Tr.wf]
  | .list _ xs, n, h => by
    simp only [fromBase, Tr.wf]; exact wfL_fromBaseL xs (n + 1) (by simpa [Tr.wf] using h)
  | .dict _ kvs, n, h => by
    simp only [fromBase, Tr.wf]; exact wfKV_fromBaseKV kvs (n + 1) (by simpa [Tr.wf] using h)
theorem wfL_fromBaseL : ∀ (xs : List (Tr ι)) (n : Nat), Tr.wfL xs = true → Tr.wfL (fromBaseL xs n).1 = true
  | [], n, _ => by simp [fromBaseL, Tr.wfL]
  | x :: xs, n, h => by
    simp only [Tr.wfL, Bool.and_eq_true] at h
    simp only [fromBaseL, Tr.wfL, Bool.and_eq_true]
    exact ⟨wf_fromBase x n h.1, wfL_fromBaseL xs _ h.2⟩
theorem wfKV_fromBaseKV : ∀ (kvs : List (Key × Tr ι)) (n : Nat), Tr.wfKV kvs = true →
    Tr.wfKV (fromBaseKV kvs n).1 = true
  | [], n, _ => by simp [fromBaseKV, Tr.wfKV]
  | (k, v) :: kvs, n, h => by
    simp only [Tr.wfKV, Bool.and_eq_true, Bool.not_eq_true'] at h
    simp only [fromBaseKV, Tr.wfKV, Bool.and_eq_true, Bool.not_eq_true']
    refine ⟨⟨?_, wf_fromBase v n h.1.2⟩, wfKV_fromBaseKV kvs _ h.2⟩
    rw [hasKey_fromBaseKV]; exact h.1.1
end

end SC

namespace SC
open Tr
variable {ι : Type}

/-! ### the merge post-condition -/

/-- one position of the merge loop -/
theorem elemStep_post {existing : T} {new : Tr ι} {nested : UpdRes T} {verr : Option Err} {n : Nat}
    (hnew : new.wf = true) (hex : existing.wf = true)
    (hnested : nested.err = none → existing.isLeaf = false → new ≠ .leaf .null →
      Eqv nested.val new ∧ nested.val.wf = true)
    (herr : (elemStep existing new nested verr n).err = none) :
    Eqv (elemStep existing new nested verr n).val new ∧ (elemStep existing new nested verr n).val.wf = true := by
  have hrep : ∀ (cur : T) (m : Nat) (det : List T),
      (match verr with
       | some e => (⟨cur, m, det, some e⟩ : UpdRes T)
       | none => ⟨(fromBase new m).1, (fromBase new m).2, det ++ containers [cur], none⟩).err = none →
      Eqv (match verr with
       | some e => (⟨cur, m, det, some e⟩ : UpdRes T)
       | none => ⟨(fromBase new m).1, (fromBase new m).2, det ++ containers [cur], none⟩).val new ∧
      (match verr with
       | some e => (⟨cur, m, det, some e⟩ : UpdRes T)
       | none => ⟨(fromBase new m).1, (fromBase new m).2, det ++ containers [cur], none⟩).val.wf = true := by
    intro cur m det h
    cases verr with
    | some e => simp at h
    | none => exact ⟨eqv_fromBase new m hnew, wf_fromBase new m hnew⟩
  -- the branch taken when memory holds a container and the data is not null
  have hsecond : existing.isLeaf = false → new ≠ .leaf .null →
      (match nested.err with
        | none => nested
        | some e =>
          if e.isValueError = true then
            (match verr with
             | some e => (⟨nested.val, nested.next, nested.det, some e⟩ : UpdRes T)
             | none => ⟨(fromBase new nested.next).1, (fromBase new nested.next).2,
                        nested.det ++ containers [nested.val], none⟩)
          else nested).err = none →
      Eqv (match nested.err with
        | none => nested
        | some e =>
          if e.isValueError = true then
            (match verr with
             | some e => (⟨nested.val, nested.next, nested.det, some e⟩ : UpdRes T)
             | none => ⟨(fromBase new nested.next).1, (fromBase new nested.next).2,
                        nested.det ++ containers [nested.val], none⟩)
          else nested).val new ∧
      (match nested.err with
        | none => nested
        | some e =>
          if e.isValueError = true then
            (match verr with
             | some e => (⟨nested.val, nested.next, nested.det, some e⟩ : UpdRes T)
             | none => ⟨(fromBase new nested.next).1, (fromBase new nested.next).2,
                        nested.det ++ containers [nested.val], none⟩)
          else nested).val.wf = true := by
    intro hleaf hnn h
    cases hne : nested.err with
    | none => simp only [hne] at h ⊢; exact hnested hne hleaf hnn
    | some e =>
      simp only [hne] at h ⊢
      by_cases hv : e.isValueError = true
      · simp only [hv, if_true] at h ⊢; exact hrep _ _ _ h
      · simp only [hv] at h; simp [hne] at h
  unfold elemStep at herr ⊢
  cases existing with
  | leaf s =>
    cases new with
    | leaf s' =>
      simp only at herr ⊢
      split
      · rename_i hs; subst hs; exact ⟨by simp [Eqv], hex⟩
      · rename_i hs; simp only [hs, if_false] at herr; exact hrep _ _ _ herr
    | list i xs => exact hrep _ _ _ herr
    | dict i kvs => exact hrep _ _ _ herr
  | list i xs =>
    cases new with
    | leaf s' =>
      cases s' with
      | null => exact hrep _ _ _ herr
      | bool b => exact hsecond rfl (by simp) herr
      | int z => exact hsecond rfl (by simp) herr
      | flt a b => exact hsecond rfl (by simp) herr
      | str z => exact hsecond rfl (by simp) herr
      | other z => exact hsecond rfl (by simp) herr
    | list j ys => exact hsecond rfl (by simp) herr
    | dict j kws => exact hsecond rfl (by simp) herr
  | dict i kvs =>
    cases new with
    | leaf s' =>
      cases s' with
      | null => exact hrep _ _ _ herr
      | bool b => exact hsecond rfl (by simp) herr
      | int z => exact hsecond rfl (by simp) herr
      | flt a b => exact hsecond rfl (by simp) herr
      | str z => exact hsecond rfl (by simp) herr
      | other z => exact hsecond rfl (by simp) herr
    | list j ys => exact hsecond rfl (by simp) herr
    | dict j kws => exact hsecond rfl (by simp) herr

end SC

namespace SC
open Tr
variable {ι : Type}

theorem lookup_none_of_hasKey_false {α : Type} {k : Key} {kvs : List (Key × α)}
    (h : Tr.hasKey k kvs = false) : Tr.lookup k kvs = none := by
  cases hl : Tr.lookup k kvs with
  | none => rfl
  | some v => simp [Tr.hasKey, hl] at h

mutual
/-- MERGE POST-CONDITION.  If `existing._update(data)` returns normally — for any tree with
unique keys, any data with unique keys other than a bare null, any depth and width — the
merged tree has exactly the content of the data (and unique keys again). -/
theorem updNode_post (fam : Fam) : ∀ (d : Tr ι) (t : T) (n : Nat), d.wf = true → t.wf = true →
    d ≠ .leaf .null → (updNode fam t d n).err = none →
    Eqv (updNode fam t d n).val d ∧ (updNode fam t d n).val.wf = true
  | .leaf s, t, n, _, _, hnn, herr => by
    cases s <;> cases t <;> simp_all [updNode]
  | .list j dxs, t, n, hd, ht, _, herr => by
    cases t with
    | leaf s => simp [updNode] at herr
    | dict i kvs => simp [updNode] at herr
    | list i xs =>
      simp only [updNode] at herr ⊢
      have h := updListLoop_post fam dxs xs n (by simpa [Tr.wf] using hd) (by simpa [Tr.wf] using ht) herr
      exact ⟨by simpa [Eqv] using h.1, by simpa [Tr.wf] using h.2⟩
  | .dict j dkvs, t, n, hd, ht, _, herr => by
    cases t with
    | leaf s => simp [updNode] at herr
    | list i xs => simp [updNode] at herr
    | dict i kvs =>
      have hdw : Tr.wfKV dkvs = true := by simpa [Tr.wf] using hd
      have htw : Tr.wfKV kvs = true := by simpa [Tr.wf] using ht
      simp only [updNode] at herr ⊢
      cases hl : (updDictLoop fam kvs dkvs n).err with
      | some e => simp [hl] at herr
      | none =>
        simp only [hl]
        have h := updDictLoop_post fam dkvs kvs n hdw htw hl
        obtain ⟨ha, _, hw⟩ := h
        have hkeepw := wfKV_filter (updDictLoop fam kvs dkvs n).val (fun kv => Tr.hasKey kv.1 dkvs) hw
        refine ⟨?_, by simpa [Tr.wf] using hkeepw⟩
        simp only [Eqv]
        refine ⟨?_, ?_⟩
        · -- every kept binding matches the data
          rw [EqvKV_iff]
          intro kv hkv
          have hlk := lookup_of_mem hkeepw kv hkv
          obtain ⟨hin, hlv⟩ := lookup_filter_some kv.1 kv.2 _ dkvs hlk
          obtain ⟨w, hw'⟩ := (hasKey_iff_lookup kv.1 dkvs).mp hin
          obtain ⟨v', hv', he⟩ := ha kv.1 w hw'
          rw [hlv] at hv'
          simp only [Option.some.injEq] at hv'
          subst hv'
          exact ⟨w, hw', he⟩
        · -- every key of the data is present
          intro k hk
          obtain ⟨w, hw'⟩ := (hasKey_iff_lookup k dkvs).mp hk
          obtain ⟨v', hv', _⟩ := ha k w hw'
          rw [hasKey_iff_lookup]
          exact ⟨v', by rw [lookup_filter_hasKey k _ dkvs hk]; exact hv'⟩
theorem updDictLoop_post (fam : Fam) : ∀ (data : List (Key × Tr ι)) (cur : List (Key × T)) (n : Nat),
    Tr.wfKV data = true → Tr.wfKV cur = true → (updDictLoop fam cur data n).err = none →
    (∀ k v, Tr.lookup k data = some v →
      ∃ v', Tr.lookup k (updDictLoop fam cur data n).val = some v' ∧ Eqv v' v) ∧
    (∀ k, Tr.hasKey k data = false →
      Tr.lookup k (updDictLoop fam cur data n).val = Tr.lookup k cur) ∧
    Tr.wfKV (updDictLoop fam cur data n).val = true
  | [], cur, n, _, hc, _ => by
    refine ⟨?_, ?_, ?_⟩
    · intro k v h; simp [Tr.lookup] at h
    · intro _ _; simp [updDictLoop]
    · simpa [updDictLoop] using hc
  | (k, v) :: rest, cur, n, hd, hc, herr => by
    simp only [Tr.wfKV, Bool.and_eq_true, Bool.not_eq_true'] at hd
    obtain ⟨⟨hknot, hvw⟩, hrw⟩ := hd
    simp only [updDictLoop] at herr ⊢
    cases hlook : Tr.lookup k cur with
    | none =>
      simp only [hlook] at herr ⊢
      cases hval : validateKV fam.dictV [(k, v)] with
      | some e => simp [hval] at herr
      | none =>
        simp only [hval] at herr ⊢
        have hkc : Tr.hasKey k cur = false := by simp [Tr.hasKey, hlook]
        have hc' := wfKV_append cur k (fromBase v n).1 hc hkc (wf_fromBase v n hvw)
        have ih := updDictLoop_post fam rest (cur ++ [(k, (fromBase v n).1)]) (fromBase v n).2 hrw hc' herr
        obtain ⟨ha, hb, hw⟩ := ih
        refine ⟨?_, ?_, hw⟩
        · intro k2 v2 h2
          simp only [Tr.lookup] at h2
          by_cases hk2 : k = k2
          · subst hk2
            simp only [if_true, Option.some.injEq] at h2
            subst h2
            refine ⟨(fromBase v n).1, ?_, eqv_fromBase v n hvw⟩
            rw [hb k hknot, lookup_append, hlook]
            simp [Tr.lookup]
          · simp only [hk2, if_false] at h2
            exact ha k2 v2 h2
        · intro k2 h2
          simp only [Tr.hasKey, Tr.lookup] at h2
          by_cases hk2 : k = k2
          · simp [hk2] at h2
          · simp only [hk2, if_false] at h2
            rw [hb k2 h2, lookup_append]
            cases hl2 : Tr.lookup k2 cur with
            | some x => rfl
            | none => simp [Tr.lookup, hk2]
    | some existing =>
      simp only [hlook] at herr ⊢
      have hexw := wf_of_lookup hc hlook
      -- name the step
      generalize hs : elemStep existing v (updNode fam existing v n) (validateKV fam.dictV [(k, v)]) n = s at herr ⊢
      cases hse : s.err with
      | some e => simp [hse] at herr
      | none =>
        simp only [hse] at herr ⊢
        have hstep := elemStep_post (n := n) (verr := validateKV fam.dictV [(k, v)]) hvw hexw
          (fun hne _ hnn => updNode_post fam v existing n hvw hexw hnn hne) (by rw [hs]; exact hse)
        rw [hs] at hstep
        have hc' := wfKV_setKey cur k s.val hc hstep.2
        have ih := updDictLoop_post fam rest (Tr.setKey k s.val cur) s.next hrw hc' herr
        obtain ⟨ha, hb, hw⟩ := ih
        refine ⟨?_, ?_, hw⟩
        · intro k2 v2 h2
          simp only [Tr.lookup] at h2
          by_cases hk2 : k = k2
          · subst hk2
            simp only [if_true, Option.some.injEq] at h2
            subst h2
            refine ⟨s.val, ?_, hstep.1⟩
            rw [hb k hknot, lookup_setKey_same]
          · simp only [hk2, if_false] at h2
            exact ha k2 v2 h2
        · intro k2 h2
          simp only [Tr.hasKey, Tr.lookup] at h2
          by_cases hk2 : k = k2
          · simp [hk2] at h2
          · simp only [hk2, if_false] at h2
            rw [hb k2 h2, lookup_setKey_other k k2 s.val cur (fun e => hk2 e.symm)]
theorem updListLoop_post (fam : Fam) : ∀ (data : List (Tr ι)) (cur : List T) (n : Nat),
    Tr.wfL data = true → Tr.wfL cur = true → (updListLoop fam cur data n).err = none →
    EqvL (updListLoop fam cur data n).val data ∧ Tr.wfL (updListLoop fam cur data n).val = true
  | [], [], n, _, _, _ => by simp [updListLoop, EqvL, Tr.wfL]
  | [], c :: cs, n, _, _, _ => by simp [updListLoop, EqvL, Tr.wfL]
  | d :: ds, [], n, hd, _, herr => by
    simp only [updListLoop] at herr ⊢
    cases hv : validateL fam.listV (d :: ds) with
    | some e => simp [hv] at herr
    | none =>
      simp only [hv]
      exact ⟨eqvL_fromBaseL (d :: ds) n hd, wfL_fromBaseL (d :: ds) n hd⟩
  | d :: ds, c :: cs, n, hd, hc, herr => by
    simp only [Tr.wfL, Bool.and_eq_true] at hd hc
    simp only [updListLoop] at herr ⊢
    generalize hs : elemStep c d (updNode fam c d n) (validate fam.listV d) n = s at herr ⊢
    cases hse : s.err with
    | some e => simp [hse] at herr
    | none =>
      simp only [hse] at herr ⊢
      have hstep := elemStep_post (n := n) (verr := validate fam.listV d) hd.1 hc.1
        (fun hne _ hnn => updNode_post fam d c n hd.1 hc.1 hnn hne) (by rw [hs]; exact hse)
      rw [hs] at hstep
      have ih := updListLoop_post fam ds cs s.next hd.2 hc.2 herr
      exact ⟨by simp only [EqvL]; exact ⟨hstep.1, ih.1⟩, by simp only [Tr.wfL, hstep.2, ih.2]; rfl⟩
end

end SC
